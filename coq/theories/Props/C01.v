(* Props/C01.v — property C01: incremental distinguishers are invariant to how the traces are split into batches;
   compute() never disturbs; asking twice gives the same answer.  Only statements closed by [exact]; Print Assumptions
   beneath each.  Definitions: Model/Batching.v (bundles, the ten instances, the table lift), Model/Accum.v (upd, feed, run,
   expected outputs); proofs: Proofs/Batching.v, which instantiates Accum's generic theorems with the monoid laws proved
   by the owners of the per-distinguisher models (Proofs/Cpa.v, Partitioned.v, Mia.v, Template.v, Ttest.v).

   Reading guide.  A distinguisher is a bundle A = (state a_St, a_zero, a_plus, a_contrib : one trace -> state,
   a_comp : state -> result).
     upd_of A s b          one update(b) call from state s:  a_plus s (sum of the contributions of the rows of b)
     feed_of A s bs        successive update() calls, one per batch of bs
     hist A = list (op (a_R A))   a history: Update b | Compute  in any order
     run_of A s h          running h from s: (final state, what the compute() calls returned, in order)
     oneshot A rows        a_comp (upd_of A a_zero rows): ONE update with all the rows on a fresh object, then compute()
     seen_at seen h        for each Compute of h, the rows fed before it (starting from [seen]), concatenated
     updates_of A h        the batches of h;   computes h   the number of Compute in h
   The per-ENTRY bundles (one (word, sample) pair; for the t-test one sample) are lifted to the whole result by
   [table_of A RT projs]: a whole trace contributes to entry i through projection i, the state is the list of the entry
   states, compute() maps the entry compute over the entries (C order of (words, samples)).  Template build and matching
   are whole-result bundles already.  The theorems are in exact rational arithmetic; "up to floating-point rounding" is
   the tolerance of the correspondence check (Model/Batching.bcheck), not a theorem. *)
From Coq Require Import ZArith QArith Qcanon List Bool Lia.
From ScaredV Require Import Lib.QcSum Run.Compare Model.Accum Model.Batching Proofs.Batching.
From ScaredV Require Model.Cpa Model.Partitioned Model.Mia Model.Template Model.Ttest.
Import ListNotations.

(* ================================================================ for EVERY bundle with the three monoid laws *)
(* split_invariance: every ordered partition into batches — batches of one row, empty batches — gives the one-shot state *)
Theorem split_invariance : forall A : accum, lawful A ->
  forall (s : a_St A) (batches : list (list (a_R A))), feed_of A s batches = upd_of A s (concat batches).
Proof. exact split_invariance_gen. Qed.
Print Assumptions split_invariance.

(* history_outputs: the k-th compute() of ANY history of updates and computes returns the one-shot result of everything
   fed before it *)
Theorem history_outputs : forall A : accum, lawful A ->
  forall (h : hist A) (seen : list (a_R A)),
  snd (run_of A (upd_of A (a_zero A) seen) h) = map (oneshot A) (seen_at seen h).
Proof. exact history_outputs_oneshot_gen. Qed.
Print Assumptions history_outputs.

Theorem history_outputs_fresh : forall A : accum, lawful A ->
  forall h : hist A, snd (run_of A (a_zero A) h) = map (oneshot A) (seen_at [] h).
Proof. exact history_outputs_fresh_gen. Qed.
Print Assumptions history_outputs_fresh.

(* compute_does_not_disturb: deleting any compute() from a history leaves the final state and every other output as they
   were; deleting all of them leaves the final state as it was (no law needed: compute() is a pure read) *)
Theorem compute_does_not_disturb : forall (A : accum) (s : a_St A) (h1 h2 : hist A),
  exists o1 v o2,
    snd (run_of A s (h1 ++ Compute :: h2)) = o1 ++ v :: o2
    /\ snd (run_of A s (h1 ++ h2)) = o1 ++ o2
    /\ length o1 = computes h1
    /\ v = a_comp A (fst (run_of A s h1))
    /\ fst (run_of A s (h1 ++ Compute :: h2)) = fst (run_of A s (h1 ++ h2)).
Proof. exact compute_removable_gen. Qed.
Print Assumptions compute_does_not_disturb.

Theorem computes_do_not_disturb : forall (A : accum) (s : a_St A) (h : hist A),
  fst (run_of A s h) = fst (run_of A s (map Update (updates_of A h))).
Proof. exact compute_does_not_disturb_gen. Qed.
Print Assumptions computes_do_not_disturb.

(* compute_twice_same: two successive compute() calls anywhere in a history return the same value, and the other outputs
   are what they are with a single call *)
Theorem compute_twice_same : forall (A : accum) (s : a_St A) (h1 h2 : hist A),
  exists o1 v o2,
    snd (run_of A s (h1 ++ Compute :: Compute :: h2)) = o1 ++ v :: v :: o2
    /\ snd (run_of A s (h1 ++ Compute :: h2)) = o1 ++ v :: o2
    /\ length o1 = computes h1.
Proof. exact compute_twice_same_gen. Qed.
Print Assumptions compute_twice_same.

(* same_updates_same_outputs: two histories whose updates concatenate to the same rows end in the same state, and whatever
   follows ([tail]) returns the same *)
Theorem same_updates_same_outputs : forall A : accum, lawful A ->
  forall (s : a_St A) (h1 h2 tail : hist A),
  concat (updates_of A h1) = concat (updates_of A h2) ->
  fst (run_of A s h1) = fst (run_of A s h2)
  /\ exists o, snd (run_of A s (h1 ++ tail)) = snd (run_of A s h1) ++ o
               /\ snd (run_of A s (h2 ++ tail)) = snd (run_of A s h2) ++ o.
Proof. exact same_updates_same_outputs_gen. Qed.
Print Assumptions same_updates_same_outputs.

(* a compute() at the end of any history on a fresh object returns the one-shot result of all its rows *)
Theorem final_compute_is_oneshot : forall A : accum, lawful A ->
  forall h : hist A,
  snd (run_of A (a_zero A) (h ++ [Compute])) = snd (run_of A (a_zero A) h) ++ [oneshot A (concat (updates_of A h))].
Proof. exact final_compute_is_oneshot_gen. Qed.
Print Assumptions final_compute_is_oneshot.

(* run_length_batch_is_the_expanded_batch: the correspondence check gives a very large batch (65535 .. 200000 traces) as runs
   (row, count) and evaluates the weighted sum [rl_oneshot] (count times the contribution of the row, by doubling): that IS the
   one-shot result of the expanded batch.  The table bundles are lawful (table_is_lawful), so this covers them too. *)
Theorem run_length_batch_is_the_expanded_batch : forall A : accum, lawful A ->
  forall runs : list (a_R A * positive), rl_oneshot A runs = oneshot A (expand runs).
Proof. exact rl_oneshot_expand. Qed.
Print Assumptions run_length_batch_is_the_expanded_batch.

(* the expected outputs the correspondence check evaluates (Accum.expected_outputs) are these one-shot results *)
Theorem check_expects_the_oneshot_results : forall (A : accum) (seen : list (a_R A)) (h : hist A),
  expected_of A seen h = map (oneshot A) (seen_at seen h).
Proof. exact expected_is_oneshot. Qed.
Print Assumptions check_expects_the_oneshot_results.

(* ================================================================ CPA (CPADistinguisher), one (word, sample) entry *)
Theorem cpa_accumulator_lawful : lawful cpa_inst.
Proof. exact (cpa_lawful). Qed.
Print Assumptions cpa_accumulator_lawful.

Theorem cpa_split_invariance : forall (s : Cpa.cst) (batches : list (list Cpa.obs)),
  feed_of cpa_inst s batches = upd_of cpa_inst s (concat batches).
Proof. exact (split_invariance_gen cpa_inst (cpa_lawful)). Qed.
Print Assumptions cpa_split_invariance.

Theorem cpa_history_outputs : forall (h : list (op Cpa.obs)) (seen : list Cpa.obs),
  snd (run_of cpa_inst (upd_of cpa_inst (a_zero cpa_inst) seen) h) = map (oneshot cpa_inst) (seen_at seen h).
Proof. exact (history_outputs_oneshot_gen cpa_inst (cpa_lawful)). Qed.
Print Assumptions cpa_history_outputs.

Theorem cpa_compute_does_not_disturb : forall (s : Cpa.cst) (h1 h2 : list (op Cpa.obs)),
  exists o1 v o2,
    snd (run_of cpa_inst s (h1 ++ Compute :: h2)) = o1 ++ v :: o2
    /\ snd (run_of cpa_inst s (h1 ++ h2)) = o1 ++ o2
    /\ length o1 = computes h1
    /\ v = a_comp cpa_inst (fst (run_of cpa_inst s h1))
    /\ fst (run_of cpa_inst s (h1 ++ Compute :: h2)) = fst (run_of cpa_inst s (h1 ++ h2)).
Proof. exact (compute_removable_gen cpa_inst). Qed.
Print Assumptions cpa_compute_does_not_disturb.

Theorem cpa_compute_twice_same : forall (s : Cpa.cst) (h1 h2 : list (op Cpa.obs)),
  exists o1 v o2,
    snd (run_of cpa_inst s (h1 ++ Compute :: Compute :: h2)) = o1 ++ v :: v :: o2
    /\ snd (run_of cpa_inst s (h1 ++ Compute :: h2)) = o1 ++ v :: o2
    /\ length o1 = computes h1.
Proof. exact (compute_twice_same_gen cpa_inst). Qed.
Print Assumptions cpa_compute_twice_same.

Theorem cpa_same_updates_same_outputs : forall (s : Cpa.cst) (h1 h2 tail : list (op Cpa.obs)),
  concat (updates_of cpa_inst h1) = concat (updates_of cpa_inst h2) ->
  fst (run_of cpa_inst s h1) = fst (run_of cpa_inst s h2)
  /\ exists o, snd (run_of cpa_inst s (h1 ++ tail)) = snd (run_of cpa_inst s h1) ++ o
               /\ snd (run_of cpa_inst s (h2 ++ tail)) = snd (run_of cpa_inst s h2) ++ o.
Proof. exact (same_updates_same_outputs_gen cpa_inst (cpa_lawful)). Qed.
Print Assumptions cpa_same_updates_same_outputs.

(* ================================================================ alternative CPA (CPAAlternativeDistinguisher), one entry *)
Theorem cpa_alt_accumulator_lawful : lawful cpa_alt_inst.
Proof. exact (cpa_alt_lawful). Qed.
Print Assumptions cpa_alt_accumulator_lawful.

Theorem cpa_alt_split_invariance : forall (s : Cpa.cst) (batches : list (list Cpa.obs)),
  feed_of cpa_alt_inst s batches = upd_of cpa_alt_inst s (concat batches).
Proof. exact (split_invariance_gen cpa_alt_inst (cpa_alt_lawful)). Qed.
Print Assumptions cpa_alt_split_invariance.

Theorem cpa_alt_history_outputs : forall (h : list (op Cpa.obs)) (seen : list Cpa.obs),
  snd (run_of cpa_alt_inst (upd_of cpa_alt_inst (a_zero cpa_alt_inst) seen) h) = map (oneshot cpa_alt_inst) (seen_at seen h).
Proof. exact (history_outputs_oneshot_gen cpa_alt_inst (cpa_alt_lawful)). Qed.
Print Assumptions cpa_alt_history_outputs.

Theorem cpa_alt_compute_does_not_disturb : forall (s : Cpa.cst) (h1 h2 : list (op Cpa.obs)),
  exists o1 v o2,
    snd (run_of cpa_alt_inst s (h1 ++ Compute :: h2)) = o1 ++ v :: o2
    /\ snd (run_of cpa_alt_inst s (h1 ++ h2)) = o1 ++ o2
    /\ length o1 = computes h1
    /\ v = a_comp cpa_alt_inst (fst (run_of cpa_alt_inst s h1))
    /\ fst (run_of cpa_alt_inst s (h1 ++ Compute :: h2)) = fst (run_of cpa_alt_inst s (h1 ++ h2)).
Proof. exact (compute_removable_gen cpa_alt_inst). Qed.
Print Assumptions cpa_alt_compute_does_not_disturb.

Theorem cpa_alt_compute_twice_same : forall (s : Cpa.cst) (h1 h2 : list (op Cpa.obs)),
  exists o1 v o2,
    snd (run_of cpa_alt_inst s (h1 ++ Compute :: Compute :: h2)) = o1 ++ v :: v :: o2
    /\ snd (run_of cpa_alt_inst s (h1 ++ Compute :: h2)) = o1 ++ v :: o2
    /\ length o1 = computes h1.
Proof. exact (compute_twice_same_gen cpa_alt_inst). Qed.
Print Assumptions cpa_alt_compute_twice_same.

Theorem cpa_alt_same_updates_same_outputs : forall (s : Cpa.cst) (h1 h2 tail : list (op Cpa.obs)),
  concat (updates_of cpa_alt_inst h1) = concat (updates_of cpa_alt_inst h2) ->
  fst (run_of cpa_alt_inst s h1) = fst (run_of cpa_alt_inst s h2)
  /\ exists o, snd (run_of cpa_alt_inst s (h1 ++ tail)) = snd (run_of cpa_alt_inst s h1) ++ o
               /\ snd (run_of cpa_alt_inst s (h2 ++ tail)) = snd (run_of cpa_alt_inst s h2) ++ o.
Proof. exact (same_updates_same_outputs_gen cpa_alt_inst (cpa_alt_lawful)). Qed.
Print Assumptions cpa_alt_same_updates_same_outputs.

(* ================================================================ DPA (DPADistinguisher), one entry *)
Theorem dpa_accumulator_lawful : lawful dpa_inst.
Proof. exact (dpa_lawful). Qed.
Print Assumptions dpa_accumulator_lawful.

Theorem dpa_split_invariance : forall (s : Cpa.dst) (batches : list (list Cpa.dobs)),
  feed_of dpa_inst s batches = upd_of dpa_inst s (concat batches).
Proof. exact (split_invariance_gen dpa_inst (dpa_lawful)). Qed.
Print Assumptions dpa_split_invariance.

Theorem dpa_history_outputs : forall (h : list (op Cpa.dobs)) (seen : list Cpa.dobs),
  snd (run_of dpa_inst (upd_of dpa_inst (a_zero dpa_inst) seen) h) = map (oneshot dpa_inst) (seen_at seen h).
Proof. exact (history_outputs_oneshot_gen dpa_inst (dpa_lawful)). Qed.
Print Assumptions dpa_history_outputs.

Theorem dpa_compute_does_not_disturb : forall (s : Cpa.dst) (h1 h2 : list (op Cpa.dobs)),
  exists o1 v o2,
    snd (run_of dpa_inst s (h1 ++ Compute :: h2)) = o1 ++ v :: o2
    /\ snd (run_of dpa_inst s (h1 ++ h2)) = o1 ++ o2
    /\ length o1 = computes h1
    /\ v = a_comp dpa_inst (fst (run_of dpa_inst s h1))
    /\ fst (run_of dpa_inst s (h1 ++ Compute :: h2)) = fst (run_of dpa_inst s (h1 ++ h2)).
Proof. exact (compute_removable_gen dpa_inst). Qed.
Print Assumptions dpa_compute_does_not_disturb.

Theorem dpa_compute_twice_same : forall (s : Cpa.dst) (h1 h2 : list (op Cpa.dobs)),
  exists o1 v o2,
    snd (run_of dpa_inst s (h1 ++ Compute :: Compute :: h2)) = o1 ++ v :: v :: o2
    /\ snd (run_of dpa_inst s (h1 ++ Compute :: h2)) = o1 ++ v :: o2
    /\ length o1 = computes h1.
Proof. exact (compute_twice_same_gen dpa_inst). Qed.
Print Assumptions dpa_compute_twice_same.

Theorem dpa_same_updates_same_outputs : forall (s : Cpa.dst) (h1 h2 tail : list (op Cpa.dobs)),
  concat (updates_of dpa_inst h1) = concat (updates_of dpa_inst h2) ->
  fst (run_of dpa_inst s h1) = fst (run_of dpa_inst s h2)
  /\ exists o, snd (run_of dpa_inst s (h1 ++ tail)) = snd (run_of dpa_inst s h1) ++ o
               /\ snd (run_of dpa_inst s (h2 ++ tail)) = snd (run_of dpa_inst s h2) ++ o.
Proof. exact (same_updates_same_outputs_gen dpa_inst (dpa_lawful)). Qed.
Print Assumptions dpa_same_updates_same_outputs.

(* ================================================================ ANOVA (ANOVADistinguisher), one entry, any class list *)
Theorem anova_accumulator_lawful : forall (parts : list Z),
  lawful (anova_inst parts).
Proof. exact (fun parts => part_lawful Partitioned.ANOVA parts). Qed.
Print Assumptions anova_accumulator_lawful.

Theorem anova_split_invariance : forall (parts : list Z),
  forall (s : Partitioned.st) (batches : list (list Partitioned.row)),
  feed_of (anova_inst parts) s batches = upd_of (anova_inst parts) s (concat batches).
Proof. exact (fun parts => split_invariance_gen (anova_inst parts) (part_lawful Partitioned.ANOVA parts)). Qed.
Print Assumptions anova_split_invariance.

Theorem anova_history_outputs : forall (parts : list Z),
  forall (h : list (op Partitioned.row)) (seen : list Partitioned.row),
  snd (run_of (anova_inst parts) (upd_of (anova_inst parts) (a_zero (anova_inst parts)) seen) h) = map (oneshot (anova_inst parts)) (seen_at seen h).
Proof. exact (fun parts => history_outputs_oneshot_gen (anova_inst parts) (part_lawful Partitioned.ANOVA parts)). Qed.
Print Assumptions anova_history_outputs.

Theorem anova_compute_does_not_disturb : forall (parts : list Z),
  forall (s : Partitioned.st) (h1 h2 : list (op Partitioned.row)),
  exists o1 v o2,
    snd (run_of (anova_inst parts) s (h1 ++ Compute :: h2)) = o1 ++ v :: o2
    /\ snd (run_of (anova_inst parts) s (h1 ++ h2)) = o1 ++ o2
    /\ length o1 = computes h1
    /\ v = a_comp (anova_inst parts) (fst (run_of (anova_inst parts) s h1))
    /\ fst (run_of (anova_inst parts) s (h1 ++ Compute :: h2)) = fst (run_of (anova_inst parts) s (h1 ++ h2)).
Proof. exact (fun parts => compute_removable_gen (anova_inst parts)). Qed.
Print Assumptions anova_compute_does_not_disturb.

Theorem anova_compute_twice_same : forall (parts : list Z),
  forall (s : Partitioned.st) (h1 h2 : list (op Partitioned.row)),
  exists o1 v o2,
    snd (run_of (anova_inst parts) s (h1 ++ Compute :: Compute :: h2)) = o1 ++ v :: v :: o2
    /\ snd (run_of (anova_inst parts) s (h1 ++ Compute :: h2)) = o1 ++ v :: o2
    /\ length o1 = computes h1.
Proof. exact (fun parts => compute_twice_same_gen (anova_inst parts)). Qed.
Print Assumptions anova_compute_twice_same.

Theorem anova_same_updates_same_outputs : forall (parts : list Z),
  forall (s : Partitioned.st) (h1 h2 tail : list (op Partitioned.row)),
  concat (updates_of (anova_inst parts) h1) = concat (updates_of (anova_inst parts) h2) ->
  fst (run_of (anova_inst parts) s h1) = fst (run_of (anova_inst parts) s h2)
  /\ exists o, snd (run_of (anova_inst parts) s (h1 ++ tail)) = snd (run_of (anova_inst parts) s h1) ++ o
               /\ snd (run_of (anova_inst parts) s (h2 ++ tail)) = snd (run_of (anova_inst parts) s h2) ++ o.
Proof. exact (fun parts => same_updates_same_outputs_gen (anova_inst parts) (part_lawful Partitioned.ANOVA parts)). Qed.
Print Assumptions anova_same_updates_same_outputs.

(* ================================================================ NICV (NICVDistinguisher), one entry, any class list *)
Theorem nicv_accumulator_lawful : forall (parts : list Z),
  lawful (nicv_inst parts).
Proof. exact (fun parts => part_lawful Partitioned.NICV parts). Qed.
Print Assumptions nicv_accumulator_lawful.

Theorem nicv_split_invariance : forall (parts : list Z),
  forall (s : Partitioned.st) (batches : list (list Partitioned.row)),
  feed_of (nicv_inst parts) s batches = upd_of (nicv_inst parts) s (concat batches).
Proof. exact (fun parts => split_invariance_gen (nicv_inst parts) (part_lawful Partitioned.NICV parts)). Qed.
Print Assumptions nicv_split_invariance.

Theorem nicv_history_outputs : forall (parts : list Z),
  forall (h : list (op Partitioned.row)) (seen : list Partitioned.row),
  snd (run_of (nicv_inst parts) (upd_of (nicv_inst parts) (a_zero (nicv_inst parts)) seen) h) = map (oneshot (nicv_inst parts)) (seen_at seen h).
Proof. exact (fun parts => history_outputs_oneshot_gen (nicv_inst parts) (part_lawful Partitioned.NICV parts)). Qed.
Print Assumptions nicv_history_outputs.

Theorem nicv_compute_does_not_disturb : forall (parts : list Z),
  forall (s : Partitioned.st) (h1 h2 : list (op Partitioned.row)),
  exists o1 v o2,
    snd (run_of (nicv_inst parts) s (h1 ++ Compute :: h2)) = o1 ++ v :: o2
    /\ snd (run_of (nicv_inst parts) s (h1 ++ h2)) = o1 ++ o2
    /\ length o1 = computes h1
    /\ v = a_comp (nicv_inst parts) (fst (run_of (nicv_inst parts) s h1))
    /\ fst (run_of (nicv_inst parts) s (h1 ++ Compute :: h2)) = fst (run_of (nicv_inst parts) s (h1 ++ h2)).
Proof. exact (fun parts => compute_removable_gen (nicv_inst parts)). Qed.
Print Assumptions nicv_compute_does_not_disturb.

Theorem nicv_compute_twice_same : forall (parts : list Z),
  forall (s : Partitioned.st) (h1 h2 : list (op Partitioned.row)),
  exists o1 v o2,
    snd (run_of (nicv_inst parts) s (h1 ++ Compute :: Compute :: h2)) = o1 ++ v :: v :: o2
    /\ snd (run_of (nicv_inst parts) s (h1 ++ Compute :: h2)) = o1 ++ v :: o2
    /\ length o1 = computes h1.
Proof. exact (fun parts => compute_twice_same_gen (nicv_inst parts)). Qed.
Print Assumptions nicv_compute_twice_same.

Theorem nicv_same_updates_same_outputs : forall (parts : list Z),
  forall (s : Partitioned.st) (h1 h2 tail : list (op Partitioned.row)),
  concat (updates_of (nicv_inst parts) h1) = concat (updates_of (nicv_inst parts) h2) ->
  fst (run_of (nicv_inst parts) s h1) = fst (run_of (nicv_inst parts) s h2)
  /\ exists o, snd (run_of (nicv_inst parts) s (h1 ++ tail)) = snd (run_of (nicv_inst parts) s h1) ++ o
               /\ snd (run_of (nicv_inst parts) s (h2 ++ tail)) = snd (run_of (nicv_inst parts) s h2) ++ o.
Proof. exact (fun parts => same_updates_same_outputs_gen (nicv_inst parts) (part_lawful Partitioned.NICV parts)). Qed.
Print Assumptions nicv_same_updates_same_outputs.

(* ================================================================ SNR (SNRDistinguisher), one entry, any class list *)
Theorem snr_accumulator_lawful : forall (parts : list Z),
  lawful (snr_inst parts).
Proof. exact (fun parts => part_lawful Partitioned.SNR parts). Qed.
Print Assumptions snr_accumulator_lawful.

Theorem snr_split_invariance : forall (parts : list Z),
  forall (s : Partitioned.st) (batches : list (list Partitioned.row)),
  feed_of (snr_inst parts) s batches = upd_of (snr_inst parts) s (concat batches).
Proof. exact (fun parts => split_invariance_gen (snr_inst parts) (part_lawful Partitioned.SNR parts)). Qed.
Print Assumptions snr_split_invariance.

Theorem snr_history_outputs : forall (parts : list Z),
  forall (h : list (op Partitioned.row)) (seen : list Partitioned.row),
  snd (run_of (snr_inst parts) (upd_of (snr_inst parts) (a_zero (snr_inst parts)) seen) h) = map (oneshot (snr_inst parts)) (seen_at seen h).
Proof. exact (fun parts => history_outputs_oneshot_gen (snr_inst parts) (part_lawful Partitioned.SNR parts)). Qed.
Print Assumptions snr_history_outputs.

Theorem snr_compute_does_not_disturb : forall (parts : list Z),
  forall (s : Partitioned.st) (h1 h2 : list (op Partitioned.row)),
  exists o1 v o2,
    snd (run_of (snr_inst parts) s (h1 ++ Compute :: h2)) = o1 ++ v :: o2
    /\ snd (run_of (snr_inst parts) s (h1 ++ h2)) = o1 ++ o2
    /\ length o1 = computes h1
    /\ v = a_comp (snr_inst parts) (fst (run_of (snr_inst parts) s h1))
    /\ fst (run_of (snr_inst parts) s (h1 ++ Compute :: h2)) = fst (run_of (snr_inst parts) s (h1 ++ h2)).
Proof. exact (fun parts => compute_removable_gen (snr_inst parts)). Qed.
Print Assumptions snr_compute_does_not_disturb.

Theorem snr_compute_twice_same : forall (parts : list Z),
  forall (s : Partitioned.st) (h1 h2 : list (op Partitioned.row)),
  exists o1 v o2,
    snd (run_of (snr_inst parts) s (h1 ++ Compute :: Compute :: h2)) = o1 ++ v :: v :: o2
    /\ snd (run_of (snr_inst parts) s (h1 ++ Compute :: h2)) = o1 ++ v :: o2
    /\ length o1 = computes h1.
Proof. exact (fun parts => compute_twice_same_gen (snr_inst parts)). Qed.
Print Assumptions snr_compute_twice_same.

Theorem snr_same_updates_same_outputs : forall (parts : list Z),
  forall (s : Partitioned.st) (h1 h2 tail : list (op Partitioned.row)),
  concat (updates_of (snr_inst parts) h1) = concat (updates_of (snr_inst parts) h2) ->
  fst (run_of (snr_inst parts) s h1) = fst (run_of (snr_inst parts) s h2)
  /\ exists o, snd (run_of (snr_inst parts) s (h1 ++ tail)) = snd (run_of (snr_inst parts) s h1) ++ o
               /\ snd (run_of (snr_inst parts) s (h2 ++ tail)) = snd (run_of (snr_inst parts) s h2) ++ o.
Proof. exact (fun parts => same_updates_same_outputs_gen (snr_inst parts) (part_lawful Partitioned.SNR parts)). Qed.
Print Assumptions snr_same_updates_same_outputs.

(* ================================================================ MIA (MIADistinguisher) with FIXED bin edges, one entry: any edge list, class list, bin-index estimate and x ln x *)
Theorem mia_accumulator_lawful : forall (edges : list Qc) (est : Qc -> nat) (parts : list Z) (phi : Qc -> Qc),
  lawful (mia_inst edges est parts phi).
Proof. exact (fun edges est parts phi => mia_lawful edges est parts phi). Qed.
Print Assumptions mia_accumulator_lawful.

Theorem mia_split_invariance : forall (edges : list Qc) (est : Qc -> nat) (parts : list Z) (phi : Qc -> Qc),
  forall (s : Mia.st) (batches : list (list Mia.row)),
  feed_of (mia_inst edges est parts phi) s batches = upd_of (mia_inst edges est parts phi) s (concat batches).
Proof. exact (fun edges est parts phi => split_invariance_gen (mia_inst edges est parts phi) (mia_lawful edges est parts phi)). Qed.
Print Assumptions mia_split_invariance.

Theorem mia_history_outputs : forall (edges : list Qc) (est : Qc -> nat) (parts : list Z) (phi : Qc -> Qc),
  forall (h : list (op Mia.row)) (seen : list Mia.row),
  snd (run_of (mia_inst edges est parts phi) (upd_of (mia_inst edges est parts phi) (a_zero (mia_inst edges est parts phi)) seen) h) = map (oneshot (mia_inst edges est parts phi)) (seen_at seen h).
Proof. exact (fun edges est parts phi => history_outputs_oneshot_gen (mia_inst edges est parts phi) (mia_lawful edges est parts phi)). Qed.
Print Assumptions mia_history_outputs.

Theorem mia_compute_does_not_disturb : forall (edges : list Qc) (est : Qc -> nat) (parts : list Z) (phi : Qc -> Qc),
  forall (s : Mia.st) (h1 h2 : list (op Mia.row)),
  exists o1 v o2,
    snd (run_of (mia_inst edges est parts phi) s (h1 ++ Compute :: h2)) = o1 ++ v :: o2
    /\ snd (run_of (mia_inst edges est parts phi) s (h1 ++ h2)) = o1 ++ o2
    /\ length o1 = computes h1
    /\ v = a_comp (mia_inst edges est parts phi) (fst (run_of (mia_inst edges est parts phi) s h1))
    /\ fst (run_of (mia_inst edges est parts phi) s (h1 ++ Compute :: h2)) = fst (run_of (mia_inst edges est parts phi) s (h1 ++ h2)).
Proof. exact (fun edges est parts phi => compute_removable_gen (mia_inst edges est parts phi)). Qed.
Print Assumptions mia_compute_does_not_disturb.

Theorem mia_compute_twice_same : forall (edges : list Qc) (est : Qc -> nat) (parts : list Z) (phi : Qc -> Qc),
  forall (s : Mia.st) (h1 h2 : list (op Mia.row)),
  exists o1 v o2,
    snd (run_of (mia_inst edges est parts phi) s (h1 ++ Compute :: Compute :: h2)) = o1 ++ v :: v :: o2
    /\ snd (run_of (mia_inst edges est parts phi) s (h1 ++ Compute :: h2)) = o1 ++ v :: o2
    /\ length o1 = computes h1.
Proof. exact (fun edges est parts phi => compute_twice_same_gen (mia_inst edges est parts phi)). Qed.
Print Assumptions mia_compute_twice_same.

Theorem mia_same_updates_same_outputs : forall (edges : list Qc) (est : Qc -> nat) (parts : list Z) (phi : Qc -> Qc),
  forall (s : Mia.st) (h1 h2 tail : list (op Mia.row)),
  concat (updates_of (mia_inst edges est parts phi) h1) = concat (updates_of (mia_inst edges est parts phi) h2) ->
  fst (run_of (mia_inst edges est parts phi) s h1) = fst (run_of (mia_inst edges est parts phi) s h2)
  /\ exists o, snd (run_of (mia_inst edges est parts phi) s (h1 ++ tail)) = snd (run_of (mia_inst edges est parts phi) s h1) ++ o
               /\ snd (run_of (mia_inst edges est parts phi) s (h2 ++ tail)) = snd (run_of (mia_inst edges est parts phi) s h2) ++ o.
Proof. exact (fun edges est parts phi => same_updates_same_outputs_gen (mia_inst edges est parts phi) (mia_lawful edges est parts phi)). Qed.
Print Assumptions mia_same_updates_same_outputs.

(* ================================================================ template build (_TemplateBuildDistinguisherMixin): any class list, any trace length *)
Theorem template_build_accumulator_lawful : forall (parts : list Z) (S : nat),
  lawful (tbuild_inst parts S).
Proof. exact (fun parts S => tbuild_lawful parts S). Qed.
Print Assumptions template_build_accumulator_lawful.

Theorem template_build_split_invariance : forall (parts : list Z) (S : nat),
  forall (s : Template.st) (batches : list (list Template.brow)),
  feed_of (tbuild_inst parts S) s batches = upd_of (tbuild_inst parts S) s (concat batches).
Proof. exact (fun parts S => split_invariance_gen (tbuild_inst parts S) (tbuild_lawful parts S)). Qed.
Print Assumptions template_build_split_invariance.

Theorem template_build_history_outputs : forall (parts : list Z) (S : nat),
  forall (h : list (op Template.brow)) (seen : list Template.brow),
  snd (run_of (tbuild_inst parts S) (upd_of (tbuild_inst parts S) (a_zero (tbuild_inst parts S)) seen) h) = map (oneshot (tbuild_inst parts S)) (seen_at seen h).
Proof. exact (fun parts S => history_outputs_oneshot_gen (tbuild_inst parts S) (tbuild_lawful parts S)). Qed.
Print Assumptions template_build_history_outputs.

Theorem template_build_compute_does_not_disturb : forall (parts : list Z) (S : nat),
  forall (s : Template.st) (h1 h2 : list (op Template.brow)),
  exists o1 v o2,
    snd (run_of (tbuild_inst parts S) s (h1 ++ Compute :: h2)) = o1 ++ v :: o2
    /\ snd (run_of (tbuild_inst parts S) s (h1 ++ h2)) = o1 ++ o2
    /\ length o1 = computes h1
    /\ v = a_comp (tbuild_inst parts S) (fst (run_of (tbuild_inst parts S) s h1))
    /\ fst (run_of (tbuild_inst parts S) s (h1 ++ Compute :: h2)) = fst (run_of (tbuild_inst parts S) s (h1 ++ h2)).
Proof. exact (fun parts S => compute_removable_gen (tbuild_inst parts S)). Qed.
Print Assumptions template_build_compute_does_not_disturb.

Theorem template_build_compute_twice_same : forall (parts : list Z) (S : nat),
  forall (s : Template.st) (h1 h2 : list (op Template.brow)),
  exists o1 v o2,
    snd (run_of (tbuild_inst parts S) s (h1 ++ Compute :: Compute :: h2)) = o1 ++ v :: v :: o2
    /\ snd (run_of (tbuild_inst parts S) s (h1 ++ Compute :: h2)) = o1 ++ v :: o2
    /\ length o1 = computes h1.
Proof. exact (fun parts S => compute_twice_same_gen (tbuild_inst parts S)). Qed.
Print Assumptions template_build_compute_twice_same.

Theorem template_build_same_updates_same_outputs : forall (parts : list Z) (S : nat),
  forall (s : Template.st) (h1 h2 tail : list (op Template.brow)),
  concat (updates_of (tbuild_inst parts S) h1) = concat (updates_of (tbuild_inst parts S) h2) ->
  fst (run_of (tbuild_inst parts S) s h1) = fst (run_of (tbuild_inst parts S) s h2)
  /\ exists o, snd (run_of (tbuild_inst parts S) s (h1 ++ tail)) = snd (run_of (tbuild_inst parts S) s h1) ++ o
               /\ snd (run_of (tbuild_inst parts S) s (h2 ++ tail)) = snd (run_of (tbuild_inst parts S) s h2) ++ o.
Proof. exact (fun parts S => same_updates_same_outputs_gen (tbuild_inst parts S) (tbuild_lawful parts S)). Qed.
Print Assumptions template_build_same_updates_same_outputs.

(* ================================================================ template matching (TemplateAttack / TemplateDPA distinguisher mixins): any templates T, any matrix P used as inverse covariance *)
Theorem template_matching_accumulator_lawful : forall (P : Template.mat) (S : nat) (T : Template.mat) (m : Template.mode) (parts : list Z) (G : nat),
  lawful (tmatch_inst P S T m parts G).
Proof. exact (fun P S T m parts G => tmatch_lawful P S T m parts G). Qed.
Print Assumptions template_matching_accumulator_lawful.

Theorem template_matching_split_invariance : forall (P : Template.mat) (S : nat) (T : Template.mat) (m : Template.mode) (parts : list Z) (G : nat),
  forall (s : Template.mst) (batches : list (list Template.mrowt)),
  feed_of (tmatch_inst P S T m parts G) s batches = upd_of (tmatch_inst P S T m parts G) s (concat batches).
Proof. exact (fun P S T m parts G => split_invariance_gen (tmatch_inst P S T m parts G) (tmatch_lawful P S T m parts G)). Qed.
Print Assumptions template_matching_split_invariance.

Theorem template_matching_history_outputs : forall (P : Template.mat) (S : nat) (T : Template.mat) (m : Template.mode) (parts : list Z) (G : nat),
  forall (h : list (op Template.mrowt)) (seen : list Template.mrowt),
  snd (run_of (tmatch_inst P S T m parts G) (upd_of (tmatch_inst P S T m parts G) (a_zero (tmatch_inst P S T m parts G)) seen) h) = map (oneshot (tmatch_inst P S T m parts G)) (seen_at seen h).
Proof. exact (fun P S T m parts G => history_outputs_oneshot_gen (tmatch_inst P S T m parts G) (tmatch_lawful P S T m parts G)). Qed.
Print Assumptions template_matching_history_outputs.

Theorem template_matching_compute_does_not_disturb : forall (P : Template.mat) (S : nat) (T : Template.mat) (m : Template.mode) (parts : list Z) (G : nat),
  forall (s : Template.mst) (h1 h2 : list (op Template.mrowt)),
  exists o1 v o2,
    snd (run_of (tmatch_inst P S T m parts G) s (h1 ++ Compute :: h2)) = o1 ++ v :: o2
    /\ snd (run_of (tmatch_inst P S T m parts G) s (h1 ++ h2)) = o1 ++ o2
    /\ length o1 = computes h1
    /\ v = a_comp (tmatch_inst P S T m parts G) (fst (run_of (tmatch_inst P S T m parts G) s h1))
    /\ fst (run_of (tmatch_inst P S T m parts G) s (h1 ++ Compute :: h2)) = fst (run_of (tmatch_inst P S T m parts G) s (h1 ++ h2)).
Proof. exact (fun P S T m parts G => compute_removable_gen (tmatch_inst P S T m parts G)). Qed.
Print Assumptions template_matching_compute_does_not_disturb.

Theorem template_matching_compute_twice_same : forall (P : Template.mat) (S : nat) (T : Template.mat) (m : Template.mode) (parts : list Z) (G : nat),
  forall (s : Template.mst) (h1 h2 : list (op Template.mrowt)),
  exists o1 v o2,
    snd (run_of (tmatch_inst P S T m parts G) s (h1 ++ Compute :: Compute :: h2)) = o1 ++ v :: v :: o2
    /\ snd (run_of (tmatch_inst P S T m parts G) s (h1 ++ Compute :: h2)) = o1 ++ v :: o2
    /\ length o1 = computes h1.
Proof. exact (fun P S T m parts G => compute_twice_same_gen (tmatch_inst P S T m parts G)). Qed.
Print Assumptions template_matching_compute_twice_same.

Theorem template_matching_same_updates_same_outputs : forall (P : Template.mat) (S : nat) (T : Template.mat) (m : Template.mode) (parts : list Z) (G : nat),
  forall (s : Template.mst) (h1 h2 tail : list (op Template.mrowt)),
  concat (updates_of (tmatch_inst P S T m parts G) h1) = concat (updates_of (tmatch_inst P S T m parts G) h2) ->
  fst (run_of (tmatch_inst P S T m parts G) s h1) = fst (run_of (tmatch_inst P S T m parts G) s h2)
  /\ exists o, snd (run_of (tmatch_inst P S T m parts G) s (h1 ++ tail)) = snd (run_of (tmatch_inst P S T m parts G) s h1) ++ o
               /\ snd (run_of (tmatch_inst P S T m parts G) s (h2 ++ tail)) = snd (run_of (tmatch_inst P S T m parts G) s h2) ++ o.
Proof. exact (fun P S T m parts G => same_updates_same_outputs_gen (tmatch_inst P S T m parts G) (tmatch_lawful P S T m parts G)). Qed.
Print Assumptions template_matching_same_updates_same_outputs.

(* ================================================================ t-test accumulator (TTestThreadAccumulator), one sample *)
Theorem ttest_accumulator_lawful : lawful ttest_inst.
Proof. exact (ttest_lawful). Qed.
Print Assumptions ttest_accumulator_lawful.

Theorem ttest_split_invariance : forall (s : Ttest.st) (batches : list (list Qc)),
  feed_of ttest_inst s batches = upd_of ttest_inst s (concat batches).
Proof. exact (split_invariance_gen ttest_inst (ttest_lawful)). Qed.
Print Assumptions ttest_split_invariance.

Theorem ttest_history_outputs : forall (h : list (op Qc)) (seen : list Qc),
  snd (run_of ttest_inst (upd_of ttest_inst (a_zero ttest_inst) seen) h) = map (oneshot ttest_inst) (seen_at seen h).
Proof. exact (history_outputs_oneshot_gen ttest_inst (ttest_lawful)). Qed.
Print Assumptions ttest_history_outputs.

Theorem ttest_compute_does_not_disturb : forall (s : Ttest.st) (h1 h2 : list (op Qc)),
  exists o1 v o2,
    snd (run_of ttest_inst s (h1 ++ Compute :: h2)) = o1 ++ v :: o2
    /\ snd (run_of ttest_inst s (h1 ++ h2)) = o1 ++ o2
    /\ length o1 = computes h1
    /\ v = a_comp ttest_inst (fst (run_of ttest_inst s h1))
    /\ fst (run_of ttest_inst s (h1 ++ Compute :: h2)) = fst (run_of ttest_inst s (h1 ++ h2)).
Proof. exact (compute_removable_gen ttest_inst). Qed.
Print Assumptions ttest_compute_does_not_disturb.

Theorem ttest_compute_twice_same : forall (s : Ttest.st) (h1 h2 : list (op Qc)),
  exists o1 v o2,
    snd (run_of ttest_inst s (h1 ++ Compute :: Compute :: h2)) = o1 ++ v :: v :: o2
    /\ snd (run_of ttest_inst s (h1 ++ Compute :: h2)) = o1 ++ v :: o2
    /\ length o1 = computes h1.
Proof. exact (compute_twice_same_gen ttest_inst). Qed.
Print Assumptions ttest_compute_twice_same.

Theorem ttest_same_updates_same_outputs : forall (s : Ttest.st) (h1 h2 tail : list (op Qc)),
  concat (updates_of ttest_inst h1) = concat (updates_of ttest_inst h2) ->
  fst (run_of ttest_inst s h1) = fst (run_of ttest_inst s h2)
  /\ exists o, snd (run_of ttest_inst s (h1 ++ tail)) = snd (run_of ttest_inst s h1) ++ o
               /\ snd (run_of ttest_inst s (h2 ++ tail)) = snd (run_of ttest_inst s h2) ++ o.
Proof. exact (same_updates_same_outputs_gen ttest_inst (ttest_lawful)). Qed.
Print Assumptions ttest_same_updates_same_outputs.

(* ================================================================ the whole result: tables over (word, sample) entries *)
(* the table of a lawful entry bundle is a lawful bundle: every theorem of the first section applies to it as it stands
   (split_invariance, history_outputs, compute_does_not_disturb, compute_twice_same, same_updates_same_outputs) *)
Theorem table_is_lawful : forall (A : accum) (RT : Type) (projs : list (RT -> a_R A)),
  lawful A -> lawful (table_of A RT projs).
Proof. exact table_lawful. Qed.
Print Assumptions table_is_lawful.

(* and its one-shot result IS, entry by entry, the entry bundle's one-shot result on the entry's own column *)
Theorem table_is_entrywise : forall (A : accum) (RT : Type) (projs : list (RT -> a_R A)), lawful A ->
  forall rows : list RT,
  oneshot (table_of A RT projs) rows = map (fun p => oneshot A (map p rows)) projs.
Proof. exact table_oneshot_entrywise. Qed.
Print Assumptions table_is_entrywise.

(* ---- CPA: the (words x samples) table (t-test: the vector over samples).  table_expected lists, for each compute() of
   the history, entry by entry, the entry's one-shot result on the entry's own observations fed so far *)
Theorem cpa_table_history_outputs : forall (W S : nat),
  forall h : list (op qrow),
  snd (run_of (cpa_table W S) (a_zero (cpa_table W S)) h) = table_expected cpa_inst qrow (map cpa_proj (entries W S)) [] h.
Proof. exact (fun W S => table_history_outputs cpa_inst qrow (map cpa_proj (entries W S)) (cpa_lawful)). Qed.
Print Assumptions cpa_table_history_outputs.

Theorem cpa_table_split_invariance : forall (W S : nat),
  forall batches : list (list qrow),
  a_comp (cpa_table W S) (feed_of (cpa_table W S) (a_zero (cpa_table W S)) batches)
  = map (fun p => oneshot cpa_inst (map p (concat batches))) (map cpa_proj (entries W S)).
Proof. exact (fun W S => table_split_invariance cpa_inst qrow (map cpa_proj (entries W S)) (cpa_lawful)). Qed.
Print Assumptions cpa_table_split_invariance.

(* ---- alternative CPA: the (words x samples) table (t-test: the vector over samples).  table_expected lists, for each compute() of
   the history, entry by entry, the entry's one-shot result on the entry's own observations fed so far *)
Theorem cpa_alt_table_history_outputs : forall (W S : nat),
  forall h : list (op qrow),
  snd (run_of (cpa_alt_table W S) (a_zero (cpa_alt_table W S)) h) = table_expected cpa_alt_inst qrow (map cpa_proj (entries W S)) [] h.
Proof. exact (fun W S => table_history_outputs cpa_alt_inst qrow (map cpa_proj (entries W S)) (cpa_alt_lawful)). Qed.
Print Assumptions cpa_alt_table_history_outputs.

Theorem cpa_alt_table_split_invariance : forall (W S : nat),
  forall batches : list (list qrow),
  a_comp (cpa_alt_table W S) (feed_of (cpa_alt_table W S) (a_zero (cpa_alt_table W S)) batches)
  = map (fun p => oneshot cpa_alt_inst (map p (concat batches))) (map cpa_proj (entries W S)).
Proof. exact (fun W S => table_split_invariance cpa_alt_inst qrow (map cpa_proj (entries W S)) (cpa_alt_lawful)). Qed.
Print Assumptions cpa_alt_table_split_invariance.

(* ---- DPA: the (words x samples) table (t-test: the vector over samples).  table_expected lists, for each compute() of
   the history, entry by entry, the entry's one-shot result on the entry's own observations fed so far *)
Theorem dpa_table_history_outputs : forall (W S : nat),
  forall h : list (op zrow),
  snd (run_of (dpa_table W S) (a_zero (dpa_table W S)) h) = table_expected dpa_inst zrow (map dpa_proj (entries W S)) [] h.
Proof. exact (fun W S => table_history_outputs dpa_inst zrow (map dpa_proj (entries W S)) (dpa_lawful)). Qed.
Print Assumptions dpa_table_history_outputs.

Theorem dpa_table_split_invariance : forall (W S : nat),
  forall batches : list (list zrow),
  a_comp (dpa_table W S) (feed_of (dpa_table W S) (a_zero (dpa_table W S)) batches)
  = map (fun p => oneshot dpa_inst (map p (concat batches))) (map dpa_proj (entries W S)).
Proof. exact (fun W S => table_split_invariance dpa_inst zrow (map dpa_proj (entries W S)) (dpa_lawful)). Qed.
Print Assumptions dpa_table_split_invariance.

(* ---- ANOVA: the (words x samples) table (t-test: the vector over samples).  table_expected lists, for each compute() of
   the history, entry by entry, the entry's one-shot result on the entry's own observations fed so far *)
Theorem anova_table_history_outputs : forall (parts : list Z) (W S : nat),
  forall h : list (op zrow),
  snd (run_of (part_table Partitioned.ANOVA parts W S) (a_zero (part_table Partitioned.ANOVA parts W S)) h) = table_expected (anova_inst parts) zrow (map part_proj (entries W S)) [] h.
Proof. exact (fun parts W S => table_history_outputs (anova_inst parts) zrow (map part_proj (entries W S)) (part_lawful Partitioned.ANOVA parts)). Qed.
Print Assumptions anova_table_history_outputs.

Theorem anova_table_split_invariance : forall (parts : list Z) (W S : nat),
  forall batches : list (list zrow),
  a_comp (part_table Partitioned.ANOVA parts W S) (feed_of (part_table Partitioned.ANOVA parts W S) (a_zero (part_table Partitioned.ANOVA parts W S)) batches)
  = map (fun p => oneshot (anova_inst parts) (map p (concat batches))) (map part_proj (entries W S)).
Proof. exact (fun parts W S => table_split_invariance (anova_inst parts) zrow (map part_proj (entries W S)) (part_lawful Partitioned.ANOVA parts)). Qed.
Print Assumptions anova_table_split_invariance.

(* ---- NICV: the (words x samples) table (t-test: the vector over samples).  table_expected lists, for each compute() of
   the history, entry by entry, the entry's one-shot result on the entry's own observations fed so far *)
Theorem nicv_table_history_outputs : forall (parts : list Z) (W S : nat),
  forall h : list (op zrow),
  snd (run_of (part_table Partitioned.NICV parts W S) (a_zero (part_table Partitioned.NICV parts W S)) h) = table_expected (nicv_inst parts) zrow (map part_proj (entries W S)) [] h.
Proof. exact (fun parts W S => table_history_outputs (nicv_inst parts) zrow (map part_proj (entries W S)) (part_lawful Partitioned.NICV parts)). Qed.
Print Assumptions nicv_table_history_outputs.

Theorem nicv_table_split_invariance : forall (parts : list Z) (W S : nat),
  forall batches : list (list zrow),
  a_comp (part_table Partitioned.NICV parts W S) (feed_of (part_table Partitioned.NICV parts W S) (a_zero (part_table Partitioned.NICV parts W S)) batches)
  = map (fun p => oneshot (nicv_inst parts) (map p (concat batches))) (map part_proj (entries W S)).
Proof. exact (fun parts W S => table_split_invariance (nicv_inst parts) zrow (map part_proj (entries W S)) (part_lawful Partitioned.NICV parts)). Qed.
Print Assumptions nicv_table_split_invariance.

(* ---- SNR: the (words x samples) table (t-test: the vector over samples).  table_expected lists, for each compute() of
   the history, entry by entry, the entry's one-shot result on the entry's own observations fed so far *)
Theorem snr_table_history_outputs : forall (parts : list Z) (W S : nat),
  forall h : list (op zrow),
  snd (run_of (part_table Partitioned.SNR parts W S) (a_zero (part_table Partitioned.SNR parts W S)) h) = table_expected (snr_inst parts) zrow (map part_proj (entries W S)) [] h.
Proof. exact (fun parts W S => table_history_outputs (snr_inst parts) zrow (map part_proj (entries W S)) (part_lawful Partitioned.SNR parts)). Qed.
Print Assumptions snr_table_history_outputs.

Theorem snr_table_split_invariance : forall (parts : list Z) (W S : nat),
  forall batches : list (list zrow),
  a_comp (part_table Partitioned.SNR parts W S) (feed_of (part_table Partitioned.SNR parts W S) (a_zero (part_table Partitioned.SNR parts W S)) batches)
  = map (fun p => oneshot (snr_inst parts) (map p (concat batches))) (map part_proj (entries W S)).
Proof. exact (fun parts W S => table_split_invariance (snr_inst parts) zrow (map part_proj (entries W S)) (part_lawful Partitioned.SNR parts)). Qed.
Print Assumptions snr_table_split_invariance.

(* ---- MIA with fixed bin edges: the (words x samples) table (t-test: the vector over samples).  table_expected lists, for each compute() of
   the history, entry by entry, the entry's one-shot result on the entry's own observations fed so far *)
Theorem mia_table_history_outputs : forall (edges : list Qc) (est : Qc -> nat) (parts : list Z) (phi : Qc -> Qc) (W S : nat),
  forall h : list (op zrow),
  snd (run_of (mia_table edges est parts phi W S) (a_zero (mia_table edges est parts phi W S)) h) = table_expected (mia_inst edges est parts phi) zrow (map mia_proj (entries W S)) [] h.
Proof. exact (fun edges est parts phi W S => table_history_outputs (mia_inst edges est parts phi) zrow (map mia_proj (entries W S)) (mia_lawful edges est parts phi)). Qed.
Print Assumptions mia_table_history_outputs.

Theorem mia_table_split_invariance : forall (edges : list Qc) (est : Qc -> nat) (parts : list Z) (phi : Qc -> Qc) (W S : nat),
  forall batches : list (list zrow),
  a_comp (mia_table edges est parts phi W S) (feed_of (mia_table edges est parts phi W S) (a_zero (mia_table edges est parts phi W S)) batches)
  = map (fun p => oneshot (mia_inst edges est parts phi) (map p (concat batches))) (map mia_proj (entries W S)).
Proof. exact (fun edges est parts phi W S => table_split_invariance (mia_inst edges est parts phi) zrow (map mia_proj (entries W S)) (mia_lawful edges est parts phi)). Qed.
Print Assumptions mia_table_split_invariance.

(* ---- t-test accumulator, all samples: the (words x samples) table (t-test: the vector over samples).  table_expected lists, for each compute() of
   the history, entry by entry, the entry's one-shot result on the entry's own observations fed so far *)
Theorem ttest_table_history_outputs : forall (S : nat),
  forall h : list (op (list Qc)),
  snd (run_of (ttest_table S) (a_zero (ttest_table S)) h) = table_expected ttest_inst (list Qc) (map ttest_proj (seq 0 S)) [] h.
Proof. exact (fun S => table_history_outputs ttest_inst (list Qc) (map ttest_proj (seq 0 S)) (ttest_lawful)). Qed.
Print Assumptions ttest_table_history_outputs.

Theorem ttest_table_split_invariance : forall (S : nat),
  forall batches : list (list (list Qc)),
  a_comp (ttest_table S) (feed_of (ttest_table S) (a_zero (ttest_table S)) batches)
  = map (fun p => oneshot ttest_inst (map p (concat batches))) (map ttest_proj (seq 0 S)).
Proof. exact (fun S => table_split_invariance ttest_inst (list Qc) (map ttest_proj (seq 0 S)) (ttest_lawful)). Qed.
Print Assumptions ttest_table_split_invariance.

(* ================================================================ automatic class set (partitions=None): H-auto *)
(* The class set is frozen from the FIRST batch, by design (C02 says so): [auto_class_set first] is what _initialize
   chooses, None = refused.  [data_bracket d]: None when max d > 255 or min d < 0 (refused), else the first of 9 / 64 / 256
   above max d.  auto_classes_frozen: when the data of the first batch fall in the same bracket as the data of the whole
   set, any split gives what the one-batch run gives (any metric, any number of words and samples). *)
Theorem auto_classes_frozen : forall (m : Partitioned.metric) (W S : nat) (b1 : list zrow) (rest : list (list zrow)),
  data_bracket (batch_data b1) = data_bracket (batch_data (concat (b1 :: rest))) ->
  auto_run m W S (b1 :: rest) = auto_run m W S [concat (b1 :: rest)].
Proof. exact auto_classes_frozen_thm. Qed.
Print Assumptions auto_classes_frozen.

(* what the code freezes is the class range of the first batch's bracket *)
Theorem auto_class_set_is_the_bracket : forall b : list zrow,
  auto_class_set b = option_map class_range (data_bracket (batch_data b)).
Proof. exact auto_class_set_bracket. Qed.
Print Assumptions auto_class_set_is_the_bracket.

(* with the same first batch, every split of the remaining rows is invisible, whatever their data *)
Theorem auto_later_splits_irrelevant : forall (m : Partitioned.metric) (W S : nat) (b1 : list zrow) (rest1 rest2 : list (list zrow)),
  concat rest1 = concat rest2 -> auto_run m W S (b1 :: rest1) = auto_run m W S (b1 :: rest2).
Proof. exact auto_later_splits_irrelevant_thm. Qed.
Print Assumptions auto_later_splits_irrelevant.

(* ================================================================ non-vacuity *)
Definition q (z : Z) : Qc := qz z.
(* 3 batches of sizes 1, 2, 1 with a compute() between them (two interleaved computes) and one at the end *)
Definition h121 {R} (r1 r2 r3 r4 : R) : list (op R) := [Update [r1]; Compute; Update [r2; r3]; Compute; Update [r4]; Compute].
Definition show3 (t : option Cpa.triple) : option (Q * Q * Q) :=
  option_map (fun t : Cpa.triple => let '(a, b, c) := t in (this a, this b, this c)) t.
Definition showq (t : option Qc) : option Q := option_map this t.
Definition showm (m : Template.mat) : list (list Q) := map (map this) m.
Definition showmm (x : Template.mat * Template.mat) := (showm (fst x), showm (snd x)).
Definition showmv (x : option Ttest.mv) : option (Q * Q) := option_map (fun m : Ttest.mv => (this (fst m), this (snd m))) x.

(* by design the dependence on the first batch is real: first batch with data 0..1 (9 classes), later data 20 and 30 —
   split, the later traces are undeclared and ignored; in one batch the class set is 0..63 and they count *)
Definition ex_auto_b1 : list zrow := [([q 1], [0%Z]); ([q 3], [1%Z]); ([q 2], [0%Z]); ([q 5], [1%Z])].
Definition ex_auto_b2 : list zrow := [([q 10], [20%Z]); ([q 12], [20%Z]); ([q 20], [30%Z]); ([q 26], [30%Z])].
Example auto_split_refuted :
  exists (m : Partitioned.metric) (W S : nat) (batches : list (list zrow)),
    auto_run m W S batches <> auto_run m W S [concat batches]
    /\ (forall b, In b batches -> b <> [])
    /\ auto_run m W S batches <> None /\ auto_run m W S [concat batches] <> None.
Proof.
  exists Partitioned.NICV, 1%nat, 1%nat, [ex_auto_b1; ex_auto_b2]. split; [|split; [|split]].
  - intros H. apply (f_equal (option_map (map showq))) in H. vm_compute in H. discriminate H.
  - intros b [<-|[<-|[]]]; discriminate.
  - intros H. apply (f_equal (option_map (map showq))) in H. vm_compute in H. discriminate H.
  - intros H. apply (f_equal (option_map (map showq))) in H. vm_compute in H. discriminate H.
Qed.
Example ex_auto_values :
  option_map (map showq) (auto_run Partitioned.NICV 1 1 [ex_auto_b1; ex_auto_b2]) = Some [Some (5 # 7)%Q]
  /\ option_map (map showq) (auto_run Partitioned.NICV 1 1 [ex_auto_b1 ++ ex_auto_b2]) = Some [Some (4451 # 4631)%Q]
  /\ data_bracket (batch_data ex_auto_b1) = Some 9%Z /\ data_bracket (batch_data (ex_auto_b1 ++ ex_auto_b2)) = Some 64%Z.
Proof. repeat split; vm_compute; reflexivity. Qed.
(* the hypothesis of auto_classes_frozen is met by a non-trivial split: both brackets are 9 *)
Definition ex_auto_b3 : list zrow := [([q 7], [8%Z]); ([q 9], [3%Z])].
Example ex_auto_frozen :
  data_bracket (batch_data ex_auto_b1) = data_bracket (batch_data (concat [ex_auto_b1; ex_auto_b3]))
  /\ option_map (map showq) (auto_run Partitioned.SNR 1 1 [ex_auto_b1; ex_auto_b3])
     = option_map (map showq) (auto_run Partitioned.SNR 1 1 [ex_auto_b1 ++ ex_auto_b3])
  /\ auto_run Partitioned.SNR 1 1 [ex_auto_b1; ex_auto_b3] <> None.
Proof.
  split; [vm_compute; reflexivity|]. split; [vm_compute; reflexivity|].
  intros H. apply (f_equal (option_map (map showq))) in H. vm_compute in H. discriminate H.
Qed.

(* ---- CPA: samples 1 2 4 5, word 2 3 1 6.  After one trace everything is constant: undefined; after three:
   (-2, 14/3, 2); after four: (6, 10, 14) = the one-batch result *)
Definition c1 : Cpa.obs := (q 1, q 2). Definition c2 : Cpa.obs := (q 2, q 3).
Definition c3 : Cpa.obs := (q 4, q 1). Definition c4 : Cpa.obs := (q 5, q 6).
Example ex_cpa :
  map show3 (snd (run_of cpa_inst (a_zero cpa_inst) (h121 c1 c2 c3 c4)))
  = [None; Some ((-2) # 1, 14 # 3, 2 # 1)%Q; Some (6 # 1, 10 # 1, 14 # 1)%Q]
  /\ map show3 (map (oneshot cpa_inst) [[c1]; [c1; c2; c3]; [c1; c2; c3; c4]])
     = [None; Some ((-2) # 1, 14 # 3, 2 # 1)%Q; Some (6 # 1, 10 # 1, 14 # 1)%Q]
  /\ seen_at [] (h121 c1 c2 c3 c4) = [[c1]; [c1; c2; c3]; [c1; c2; c3; c4]].
Proof. repeat split; vm_compute; reflexivity. Qed.
Example ex_cpa_alt :
  map show3 (snd (run_of cpa_alt_inst (a_zero cpa_alt_inst) (h121 c1 c2 c3 c4)))
  = [None; Some ((-6) # 1, 14 # 1, 6 # 1)%Q; Some (24 # 1, 40 # 1, 56 # 1)%Q]
  /\ map show3 (map (oneshot cpa_alt_inst) [[c1]; [c1; c2; c3]; [c1; c2; c3; c4]])
     = [None; Some ((-6) # 1, 14 # 1, 6 # 1)%Q; Some (24 # 1, 40 # 1, 56 # 1)%Q].
Proof. repeat split; vm_compute; reflexivity. Qed.
(* ---- DPA: bit-1 traces 4, 8; bit-0 traces 1, 6 *)
Definition d1 : Cpa.dobs := (q 4, true). Definition d2 : Cpa.dobs := (q 1, false).
Definition d3 : Cpa.dobs := (q 8, true). Definition d4 : Cpa.dobs := (q 6, false).
Example ex_dpa :
  map showq (snd (run_of dpa_inst (a_zero dpa_inst) (h121 d1 d2 d3 d4))) = [None; Some (5 # 1)%Q; Some (5 # 2)%Q]
  /\ map showq (map (oneshot dpa_inst) [[d1]; [d1; d2; d3]; [d1; d2; d3; d4]]) = [None; Some (5 # 1)%Q; Some (5 # 2)%Q].
Proof. repeat split; vm_compute; reflexivity. Qed.
(* ---- ANOVA / NICV / SNR: classes declared [7; 3; 5]; class 3 gets the samples 1, 2 and class 7 the samples 4, 8 *)
Definition ex_parts : list Z := [7; 3; 5]%Z.
Definition p1 : Partitioned.row := (3%Z, q 1). Definition p2 : Partitioned.row := (7%Z, q 4).
Definition p3 : Partitioned.row := (3%Z, q 2). Definition p4 : Partitioned.row := (7%Z, q 8).
Example ex_anova :
  map showq (snd (run_of (anova_inst ex_parts) (a_zero (anova_inst ex_parts)) (h121 p1 p2 p3 p4)))
  = [None; Some (25 # 3)%Q; Some (81 # 17)%Q]
  /\ map showq (map (oneshot (anova_inst ex_parts)) [[p1]; [p1; p2; p3]; [p1; p2; p3; p4]]) = [None; Some (25 # 3)%Q; Some (81 # 17)%Q].
Proof. repeat split; vm_compute; reflexivity. Qed.
Example ex_nicv :
  map showq (snd (run_of (nicv_inst ex_parts) (a_zero (nicv_inst ex_parts)) (h121 p1 p2 p3 p4)))
  = [None; Some (25 # 28)%Q; Some (81 # 115)%Q]
  /\ map showq (map (oneshot (nicv_inst ex_parts)) [[p1]; [p1; p2; p3]; [p1; p2; p3; p4]]) = [None; Some (25 # 28)%Q; Some (81 # 115)%Q].
Proof. repeat split; vm_compute; reflexivity. Qed.
Example ex_snr :
  map showq (snd (run_of (snr_inst ex_parts) (a_zero (snr_inst ex_parts)) (h121 p1 p2 p3 p4)))
  = [None; Some (125 # 9)%Q; Some (81 # 34)%Q]
  /\ map showq (map (oneshot (snr_inst ex_parts)) [[p1]; [p1; p2; p3]; [p1; p2; p3; p4]]) = [None; Some (125 # 9)%Q; Some (81 # 34)%Q].
Proof. repeat split; vm_compute; reflexivity. Qed.
(* ---- MIA: edges 0, 4, 8 (two bins), classes 0, 1; phi is any function (here x^2); the histogram ends as
   bin 0: (2, 1), bin 1: (0, 1) *)
Definition ex_edges : list Qc := [q 0; q 4; q 8].
Definition ex_mia : accum := mia_inst ex_edges (Mia.est_exact ex_edges) [0; 1]%Z (fun x => (x * x)%Qc).
Definition m1 : Mia.row := (q 1, 0%Z). Definition m2 : Mia.row := (q 5, 1%Z).
Definition m3 : Mia.row := (q 2, 0%Z). Definition m4 : Mia.row := (q 3, 1%Z).
Example ex_mia_history :
  map showq (snd (run_of ex_mia (a_zero ex_mia) (h121 m1 m2 m3 m4))) = [Some (0 # 1)%Q; Some (13 # 9)%Q; Some (5 # 8)%Q]
  /\ map showq (map (oneshot ex_mia) [[m1]; [m1; m2; m3]; [m1; m2; m3; m4]]) = [Some (0 # 1)%Q; Some (13 # 9)%Q; Some (5 # 8)%Q]
  /\ fst (run_of ex_mia (a_zero ex_mia) (h121 m1 m2 m3 m4)) = [[2; 1]; [0; 1]]%Z.
Proof. repeat split; vm_compute; reflexivity. Qed.
(* ---- template build: classes declared [2; 0], two samples; class 0 gets (1,2), (3,6); class 2 gets (4,0), (6,2) *)
Definition ex_tb : accum := tbuild_inst [2; 0]%Z 2.
Definition b1 : Template.brow := (0%Z, [q 1; q 2]). Definition b2 : Template.brow := (2%Z, [q 4; q 0]).
Definition b3 : Template.brow := (0%Z, [q 3; q 6]). Definition b4 : Template.brow := (2%Z, [q 6; q 2]).
Example ex_template_build :
  map showmm (snd (run_of ex_tb (a_zero ex_tb) (h121 b1 b2 b3 b4)))
  = [([[0; 0]; [1; 2]], [[0; 0]; [0; 0]]); ([[4; 0]; [2; 4]], [[1; 2]; [2; 4]]); ([[5; 1]; [2; 4]], [[2; 3]; [3; 5]])]%Q
  /\ map showmm (map (oneshot ex_tb) [[b1]; [b1; b2; b3]; [b1; b2; b3; b4]])
     = [([[0; 0]; [1; 2]], [[0; 0]; [0; 0]]); ([[4; 0]; [2; 4]], [[1; 2]; [2; 4]]); ([[5; 1]; [2; 4]], [[2; 3]; [3; 5]])]%Q.
Proof. repeat split; vm_compute; reflexivity. Qed.
(* ---- template matching: templates (1,1) and (3,0), P = diag(1, 2), two candidates *)
Definition ex_tm : accum :=
  tmatch_inst [[q 1; q 0]; [q 0; q 2]] 2 [[q 1; q 1]; [q 3; q 0]] Template.Static [5; 9]%Z 2.
Definition t1 : Template.mrowt := ([], [q 1; q 2]). Definition t2 : Template.mrowt := ([], [q 3; q 0]).
Definition t3 : Template.mrowt := ([], [q 2; q 2]). Definition t4 : Template.mrowt := ([], [q 0; q 1]).
Example ex_template_matching :
  map (map this) (snd (run_of ex_tm (a_zero ex_tm) (h121 t1 t2 t3 t4))) = [[9 # 1; 4 # 1]; [49 # 6; 13 # 2]; [17 # 2; 6 # 1]]%Q
  /\ map (map this) (map (oneshot ex_tm) [[t1]; [t1; t2; t3]; [t1; t2; t3; t4]]) = [[9 # 1; 4 # 1]; [49 # 6; 13 # 2]; [17 # 2; 6 # 1]]%Q.
Proof. repeat split; vm_compute; reflexivity. Qed.
(* ---- t-test accumulator: one sample with values 1 2 4 5: (mean, var) = (1, 0), (7/3, 14/9), (3, 5/2) *)
Example ex_ttest :
  map showmv (snd (run_of ttest_inst (a_zero ttest_inst) (h121 (q 1) (q 2) (q 4) (q 5))))
  = [Some (1 # 1, 0 # 1); Some (7 # 3, 14 # 9); Some (3 # 1, 5 # 2)]%Q
  /\ map showmv (map (oneshot ttest_inst) [[q 1]; [q 1; q 2; q 4]; [q 1; q 2; q 4; q 5]])
     = [Some (1 # 1, 0 # 1); Some (7 # 3, 14 # 9); Some (3 # 1, 5 # 2)]%Q.
Proof. repeat split; vm_compute; reflexivity. Qed.

(* ---- run-length: DPA, the trace (4, bit 1) 70000 times and (1, bit 0) 65536 times: mean difference 3 *)
Example ex_run_length :
  showq (rl_oneshot dpa_inst [(d1, 70000%positive); (d2, 65536%positive)]) = Some (3 # 1)%Q
  /\ length (expand [(d1, 3%positive); (d2, 2%positive)]) = 5%nat.
Proof. split; vm_compute; reflexivity. Qed.

(* ---- a whole table: CPA with 2 words and 2 samples, the same history on whole traces; entry (w, s) pairs word w with
   sample s; the second word is constant (undefined) *)
Definition ex_rows : list qrow := [([q 1; q 7], [q 2; q 9]); ([q 2; q 5], [q 3; q 9]); ([q 4; q 5], [q 1; q 9]); ([q 5; q 3], [q 6; q 9])].
Example ex_cpa_table :
  map (map show3) (snd (run_of (cpa_table 2 2) (a_zero (cpa_table 2 2))
                               [Update (firstn 1 ex_rows); Compute; Update (firstn 2 (skipn 1 ex_rows)); Update (skipn 3 ex_rows); Compute]))
  = [[None; None; None; None]; [Some (6 # 1, 10 # 1, 14 # 1)%Q; Some ((-8) # 1, 8 # 1, 14 # 1)%Q; None; None]].
Proof. vm_compute. reflexivity. Qed.

(* ---- the correspondence check accepts a correct observation and rejects wrong ones.  DPA, 1 word, 1 sample, traces
   4 1 8 6 with bits 1 0 1 0, history update(1) compute update(2) compute update(1) compute: NaN, 5, 5/2 *)
Definition ex_case (v2 v3 : fval) (n3 : Z) : bcase :=
  {| b_kind := KDpa; b_prec := F64; b_S := 1; b_W := 1; b_tden := 1; b_dden := 1; b_parts := []; b_auto := false;
     b_edges := []; b_ln := []; b_pden := 1; b_T := []; b_P := [];
     b_hist := [HUpdate [([4], [1])]; HCompute; HUpdate [([1], [0]); ([8], [1])]; HCompute; HUpdate [([6], [0])]; HCompute]%Z;
     b_obs := [(1, [NaN]); (3, [v2]); (n3, [v3])]%Z; b_final_n := 4; b_oneshot := [Fin 5 (-1)] |}.
Example ex_check_accepts : bcheck (ex_case (Fin 5 0) (Fin 5 (-1)) 4) = true.
Proof. vm_compute. reflexivity. Qed.
Example ex_check_rejects :
  bcheck (ex_case (Fin 5 0) (Fin 6 0) 4) = false            (* the last batch overwrote the sums: 6 - 0 *)
  /\ bcheck (ex_case (Fin 5 0) (Fin 5 (-1)) 1) = false      (* processed_traces counted at initialisation only *)
  /\ bcheck (ex_case NaN (Fin 5 (-1)) 4) = false            (* NaN where defined *)
  /\ bcheck (ex_case (Fin 5 0) PInf 4) = false.
Proof. repeat split; vm_compute; reflexivity. Qed.
