(* Props/C16.v — property C16: a rejected update leaves a distinguisher exactly as it was.
   Only statements closed by [exact]; Print Assumptions beneath each.  Proofs are in Proofs/Update.v.

   Reading guide (Model/Update.v).  A distinguisher object is a TWO-LEVEL state [ostate]: [bnd] = the attribute bindings
   (_origin_shape present, processed_traces, _is_checked, class set, recorded trace length / word count, which heap cell each
   accumulator name is bound to, other attribute names) and [heap] = the arrays, mutated in place by += and by the kernels.
   [update v f st b] runs DistinguisherMixin.update of source version [v] for family [f] (CPA, alternative CPA, DPA, ANOVA,
   NICV, SNR, MIA, template build, template matching static / DPA) on batch [b]: the effect list [order v f] — the statement
   order of update, _initialize, _initialize_accumulators, _check, _update, _accumulate, compared with the source on every
   run — is executed; on an exception the handler restores the BINDINGS from the snapshot (shallow rollback: heap cells that
   existed before the call are not restored).  Result: the new state and [Accepted] or [Rejected kind].
   The accumulated contents are arbitrary: cells hold values of any type C with any operation cplus, rows contribute
   [ccontrib k r] to accumulator k, compute is any function [ccomp] of the count and the cells.  Every theorem is for ALL of them,
   ALL families, ALL batches (a batch = the facts the code looks at + its rows), ALL states satisfying [wf] (every state reachable
   from a fresh object does: update_preserves_wf). *)
From Coq Require Import ZArith List Bool String.
From ScaredV Require Import Run.Compare Generated.UpdateOrder Model.Update Proofs.Update.
Import ListNotations.
Local Open Scope Z_scope.

(* T-tie: the hand-written effect lists have exactly the events (raise, astype, attribute binding, in-place +=, subscript store,
   kernel / method call, snapshot, rollback) of the source methods, in the same order, for every family and every hook, and the
   live classes resolve every hook to the method the model uses.  [source_order] / [source_resolution] are regenerated from
   /repo by tools/translate/tr_update.py before this file is compiled. *)
Theorem model_order_matches_source : order_tied = true.
Proof. exact order_tied_true. Qed.
Print Assumptions model_order_matches_source.

(* in the source text of every method on the update path and of every kernel, no raise / astype after an in-place write *)
Theorem source_methods_raise_before_writing : source_methods_safe = true.
Proof. exact source_methods_safe_true. Qed.
Print Assumptions source_methods_raise_before_writing.

(* raise_precedes_heap_write: in the complete effect list of update (callees spliced in), for every family and every path
   (first call or not, more than 9 classes or not, memory already checked or not), every raising point — explicit raise,
   astype, and the implicit ones of numpy in-place operators / LUT / kernel dispatch — comes before the first in-place write *)
Theorem raise_precedes_heap_write :
  forall (f : family) (path : valuation), safe_order false (select path (order repaired f)) = true.
Proof. exact raise_precedes_heap_write_thm. Qed.
Print Assumptions raise_precedes_heap_write.

Theorem no_late_raising_point :
  forall (f : family) (path : valuation), late_points false (select path (order repaired f)) = [].
Proof. exact no_late_raising_point_thm. Qed.
Print Assumptions no_late_raising_point.

(* reject_preserves_state: whatever the rejection kind, bindings AND heap are those before the call *)
Theorem reject_preserves_state :
  forall (C R : Type) (czero : C) (cplus : C -> C -> C) (ccontrib : nat -> R -> C)
         (f : family) (st : ostate C) (b : batch R) (st' : ostate C) (kind : rej),
  wf f (bnd st) = true ->
  update C R czero cplus ccontrib repaired f st b = (st', Rejected kind) -> st' = st.
Proof. exact reject_preserves_state_thm. Qed.
Print Assumptions reject_preserves_state.

(* the hypothesis [wf] holds of a fresh object and is kept by every call, accepted or refused *)
Theorem fresh_is_wf :
  forall (C : Type) (f : family) (c : config), wf f (bnd (fresh f c : ostate C)) = true.
Proof. exact fresh_wf_any. Qed.
Print Assumptions fresh_is_wf.

Theorem update_preserves_wf :
  forall (C R : Type) (czero : C) (cplus : C -> C -> C) (ccontrib : nat -> R -> C)
         (f : family) (st : ostate C) (b : batch R) (st' : ostate C) (o : outcome),
  wf f (bnd st) = true -> update C R czero cplus ccontrib repaired f st b = (st', o) -> wf f (bnd st') = true.
Proof. exact update_wf. Qed.
Print Assumptions update_preserves_wf.

(* analysis.process: a raising selection function / model / preprocess, or a batch refused by update, leaves no trace *)
Theorem process_reject_preserves_state :
  forall (C R : Type) (czero : C) (cplus : C -> C -> C) (ccontrib : nat -> R -> C)
         (f : family) (st : ostate C) (b : batch R) (st' : ostate C) (kind : rej),
  wf f (bnd st) = true ->
  process C R czero cplus ccontrib repaired f st b = (st', Rejected kind) -> st' = st.
Proof. exact process_reject_thm. Qed.
Print Assumptions process_reject_preserves_state.

(* analysis.run(container): whatever happens, the object ends in the state reached by running the accepted prefix alone;
   when nothing is refused the prefix is the whole container *)
Theorem run_keeps_accepted_prefix_only :
  forall (C R : Type) (czero : C) (cplus : C -> C -> C) (ccontrib : nat -> R -> C)
         (f : family) (bs : list (batch R)) (st st' : ostate C) (o : outcome),
  wf f (bnd st) = true ->
  run_container C R czero cplus ccontrib repaired f st bs = (st', o) ->
  wf f (bnd st') = true
  /\ run_container C R czero cplus ccontrib repaired f st (accepted_prefix C R czero cplus ccontrib repaired f st bs) = (st', Accepted)
  /\ match o with Accepted => accepted_prefix C R czero cplus ccontrib repaired f st bs = bs | Rejected _ => True end.
Proof. exact run_container_cases. Qed.
Print Assumptions run_keeps_accepted_prefix_only.

(* history_with_rejects: for EVERY history of update / process / run(container) / compute calls, from any reachable state:
   the final state and every result (value and processed_traces) are those of the history with the refused calls deleted
   ([kept]: a refused run keeps the batches it had accepted), in which nothing is refused; and when the history has no
   run(container) call, the surviving events (accept markers with their counts, results) are identical one by one *)
Theorem history_with_rejects :
  forall (C R O : Type) (czero : C) (cplus : C -> C -> C) (ccontrib : nat -> R -> C) (ccomp : Z -> list C -> O)
         (f : family) (h : list (hop R)) (st : ostate C),
  wf f (bnd st) = true ->
  let full := run_hist C R O czero cplus ccontrib ccomp repaired f st h in
  let clean := run_hist C R O czero cplus ccontrib ccomp repaired f st (kept C R O czero cplus ccontrib ccomp repaired f st h) in
  fst full = fst clean
  /\ outs O (snd full) = outs O (snd clean)
  /\ forallb (not_rejected O) (snd clean) = true
  /\ (no_run R h = true -> filter (not_rejected O) (snd full) = snd clean).
Proof. exact history_with_rejects_thm. Qed.
Print Assumptions history_with_rejects.

(* count = number of traces summed, and the sums are those of the accepted batches only (anchor of the property; uses the
   history machinery of Model/Accum.v).  For every accumulator algebra with an associative cplus and left-neutral czero, every
   family, every history from a fresh object whose batches carry as many rows as they announce ([wf_op]): processed_traces is
   the number of rows of the ACCEPTED batches ([rows_of_hist]: in order, refused calls contribute nothing, a refused run
   contributes its accepted prefix), and compute() is the function of that count and of Accum's ONE-SHOT accumulation
   [one_shot f rows] = (Accum.upd czero rows) per accumulator over exactly these rows; before any accepted batch it raises. *)
Theorem results_are_those_of_the_accepted_batches :
  forall (C R O : Type) (czero : C) (cplus : C -> C -> C) (ccontrib : nat -> R -> C) (ccomp : Z -> list C -> O),
  (forall a b c, cplus a (cplus b c) = cplus (cplus a b) c) ->
  (forall a, cplus czero a = a) ->
  forall (f : family) (c : config) (h : list (hop R)),
  Forall (wf_op R) h ->
  let st := fst (run_hist C R O czero cplus ccontrib ccomp repaired f (fresh f c) h) in
  let rows := rows_of_hist C R O czero cplus ccontrib ccomp f (fresh f c) h in
  processed (bnd st) = Z.of_nat (List.length rows)
  /\ compute C O czero ccomp f st
     = match rows with
       | [] => None
       | _ => Some (ccomp (Z.of_nat (List.length rows)) (one_shot C R czero cplus ccontrib f rows))
       end.
Proof. exact results_are_those_of_the_accepted_batches_thm. Qed.
Print Assumptions results_are_those_of_the_accepted_batches.

(* every accepted update adds, in place, the batch's contribution to every accumulator cell exactly once (whatever the
   statement order of the += and whichever kernel runs), increments the count once, and leaves the names bound to the same cells *)
Theorem accepted_update_accumulates :
  forall (C R : Type) (czero : C) (cplus : C -> C -> C) (ccontrib : nat -> R -> C)
         (f : family) (st : ostate C) (b : batch R) (st' : ostate C) (base : nat) (X : nat -> C),
  update C R czero cplus ccontrib repaired f st b = (st', Accepted) ->
  List.length (accs (bnd st)) = nacc f ->
  (if inited (bnd st)
   then accs (bnd st) = accs_at base (nacc f) /\ (base + nacc f <= List.length (heap st))%nat
        /\ (forall i, (i < nacc f)%nat -> nth (base + i) (heap st) czero = X i)
   else base = List.length (heap st) /\ forall i, (i < nacc f)%nat -> X i = czero) ->
  accs (bnd st') = accs_at base (nacc f) /\ (base + nacc f <= List.length (heap st'))%nat
  /\ (forall i, (i < nacc f)%nat -> nth (base + i) (heap st') czero = cplus (X i) (cbsum C R czero cplus ccontrib i (b_rows b)))
  /\ processed (bnd st') = processed (bnd st) + b_n b /\ inited (bnd st') = true.
Proof. exact update_accumulates. Qed.
Print Assumptions accepted_update_accumulates.

(* refused_first_call_harmless: a refused first call leaves the fresh object, so any later call behaves as on a new object *)
Theorem refused_first_call_harmless :
  forall (C R : Type) (czero : C) (cplus : C -> C -> C) (ccontrib : nat -> R -> C)
         (f : family) (c : config) (b b2 : batch R) (st' : ostate C) (kind : rej),
  update C R czero cplus ccontrib repaired f (fresh f c) b = (st', Rejected kind) ->
  st' = fresh f c
  /\ update C R czero cplus ccontrib repaired f st' b2 = update C R czero cplus ccontrib repaired f (fresh f c) b2.
Proof. exact refused_first_call_harmless_thm. Qed.
Print Assumptions refused_first_call_harmless.

(* reject_refuted: the statement orders BEFORE the three repairs violate the property; witnesses with free-monoid accumulators
   (a cell = the list of the batch identifiers accumulated into it; compute returns (count, cells)) *)
Theorem reject_refuted :
  (* before 39651ef: CPA, 10 traces of length 5 then 4 traces of length 6: refused, yet processed_traces = 14 *)
  snd (sym_hist before_39651ef FCpa (fresh FCpa no_config) [HUpdate (good_batch 1 10 5 3); HUpdate (good_batch 2 4 6 3); HCompute])
  = [EAccepted 10; ERejected RTraceLen 14; EOut (Some (14, [[1]; [1]; [1]; [1]; [1]])) 14]
  (* before 39651ef: DPA, a refused first call (non-binary data) poisons the object: the next valid call dies (AttributeError) *)
  /\ snd (sym_hist before_39651ef FDpa (fresh FDpa no_config)
            [HUpdate (mk_batch 1 10 10 2 5 3 7 0 DUint8 TNum); HUpdate (good_batch 2 10 5 3); HCompute])
  = [ERejected RDpaNotBinary 0; ERejected RAttrMissing 10; EOut None 10]
  (* before 39651ef: template build initialised with 3 words before _check refuses them: the valid batch is then refused *)
  /\ snd (sym_hist before_39651ef FTemplBuild (fresh FTemplBuild no_config)
            [HUpdate (good_batch 1 10 5 3); HUpdate (good_batch 2 10 5 1)])
  = [ERejected RTemplMultiWord 0; ERejected RWordCount 10].
Proof. exact (conj refuted_count_bumped (conj refuted_first_call_poisons refuted_template_wrong_init)). Qed.
Print Assumptions reject_refuted.

(* found while building this check (D12, D13): with the rollback in place but before 90a3d19 / ab1a297 an in-place write
   preceded a raising point, and the shallow rollback was NOT sufficient: the count is restored (10) but the next result
   depends on the refused batch 2 *)
Theorem reject_3d_traces_refuted :
  snd (sym_hist before_90a3d19 FCpa (fresh FCpa no_config)
         [HUpdate (good_batch 1 10 5 3); HUpdate (mk_batch 2 4 4 3 5 3 1 0 DUint8 TNum); HCompute])
  = [EAccepted 10; ERejected RBroadcast3D 10; EOut (Some (10, [[1]; [1]; [1; 2]; [1; 2]; [1]])) 10]
  /\ late_points false (select {| v_first := false; v_big := false; v_unchecked := false |} (order before_90a3d19 FCpa)) = [RBroadcast3D].
Proof. split; [exact refuted_3d_traces | vm_compute; reflexivity]. Qed.
Print Assumptions reject_3d_traces_refuted.

Theorem reject_dpa_cast_refuted :
  snd (sym_hist before_ab1a297 FDpa (fresh FDpa no_config)
         [HUpdate (good_batch 1 10 5 3); HUpdate (mk_batch 2 4 4 2 5 3 1 0 DUint8 TStr); HCompute])
  = [EAccepted 10; ERejected RTracesCast 10; EOut (Some (10, [[1]; [1]; [1; 2]])) 10]
  /\ late_points false (select {| v_first := false; v_big := false; v_unchecked := false |} (order before_ab1a297 FDpa)) = [RTracesCast; RDataConv].
Proof. split; [exact refuted_dpa_cast_after_write | vm_compute; reflexivity]. Qed.
Print Assumptions reject_dpa_cast_refuted.

(* ------------------------------------------------------------------ non-vacuity *)
(* the repaired order on the five witness histories: refused, nothing left behind, the valid calls are accepted *)
Example repaired_examples :
  snd (sym_hist repaired FCpa (fresh FCpa no_config) [HUpdate (good_batch 1 10 5 3); HUpdate (good_batch 2 4 6 3); HCompute])
  = [EAccepted 10; ERejected RTraceLen 10; EOut (Some (10, [[1]; [1]; [1]; [1]; [1]])) 10]
  /\ snd (sym_hist repaired FDpa (fresh FDpa no_config)
         [HUpdate (mk_batch 1 10 10 2 5 3 7 0 DUint8 TNum); HUpdate (good_batch 2 10 5 3); HCompute])
  = [ERejected RDpaNotBinary 0; EAccepted 10; EOut (Some (10, [[2]; [2]; [2]])) 10]
  /\ snd (sym_hist repaired FTemplBuild (fresh FTemplBuild no_config)
         [HUpdate (good_batch 1 10 5 3); HUpdate (good_batch 2 10 5 1)])
  = [ERejected RTemplMultiWord 0; EAccepted 10]
  /\ snd (sym_hist repaired FCpa (fresh FCpa no_config)
         [HUpdate (good_batch 1 10 5 3); HUpdate (mk_batch 2 4 4 3 5 3 1 0 DUint8 TNum); HCompute])
  = [EAccepted 10; ERejected RTracesNot2D 10; EOut (Some (10, [[1]; [1]; [1]; [1]; [1]])) 10]
  /\ snd (sym_hist repaired FDpa (fresh FDpa no_config)
         [HUpdate (good_batch 1 10 5 3); HUpdate (mk_batch 2 4 4 2 5 3 1 0 DUint8 TStr); HCompute])
  = [EAccepted 10; ERejected RTracesCast 10; EOut (Some (10, [[1]; [1]; [1]])) 10].
Proof. exact repaired_on_the_witnesses. Qed.

(* a history with rejections at the first, a middle and the last position and two in a row, through update, process and
   run(container) (the run is refused at its third batch: the first two stay accumulated), and its cleaned form *)
Example history_example :
  let g := good_batch in
  let bad_user := {| b_tr_array := true; b_da_array := true; b_n := 5; b_nd := 5; b_tdim := 2; b_tlen := 4; b_words := 2; b_dmax := 3;
                     b_dmin := 0; b_dkind := DUint8; b_tkind := TNum; b_const := false; b_mem_ok := true; b_alloc_ok := true;
                     b_user_raises := true; b_rows := [9] |} in
  let h := [HUpdate (mk_batch 1 6 6 2 4 2 300 0 DUintSmall TNum);            (* first call: automatic classes, value 300 *)
            HUpdate (g 2 10 4 2); HCompute;
            HUpdate (g 3 5 7 2); HUpdate (mk_batch 4 5 5 2 4 2 3 0 DFloat TNum);  (* two in a row: length, dtype *)
            HProcess bad_user; HCompute;
            HRun [g 5 5 4 2; g 6 5 4 2; bad_user; g 7 5 4 2]; HCompute;
            HUpdate (g 8 5 4 3)] in                                              (* last call: word count *)
  let st0 := fresh FAnova no_config in
  wf FAnova (bnd st0) = true
  /\ snd (sym_hist repaired FAnova st0 h)
     = [ERejected RAutoMaxGt255 0; EAccepted 10; EOut (Some (10, [[2]; [2]; [2]])) 10;
        ERejected RTraceLen 10; ERejected RLutDtype 10; ERejected RUserRaises 10; EOut (Some (10, [[2]; [2]; [2]])) 10;
        ERejected RUserRaises 20; EOut (Some (20, [[2; 5; 6]; [2; 5; 6]; [2; 5; 6]])) 20; ERejected RWordCount 20]
  /\ sym_kept repaired FAnova st0 h = [HUpdate (g 2 10 4 2); HCompute; HCompute; HRun [g 5 5 4 2; g 6 5 4 2]; HCompute]
  /\ snd (sym_hist repaired FAnova st0 (sym_kept repaired FAnova st0 h))
     = [EAccepted 10; EOut (Some (10, [[2]; [2]; [2]])) 10; EOut (Some (10, [[2]; [2]; [2]])) 10;
        EAccepted 20; EOut (Some (20, [[2; 5; 6]; [2; 5; 6]; [2; 5; 6]])) 20].
Proof. vm_compute. repeat split; reflexivity. Qed.

(* every rejection kind of the repaired order is reachable (each theorem clause is exercised) *)
Example every_rejection_kind_occurs :
  let kinds_of f c h := map (fun e => match e with ERejected x _ => Some x | _ => None end) (snd (sym_hist repaired f (fresh f c) h)) in
  let g := good_batch in
  let mk tr da n nd tdim := {| b_tr_array := tr; b_da_array := da; b_n := n; b_nd := nd; b_tdim := tdim; b_tlen := 4; b_words := 2;
                               b_dmax := 1; b_dmin := 0; b_dkind := DUint8; b_tkind := TNum; b_const := false; b_mem_ok := true;
                               b_alloc_ok := true; b_user_raises := false; b_rows := [0] |} in
  let env mem alloc cst := {| b_tr_array := true; b_da_array := true; b_n := 5; b_nd := 5; b_tdim := 2; b_tlen := 4; b_words := 2;
                               b_dmax := 1; b_dmin := 0; b_dkind := DUint8; b_tkind := TNum; b_const := cst; b_mem_ok := mem;
                               b_alloc_ok := alloc; b_user_raises := false; b_rows := [0] |} in
  kinds_of FCpa no_config [HUpdate (mk false true 5 5 2); HUpdate (mk true false 5 5 2); HUpdate (mk true true 5 4 2);
                           HUpdate (mk true true 5 5 3); HUpdate (mk true true 0 0 2); HUpdate (env false true false);
                           HUpdate (env true false false); HUpdate (g 1 5 4 2); HUpdate (g 2 5 5 2); HUpdate (g 3 5 4 3);
                           HUpdate (mk_batch 4 5 5 2 4 2 1 0 DUint8 TStr)]
  = [Some RTracesNotArray; Some RDataNotArray; Some RRowMismatch; Some RTracesNot2D; Some REmptyBatch; Some RMemory;
     Some RAllocFail; None; Some RTraceLen; Some RWordCount; Some RTracesCast]
  /\ kinds_of FDpa no_config [HUpdate (mk_batch 1 5 5 2 4 2 1 0 DIntSmall TNum); HUpdate (mk_batch 2 5 5 2 4 2 3 0 DUint8 TNum);
                              HUpdate (g 3 5 4 2); HUpdate (mk_batch 4 5 5 2 4 2 1 0 DFloat TNum)]
  = [Some RDpaNotUint8; Some RDpaNotBinary; None; Some RDataCast]
  /\ kinds_of FMia no_config [HUpdate (mk_batch 1 5 5 2 4 2 300 0 DUintSmall TNum); HUpdate (mk_batch 2 5 5 2 4 2 3 (-1) DIntSmall TNum);
                              HUpdate (env true true true); HUpdate (mk_batch 3 5 5 2 4 2 3 0 DUint8 TStr);
                              HUpdate (g 4 5 4 2); HUpdate (mk_batch 5 5 5 2 4 2 3 0 DInt64 TNum); HUpdate (mk_batch 6 5 5 2 4 2 3 0 DUint8 TF16)]
  = [Some RAutoMaxGt255; Some RAutoMinLt0; Some RMiaConstant; Some RTracesMinMax; None; Some RLutDtype; Some RKernelTyping]
  /\ kinds_of FTemplBuild no_config [HUpdate (g 1 5 4 2)] = [Some RTemplMultiWord]
  /\ kinds_of FTemplMatch {| cfg_classes := Some 9%nat; cfg_edges := false; cfg_built := None |} [HUpdate (g 1 5 4 1)] = [Some RNotBuilt]
  /\ kinds_of FTemplDpa {| cfg_classes := Some 9%nat; cfg_edges := false; cfg_built := Some 4 |}
       [HUpdate (g 1 5 5 4); HUpdate (g 2 5 4 4); HUpdate (g 3 5 6 4); HUpdate (g 4 5 4 6)]
  = [Some RTemplTraceLen; None; Some RTraceLen; Some RWordCount].
Proof. vm_compute. repeat split; reflexivity. Qed.

(* results_are_those_of_the_accepted_batches on integers: accumulator k sums (k+1) * row; a refused batch (trace length)
   between two accepted ones; count 3 = rows 1, 2 and 5 *)
Example accum_example :
  let mkb rows tl := {| b_tr_array := true; b_da_array := true; b_n := Z.of_nat (List.length rows); b_nd := Z.of_nat (List.length rows);
                        b_tdim := 2; b_tlen := tl; b_words := 2; b_dmax := 1; b_dmin := 0; b_dkind := DUint8; b_tkind := TNum;
                        b_const := false; b_mem_ok := true; b_alloc_ok := true; b_user_raises := false; b_rows := rows |} in
  let h := [HUpdate (mkb [1; 2] 4); HUpdate (mkb [3; 4] 5); HUpdate (mkb [5] 4)] in
  let contrib := fun (k : nat) (r : Z) => Z.of_nat (S k) * r in
  Forall (wf_op Z) h
  /\ rows_of_hist Z Z (Z * list Z) 0 Z.add contrib (fun n cells => (n, cells)) FDpa (fresh FDpa no_config) h = [1; 2; 5]
  /\ compute Z (Z * list Z) 0 (fun n cells => (n, cells)) FDpa
       (fst (run_hist Z Z (Z * list Z) 0 Z.add contrib (fun n cells => (n, cells)) repaired FDpa (fresh FDpa no_config) h))
     = Some (3, [8; 16; 24]).
Proof. split; [repeat constructor|]. vm_compute. split; reflexivity. Qed.

(* the correspondence check accepts faithful observations and rejects the damage of each of the orders before the repairs *)
Example upd_check_discriminates :
  let ops := [HUpdate (good_batch 1 10 5 3); HUpdate (good_batch 2 4 6 3); HCompute] in
  let r := [Fin 1 (-2); NaN] in
  let mk obs := {| uc_family := FCpa; uc_config := no_config; uc_ops := ops; uc_obs := obs;
                   uc_ref := [OAccepted 10; OResult r 10] |} in
  upd_check (mk [OAccepted 10; ORaised ExDistinguisher 10; OResult r 10]) = true
  /\ upd_check (mk [OAccepted 10; ORaised ExDistinguisher 14; OResult r 14]) = false      (* count bumped *)
  /\ upd_check (mk [OAccepted 10; ORaised ExDistinguisher 10; OResult [Fin 1 (-1); NaN] 10]) = false   (* accumulators touched *)
  /\ upd_check (mk [OAccepted 10; ORaised ExValue 10; OResult r 10]) = false              (* another exception class *)
  /\ upd_check (mk [OAccepted 10; OAccepted 14; OResult r 14]) = false.                   (* the batch was not refused *)
Proof. vm_compute. repeat split; reflexivity. Qed.
