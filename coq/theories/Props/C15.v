(* Props/C15.v — property C15: leakage models and discriminants compute their definitions on every value.
   Only statements closed by [exact]; Print Assumptions beneath each.  Proofs are in Proofs/Models.v. *)
From Coq Require Import NArith ZArith QArith List Bool.
From ScaredV Require Import Generated.HwLut Run.Compare Model.Models Model.ModelsSeq Proofs.Models.
Import ListNotations.
Open Scope N_scope.

(* The generated 256-entry table (read from scared/models.py on this run) is the population count. *)
Theorem hw_lut_is_popcount : forall x, x < 256 -> lut x = popcount x.
Proof. exact lut_is_popcount. Qed.
Print Assumptions hw_lut_is_popcount.

(* population count splits over byte lanes — for ALL x, not a sweep *)
Theorem popcount_splits : forall x, popcount x = popcount (x mod 256) + popcount (x / 256).
Proof. exact popcount_split. Qed.
Print Assumptions popcount_splits.

(* for every dtype size the code dispatches on, the selected table/loop function (generated masks, shifts, loop
   counts) is the exact population count on the whole range of that dtype *)
Theorem hw_is_popcount_all_dtypes : forall sz, In sz [1; 2; 4; 8] ->
  exists f, hw_of_itemsize sz = Some f /\ forall x, x < 2 ^ (8 * sz) -> f x = popcount x.
Proof. exact hw_dispatch_is_popcount. Qed.
Print Assumptions hw_is_popcount_all_dtypes.

(* nb_words = k along an axis: the impl-model over the generated tables equals the spec on every in-range array *)
Theorem hw_array_impl_is_spec : forall sz f k shape axis flat,
  hw_of_itemsize sz = Some f -> In sz [1; 2; 4; 8] -> Forall (fun x => x < 2 ^ (8 * sz)) flat ->
  hw_array f k shape axis flat = hw_array popcount k shape axis flat.
Proof. exact hw_array_is_popcount. Qed.
Print Assumptions hw_array_impl_is_spec.

(* output entry (o, g, i) is the sum over words g*k .. g*k+k-1 of lane (o, i); floor(L/k) groups; other dims untouched *)
Theorem hw_groups : forall f k shape axis flat o g i,
  (o < outer_of shape axis)%nat -> (g < len_of shape axis / k)%nat -> (i < inner_of shape axis)%nat ->
  nth ((o * (len_of shape axis / k) + g) * inner_of shape axis + i) (hw_array f k shape axis flat) 0
  = nsum (map (fun j => f (at3 0 (len_of shape axis) (inner_of shape axis) flat o (g * k + j)%nat i)) (seq 0 k)).
Proof. exact hw_array_entry. Qed.
Print Assumptions hw_groups.

Theorem hw_groups_length : forall f k shape axis flat,
  length (hw_array f k shape axis flat) = (outer_of shape axis * ((len_of shape axis / k) * inner_of shape axis))%nat.
Proof. exact hw_array_length. Qed.
Print Assumptions hw_groups_length.

(* Monobit(b) is bit b; on non-negative data it is what the code's `(x & 2^b) > 0` computes *)
Theorem monobit_is_bit : forall b x, (0 <= x)%Z ->
  monobit b x = if (0 <? Z.land x (2 ^ Z.of_N b))%Z then 1 else 0.
Proof. exact monobit_land. Qed.
Print Assumptions monobit_is_bit.

(* nanmax: member of the non-NaN entries, upper bound of them, NaN iff all entries are NaN *)
Theorem nanmax_spec : forall l,
  match lane_nanmax l with
  | Some m => In (Some m) l /\ forall x, In (Some x) l -> Qle x m
  | None => forall v, In v l -> v = None
  end.
Proof. exact lane_nanmax_spec. Qed.
Print Assumptions nanmax_spec.

Theorem discriminants_spec : forall op l,
  disc_lane op l =
  match op with
  | DNanmax => lane_nanmax l
  | DMaxabs => lane_nanmax (map (omap Qabs') l)
  | DOppositeMin => lane_nanmax (map (omap Qopp) l)
  | DNansum => Some (qsum (defined l))
  | DAbssum => Some (qsum (map Qabs' (defined l)))
  end.
Proof. exact disc_lane_spec. Qed.
Print Assumptions discriminants_spec.

Theorem opposite_min_is_minus_min : forall l m,
  disc_lane DOppositeMin l = Some m ->
  (exists x, In (Some x) l /\ m = Qopp x) /\ forall x, In (Some x) l -> Qle (Qopp m) x.
Proof. exact opposite_min_spec. Qed.
Print Assumptions opposite_min_is_minus_min.

(* the requested axis, and only it, is reduced: cell (o, i) of the result is f of lane (o, ., i) *)
Theorem reduces_requested_axis : forall (d : oq) (f : list oq -> oq) shape axis flat o i,
  (o < outer_of shape axis)%nat -> (i < inner_of shape axis)%nat ->
  nth (o * inner_of shape axis + i) (reduce_axis d f shape axis flat) None
  = f (map (fun j => at3 d (len_of shape axis) (inner_of shape axis) flat o j i) (seq 0 (len_of shape axis))).
Proof. intros. apply reduce_axis_entry; assumption. Qed.
Print Assumptions reduces_requested_axis.

(* non-vacuity: a concrete 2x3x2 uint16 array, nb_words = 2 along axis 1 *)
Example hw_example :
  hw_array popcount 2 [2; 3; 2]%nat 1 [1; 3; 7; 15; 31; 63; 255; 511; 1023; 2047; 4095; 65535] = [4; 6; 18; 20]
  /\ disc_lane DNanmax [Some (1#2)%Q; None; Some (3#4)%Q] = Some (3#4)%Q.
Proof. vm_compute. split; reflexivity. Qed.

(* Memory layout.  The models above are functions of the LOGICAL array (shape + entries enumerated by multi-index in
   row-major order, i.e. nested tolist()); strides / memory order / byte order of the ndarray are not inputs of the
   specification, so [hw_groups] and [reduces_requested_axis] already speak about every layout.  What has to be shown is
   that the correspondence check separates a result whose remaining axes are permuted from the right one even when all
   dimensions are equal (same shape, same multiset of values): a[i][j][k] = 4i+2j+k on 2x2x2, nansum over axis 0 is
   r[j][k] = 4+4j+2k; the transposed r[k][j] is rejected. *)
Example layout_permuted_result_is_rejected :
  let a := [Fin 0 0; Fin 1 0; Fin 1 1; Fin 3 0; Fin 1 2; Fin 5 0; Fin 3 1; Fin 7 0] in
  let c obs := CDisc {| dc_op := DNansum; dc_shape := [2; 2; 2]%nat; dc_axis := 0%nat; dc_in := a;
                        dc_obs_shape := [2; 2]%nat; dc_obs := obs |} in
  call_check (c [Fin 1 2; Fin 3 1; Fin 1 3; Fin 5 1]) = true /\
  call_check (c [Fin 1 2; Fin 1 3; Fin 3 1; Fin 5 1]) = false.
Proof. vm_compute. split; reflexivity. Qed.

(* Call histories.  Every specification above is a pure function of (parameters, logical input): the expected value of
   a call does not mention earlier or later calls, so no theorem about histories is needed on the model side.  That the
   CODE has no hidden state is held by the call_sequence correspondence: [seq_check] compares every result, read right
   after its call and read again after all later calls, with the specification of its own call.  Two calls of one
   HammingWeight(nb_words = 2) instance on 2x4 uint8 data: a first result that has become the second one is rejected. *)
Example sequence_overwritten_result_is_rejected :
  let call1 obs := CHw {| hw_itemsize := 1; hw_k := 2; hw_shape := [2; 4]%nat; hw_axis := 1%nat;
                          hw_in := [1; 3; 7; 15; 0; 255; 1; 1]; hw_obs_shape := [2; 2]%nat; hw_obs := obs |} in
  let call2 obs := CHw {| hw_itemsize := 1; hw_k := 2; hw_shape := [2; 4]%nat; hw_axis := 1%nat;
                          hw_in := [255; 255; 0; 0; 1; 2; 4; 24]; hw_obs_shape := [2; 2]%nat; hw_obs := obs |} in
  seq_check {| sq_now := [call1 [3; 7; 8; 2]; call2 [16; 0; 2; 3]]; sq_after := [call1 [3; 7; 8; 2]; call2 [16; 0; 2; 3]] |} = true /\
  seq_check {| sq_now := [call1 [3; 7; 8; 2]; call2 [16; 0; 2; 3]]; sq_after := [call1 [16; 0; 2; 3]; call2 [16; 0; 2; 3]] |} = false.
Proof. vm_compute. split; reflexivity. Qed.

(* Large groups.  A group sum is a sum in N: it cannot wrap.  32 all-ones bytes with nb_words = 32 weigh 256 (a result
   kept modulo 256 is rejected); 1024 all-ones 64-bit words with nb_words = 1024 weigh 65536.  The input is run-length
   encoded and expanded by [expand] inside Coq; the specification is the same [hw_array popcount]. *)
Example large_group_sums_do_not_wrap :
  let c sz k runs obs := {| hr_itemsize := sz; hr_k := k; hr_shape := [1; k]%nat; hr_axis := 1%nat; hr_runs := runs;
                            hr_obs_shape := [1; 1]%nat; hr_obs := [obs] |} in
  hw_rle_check (c 1 32%nat [(255, 32%nat)] 256) = true /\ hw_rle_check (c 1 32%nat [(255, 32%nat)] 0) = false /\
  hw_rle_check (c 1 32%nat [(255, 31%nat); (127, 1%nat)] 255) = true /\
  hw_rle_check (c 8 1024%nat [(18446744073709551615, 1024%nat)] 65536) = true /\
  hw_rle_check (c 8 1024%nat [(18446744073709551615, 1024%nat)] 0) = false.
Proof. vm_compute. repeat split; reflexivity. Qed.
