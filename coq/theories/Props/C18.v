(* Props/C18.v — property C18: preprocesses compute their definition row by row without integer wrap-around.
   Only statements closed by [exact]; Print Assumptions beneath each.  Proofs are in Proofs/Preprocess.v.

   Reading guide.  A pair (i, j) is a pair of POSITIONS inside the frames: it combines sample frame_1[i] with sample
   frame_2[j] of the same trace.  [lex_lt p q] is the lexicographic order on pairs (first i, then j); a list that is
   [StronglySorted lex_lt] and has a given membership is determined uniquely, so "these pairs, in this order" is
   stated as membership + sortedness.  Matrices of the impl-model are [mat A] = (nrows, ncols, cell : row -> column -> A);
   the result buffer is a [mat (option A)] that starts as np.empty ([None] everywhere).  Exact values are [Qc]. *)
From Coq Require Import NArith ZArith QArith Qcanon List Bool Sorted.
From ScaredV Require Import Run.Compare Lib.QcSum Model.Preprocess Proofs.Preprocess.
Import ListNotations.
Local Open Scope nat_scope.

(* ================================================================ the four pair enumerations *)

(* one frame of n points: all i <= j < n, i ascending then j ascending, no pair twice, n(n+1)/2 of them *)
Theorem pairs_full_spec : forall n,
  (forall i j, In (i, j) (pairs_full n) <-> i <= j < n)
  /\ StronglySorted lex_lt (pairs_full n) /\ NoDup (pairs_full n)
  /\ length (pairs_full n) = n * (n + 1) / 2 /\ 2 * length (pairs_full n) = n * (n + 1).
Proof. exact pairs_full_thm. Qed.
Print Assumptions pairs_full_spec.

(* the pair (i, j) sits at the running offset (n) + (n-1) + ... + (n-i+1) plus j - i *)
Theorem pairs_full_position : forall n i j, i <= j < n ->
  nth_error (pairs_full n) (nsum (fun i' => n - i') (seq 0 i) + (j - i)) = Some (i, j).
Proof. exact pairs_full_index. Qed.
Print Assumptions pairs_full_position.

(* pairs within a distance d: each i with j - i <= d, cut at the end of the frame; it is the one-frame enumeration with
   the farther pairs removed (order kept), and all of it as soon as d + 1 >= n *)
Theorem pairs_dist_spec : forall n d,
  (forall i j, In (i, j) (pairs_dist n d) <-> i <= j < n /\ j - i <= d)
  /\ StronglySorted lex_lt (pairs_dist n d) /\ NoDup (pairs_dist n d)
  /\ pairs_dist n d = filter (fun p => snd p - fst p <=? d) (pairs_full n)
  /\ (n <= S d -> pairs_dist n d = pairs_full n)
  /\ length (pairs_dist n d) = nsum (fun i => Nat.min (S d) (n - i)) (seq 0 n).
Proof. exact pairs_dist_thm. Qed.
Print Assumptions pairs_dist_spec.

(* frame x frame, row-major *)
Theorem pairs_two_spec : forall n1 n2,
  (forall i j, In (i, j) (pairs_two n1 n2) <-> i < n1 /\ j < n2)
  /\ StronglySorted lex_lt (pairs_two n1 n2) /\ NoDup (pairs_two n1 n2) /\ length (pairs_two n1 n2) = n1 * n2.
Proof. exact pairs_two_thm. Qed.
Print Assumptions pairs_two_spec.

(* point to point *)
Theorem pairs_p2p_spec : forall n,
  (forall i j, In (i, j) (pairs_p2p n) <-> i < n /\ j = i)
  /\ StronglySorted lex_lt (pairs_p2p n) /\ NoDup (pairs_p2p n) /\ length (pairs_p2p n) = n.
Proof. exact pairs_p2p_thm. Qed.
Print Assumptions pairs_p2p_spec.

(* ================================================================ the loops of the code compute the comprehensions *)

(* For each of the three classes (k), for ALL cast functions, operations and trace matrices: the loop with its running
   offset cnt (np.empty buffer, slice assignment, transpose / broadcast / transpose) returns a buffer with exactly
   |pairs| columns whose column c holds, for every trace r, op (cast x[r, frame_1[i]]) (cast x[r, frame_2[j]]) where
   (i, j) is the c-th documented pair — operands cast BEFORE the operation, nothing left unwritten, nothing written twice. *)
Theorem loops_compute_the_comprehensions :
  forall (B A : Type) (cast : B -> A) (op : A -> A -> A) (k : comb_kind) (T : mat B) (ps : list (nat * nat)),
  kind_wf k -> kind_pairs k = Some ps ->
  exists R, impl_comb cast op k T = Some R /\ nrows R = nrows T /\ ncols R = length ps /\
    forall r c, c < length ps ->
      cell R r c = option_map (fun p => op (cast (cell T r (nth (fst p) (fst (kind_frames k)) 0)))
                                          (cast (cell T r (nth (snd p) (snd (kind_frames k)) 0)))) (nth_error ps c).
Proof. exact (fun B A => @impl_comb_cells B A). Qed.
Print Assumptions loops_compute_the_comprehensions.

(* the same with traces as lists of rows: the impl-model is, row by row, the spec [comb_row] *)
Theorem loops_compute_the_spec_rows :
  forall (B A : Type) (cast : B -> A) (op : A -> A -> A) (k : comb_kind) (d : B) (w : nat) (M : list (list B)) (ps : list (nat * nat)),
  kind_wf k -> kind_pairs k = Some ps ->
  exists R, impl_comb cast op k (mat_of_rows d w M) = Some R /\
    rows_of_mat R = map (fun row => map Some (comb_row (cast d) op ps (fst (kind_frames k)) (snd (kind_frames k)) (map cast row))) M.
Proof. exact (fun B A => @impl_comb_rows B A). Qed.
Print Assumptions loops_compute_the_spec_rows.

(* every configuration (frames, frame_2, mode, distance) the code accepts on traces of width w selects a loop whose
   hypotheses above hold, with frames inside the trace (so no [nth] default is ever read) ... *)
Theorem accepted_configurations_are_well_formed : forall cfg w k, comb_dispatch cfg w = Done k ->
  kind_wf k /\ Forall (fun c => c < w) (fst (kind_frames k)) /\ Forall (fun c => c < w) (snd (kind_frames k))
  /\ exists ps, kind_pairs k = Some ps.
Proof. exact dispatch_wf. Qed.
Print Assumptions accepted_configurations_are_well_formed.

(* ... and the documented enumeration: frame_2 absent -> all i <= j of frame_1; frame_2 given -> frame x frame;
   distance d -> pairs within d; mode 'same' -> point to point *)
Theorem configuration_selects_documented_pairs : forall cfg w k, comb_dispatch cfg w = Done k ->
  match k with
  | KTwo f1 f2 true => cf_distance cfg = None /\ cf_same cfg = false /\ is_fnone (cf_frame2 cfg) = true /\ f1 = f2
                       /\ kind_pairs k = Some (pairs_full (length f1))
  | KTwo f1 f2 false => cf_distance cfg = None /\ cf_same cfg = false /\ is_fnone (cf_frame2 cfg) = false
                        /\ kind_pairs k = Some (pairs_two (length f1) (length f2))
  | KDist f d => cf_distance cfg = Some (Z.of_nat d) /\ 1 <= d /\ kind_pairs k = Some (pairs_dist (length f) d)
  | KP2P f1 f2 => cf_distance cfg = None /\ cf_same cfg = true /\ kind_pairs k = pairs_p2p_bcast (length f1) (length f2)
  end.
Proof. exact dispatch_pairs. Qed.
Print Assumptions configuration_selects_documented_pairs.

(* ================================================================ row by row; the documented centring *)

(* Product, Difference, AbsoluteDifference, and CenteredProduct with a given mean: output row r is what the preprocess
   returns on the one-row batch [row r]; equal traces in different batches get equal outputs; batches concatenate.
   (True of the spec by construction — it is a [map] over the rows; that the CODE behaves so is the correspondence check.) *)
Theorem combination_is_rowwise : forall o ps f1 f2 w mean,
  uses_batch_mean o mean = false ->
  (forall T r, r < length T -> nth r (comb_spec o ps f1 f2 w mean T) [] = hd [] (comb_spec o ps f1 f2 w mean [nth r T []]))
  /\ (forall T T' r r', r < length T -> r' < length T' -> nth r T [] = nth r' T' [] ->
        nth r (comb_spec o ps f1 f2 w mean T) [] = nth r' (comb_spec o ps f1 f2 w mean T') [])
  /\ (forall T1 T2, comb_spec o ps f1 f2 w mean (T1 ++ T2) = comb_spec o ps f1 f2 w mean T1 ++ comb_spec o ps f1 f2 w mean T2).
Proof. exact combination_is_rowwise_thm. Qed.
Print Assumptions combination_is_rowwise.

(* CenteredProduct without a mean: the product of (traces - column means of the batch); the batch enters only through
   its column means (supplying them as [mean] gives the same result) *)
Theorem centered_uses_batch_mean : forall ps f1 f2 w T,
  comb_spec OpCenteredProduct ps f1 f2 w None T = comb_spec OpProduct ps f1 f2 w None (map (fun row => sub_rows row (col_means w T)) T)
  /\ comb_spec OpCenteredProduct ps f1 f2 w None T = comb_spec OpCenteredProduct ps f1 f2 w (Some (col_means w T)) T
  /\ (forall a, a < w -> nth a (col_means w T) 0%Qc = qmean (column_of T a)).
Proof. exact centered_uses_batch_mean_thm. Qed.
Print Assumptions centered_uses_batch_mean.

(* entry k of output row r: (x[r,a] - mean_a) * (x[r,b] - mean_b), (i, j) the k-th pair, a = frame_1[i], b = frame_2[j] *)
Theorem centered_product_entry : forall ps f1 f2 w T r k i j row,
  nth_error T r = Some row -> length row = w -> nth_error ps k = Some (i, j) ->
  nth i f1 0 < w -> nth j f2 0 < w ->
  nth k (nth r (comb_spec OpCenteredProduct ps f1 f2 w None T) []) 0%Qc
  = ((nth (nth i f1 0%nat) row 0 - qmean (column_of T (nth i f1 0%nat))) * (nth (nth j f2 0%nat) row 0 - qmean (column_of T (nth j f2 0%nat))))%Qc.
Proof. exact centered_entry. Qed.
Print Assumptions centered_product_entry.

(* ================================================================ dtype promotion (commit 330dad2) *)

(* for EVERY dtype of the traces and every float precision: the computation dtype is a float dtype, at least the
   requested precision, float64 as soon as the traces' dtype has more than 24 significant bits, and every value of the
   traces' dtype is exactly representable in it up to 53 bits *)
Theorem promote_spec : forall d p, is_float p = true ->
  is_float (promote d p) = true /\ float_le p (promote d p) = true
  /\ ((24 < value_bits d)%Z -> promote d p = DF64)
  /\ ((value_bits d <= 53)%Z -> exact_in d (promote d p) = true).
Proof. exact promote_spec_thm. Qed.
Print Assumptions promote_spec.

(* no wrap-around, no overflow: the exact product and difference of any two samples of the traces' dtype lie within
   the finite range of the promoted dtype *)
Theorem promoted_arithmetic_does_not_wrap : forall d p x y, is_float p = true -> in_range d x -> in_range d y ->
  (Z.abs (x * y) <= max_finite (promote d p) /\ Z.abs (x - y) <= max_finite (promote d p))%Z.
Proof. exact promoted_arith_in_range. Qed.
Print Assumptions promoted_arithmetic_does_not_wrap.

(* the code as found (max on dtypes) kept 32/64-bit integers and their squares wrapped; where it did promote, the
   repaired code returns the same dtype *)
Theorem promote_refuted :
  exists d p x, is_int d = true /\ is_float p = true /\ in_range d x
                /\ is_float (promote_old d p) = false /\ wrap_to (promote_old d p) (x * x) <> (x * x)%Z.
Proof. exact promote_refuted_thm. Qed.
Print Assumptions promote_refuted.

Theorem repair_changes_nothing_else : forall d p, is_float p = true -> is_float (promote_old d p) = true -> promote_old d p = promote d p.
Proof. exact promote_old_agrees. Qed.
Print Assumptions repair_changes_nothing_else.

(* ================================================================ first-order formulas *)

(* center / CenterOn: entry (r, j) of the model's expected values is x[r, j] - m[j] ... *)
Theorem center_formula : forall n3 m mx T w,
  length m = w -> length mx = w -> rect w T = true ->
  map (map xq_value) (fo_center_rows n3 m mx T) = map (fun row => sub_rows row m) T.
Proof. exact fo_center_rows_values. Qed.
Print Assumptions center_formula.

(* ... and with the batch mean every column of the result sums to zero *)
Theorem center_removes_the_mean : forall w T j, T <> [] -> rect w T = true -> j < w ->
  qsum (column_of (center_with w None T) j) = 0%Qc.
Proof. exact center_columns_sum_zero. Qed.
Print Assumptions center_removes_the_mean.

(* standardize, free of square roots: the model carries (num, var) = (x - mean, sum of squared deviations / n) per entry
   and compares y^2 * var with num^2 (and the signs).  The numerators of a column sum to 0, their squares to n * var —
   so y = num / sqrt var has mean 0 and mean square 1 — and var = 0 exactly for a constant column (0/0 = NaN) *)
Theorem standardize_formula : forall l, l <> [] ->
  let num := map (fun x => (x - qmean l)%Qc) l in
  let var := (ssd l / qlen l)%Qc in
  qsum num = 0%Qc /\ qsum (map (fun y => (y * y)%Qc) num) = (qlen l * var)%Qc /\ (var = 0%Qc <-> forall x, In x l -> x = qmean l).
Proof. exact standardize_sqrt_free. Qed.
Print Assumptions standardize_formula.

(* ToPower: x^0 = 1, x^1 = x, x^2 = square, x^(a+b) = x^a x^b, x^(-k) is the inverse of x^k *)
Theorem power_formula : forall x,
  qc_pow x 0 = Some 1%Qc /\ qc_pow x 1 = Some x /\ qc_pow x 2 = Some (x * x)%Qc
  /\ (forall a b, (0 <= a)%Z -> (0 <= b)%Z ->
        qc_pow x (a + b) = match qc_pow x a, qc_pow x b with Some u, Some v => Some (u * v)%Qc | _, _ => None end)
  /\ (forall k, (k < 0)%Z -> x <> 0%Qc -> exists v, qc_pow x k = Some v /\ (v * Qcpower x (Z.to_nat (- k)))%Qc = 1%Qc).
Proof. exact power_laws_thm. Qed.
Print Assumptions power_formula.

(* serialize_bit: 8 output columns per sample; column 8 j + i is bit 7 - i (most significant first) of sample j mod 256 *)
Theorem serialize_bit_formula : forall row,
  length (serialize_row row) = 8 * length row
  /\ forall j i, j < length row -> i < 8 ->
       nth (8 * j + i) (serialize_row row) 0%Z = Z.b2z (Z.testbit (nth j row 0%Z mod 256) (7 - Z.of_nat i)).
Proof. exact serialize_bit_thm. Qed.
Print Assumptions serialize_bit_formula.

(* the bits of a byte are 0/1 and read back, most significant first, as the byte *)
Theorem byte_bits_roundtrip : forall b, (0 <= b < 256)%Z ->
  length (byte_bits b) = 8 /\ (forall x, In x (byte_bits b) -> x = 0%Z \/ x = 1%Z) /\ bits_value (byte_bits b) = b
  /\ forall i, i < 8 -> nth i (byte_bits b) 0%Z = Z.b2z (Z.testbit b (7 - Z.of_nat i)).
Proof. exact byte_bits_spec. Qed.
Print Assumptions byte_bits_roundtrip.

(* ================================================================ time-frequency: the compositions, for EVERY oracle *)

(* rfft, irfft, fft (numpy) and the standardize preprocess are arbitrary functions here. *)
Theorem xcorr_composition : forall (rfft : list Qc -> list cplx) (irfft : list cplx -> list Qc) a b,
  tf_operation rfft irfft TXcorr a b
  = map Rat (irfft (map2 (fun f g => (fst f * fst g + snd f * snd g, fst f * snd g - snd f * fst g)%Qc) (rfft a) (rfft b))).
Proof. exact xcorr_composition_thm. Qed.
Print Assumptions xcorr_composition.

Theorem window_fft_composition : forall (rfft : list Qc -> list cplx) (irfft : list cplx -> list Qc) a b,
  tf_operation rfft irfft TWindowFFT a b = map2 (fun f g => Sqrt (norm2 f * norm2 g)%Qc) (rfft a) (rfft b).
Proof. exact window_fft_composition_thm. Qed.
Print Assumptions window_fft_composition.

Theorem window_fht_composition : forall (rfft : list Qc -> list cplx) (irfft : list cplx -> list Qc) a b,
  tf_operation rfft irfft TWindowFHT a b = map2 (fun f g => Rat ((fst f - snd f) * (fst g - snd g))%Qc) (rfft a) (rfft b).
Proof. exact window_fht_composition_thm. Qed.
Print Assumptions window_fht_composition.

Theorem maxcorr_composition : forall (rfft : list Qc -> list cplx) (irfft : list cplx -> list Qc) a b,
  tf_operation rfft irfft TMaxCorr a b
  = map (fun f => Rat (fst f)) (rfft (a ++ b)) ++ map (fun f => Rat (snd f)) (rfft (a ++ b)) ++ map (fun f => Sqrt (norm2 f)) (rfft (a ++ b))
  /\ length (tf_operation rfft irfft TMaxCorr a b) = 3 * length (rfft (a ++ b)).
Proof. exact maxcorr_composition_thm. Qed.
Print Assumptions maxcorr_composition.

Theorem concat_fft_composition : forall (rfft : list Qc -> list cplx) (irfft : list cplx -> list Qc) a b,
  tf_operation rfft irfft TConcatFFT a b = map (fun f => Rat (fst f * fst f + snd f * snd f)%Qc) (rfft (a ++ b)).
Proof. exact concat_fft_composition_thm. Qed.
Print Assumptions concat_fft_composition.

Theorem concat_fht_composition : forall (rfft : list Qc -> list cplx) (irfft : list cplx -> list Qc) a b,
  tf_operation rfft irfft TConcatFHT a b = map (fun f => Rat ((fst f - snd f) * (fst f - snd f))%Qc) (rfft (a ++ b)).
Proof. exact concat_fht_composition_thm. Qed.
Print Assumptions concat_fht_composition.

(* mode dispatch and the whole call; in raw mode each output row depends on its own trace only *)
Theorem time_frequency_call : forall rfft irfft (stdz : list (list Qc) -> list (list Qc)) o m c1 c2 T,
  tf_call rfft irfft stdz o m c1 c2 T
  = let pre := match m with
               | MRaw => fun X => X
               | MCentered => fun X => center_with (length (hd [] X)) None X
               | MStandardized => stdz
               end in
    map2 (tf_operation rfft irfft o) (pre (map (sel_row 0%Qc c1) T)) (pre (map (sel_row 0%Qc c2) T)).
Proof. exact tf_call_modes_thm. Qed.
Print Assumptions time_frequency_call.

Theorem time_frequency_raw_is_rowwise : forall rfft irfft (stdz : list (list Qc) -> list (list Qc)) o c1 c2 T,
  tf_call rfft irfft stdz o MRaw c1 c2 T = map (fun row => tf_operation rfft irfft o (sel_row 0%Qc c1 row) (sel_row 0%Qc c2 row)) T.
Proof. exact tf_call_raw_thm. Qed.
Print Assumptions time_frequency_raw_is_rowwise.

(* frame defaulting: one frame None -> the other is used for both; both None -> the whole trace *)
Theorem time_frequency_frame_defaulting : forall f1 f2,
  handle_none_frame f1 f2 =
  match is_fnone f1, is_fnone f2 with
  | true, true => (FNone, FNone)
  | true, false => (f2, f2)
  | false, true => (f1, f1)
  | false, false => (f1, f2)
  end.
Proof. exact handle_none_frame_thm. Qed.
Print Assumptions time_frequency_frame_defaulting.

Theorem fft_modulus_composition : forall (fft : list Qc -> list cplx) row,
  fft_modulus_row fft row = firstn ((length row + 1) / 2) (map (fun f => Sqrt (fst f * fst f + snd f * snd f)%Qc) (fft row))
  /\ length (fft_modulus_row fft row) <= (length row + 1) / 2.
Proof. exact fft_modulus_thm. Qed.
Print Assumptions fft_modulus_composition.

(* ================================================================ the @preprocess decorator *)

(* a call goes through exactly when input and result are 2-D arrays with the same number of traces (the checks of
   preprocesses/_base.py in their order; the code's exception classes are compared by the correspondence check) *)
Theorem decorator_accepts_iff : forall in_is_array in_ndim out_is_array out_ndim rows_in rows_out,
  decorator_model in_is_array in_ndim out_is_array out_ndim rows_in rows_out = DecOk
  <-> in_is_array = true /\ in_ndim = 2 /\ out_is_array = true /\ out_ndim = 2 /\ rows_out = rows_in.
Proof. exact decorator_accepts_iff_thm. Qed.
Print Assumptions decorator_accepts_iff.

(* ================================================================ non-vacuity *)

(* the enumerations on a frame of 4 points; the border: the last row of the distance enumeration is cut *)
Example pairs_examples :
  pairs_full 3 = [(0, 0); (0, 1); (0, 2); (1, 1); (1, 2); (2, 2)]
  /\ pairs_dist 4 1 = [(0, 0); (0, 1); (1, 1); (1, 2); (2, 2); (2, 3); (3, 3)]
  /\ pairs_dist 3 5 = pairs_full 3
  /\ pairs_two 2 3 = [(0, 0); (0, 1); (0, 2); (1, 0); (1, 1); (1, 2)]
  /\ pairs_p2p 3 = [(0, 0); (1, 1); (2, 2)]
  /\ nth_error (pairs_full 4) (nsum (fun i' => 4 - i') (seq 0 2) + (3 - 2)) = Some (2, 3).
Proof. vm_compute. repeat split; reflexivity. Qed.

(* the loops on a 2 x 3 integer matrix: Product over the frame [2; 0; 1] (a list frame, out of order), then distance 1 *)
Example loops_example :
  option_map rows_of_mat (impl_comb (fun x : Z => x) Z.mul (KTwo [2; 0; 1] [2; 0; 1] true) (mat_of_rows 0%Z 3 [[2; 3; 5]; [7; 11; 13]]%Z))
  = Some [[Some 25; Some 10; Some 15; Some 4; Some 6; Some 9]; [Some 169; Some 91; Some 143; Some 49; Some 77; Some 121]]%Z
  /\ option_map rows_of_mat (impl_comb (fun x : Z => x) Z.sub (KDist [0; 1; 2] 1) (mat_of_rows 0%Z 3 [[2; 3; 5]; [7; 11; 13]]%Z))
  = Some [[Some 0; Some (-1); Some 0; Some (-2); Some 0]; [Some 0; Some (-4); Some 0; Some (-2); Some 0]]%Z
  /\ kind_wf (KTwo [2; 0; 1] [2; 0; 1] true).
Proof. vm_compute. repeat split; reflexivity. Qed.

(* a configuration the dispatcher accepts: Product(frame_1 = slice(1, 4), distance = 2) on traces of width 5 *)
Example dispatch_example :
  comb_dispatch {| cf_frame1 := FSlice (Some 1%Z) (Some 4%Z) None; cf_frame2 := FNone; cf_same := false; cf_distance := Some 2%Z |} 5
  = Done (KDist [1; 2; 3] 2)
  /\ comb_dispatch {| cf_frame1 := FSlice None (Some 9%Z) None; cf_frame2 := FNone; cf_same := false; cf_distance := None |} 5 = Rejected.
Proof. vm_compute. split; reflexivity. Qed.

(* the batch mean is a genuine cross-row dependence: changing trace 1 changes the centred product of trace 0,
   while the plain product of trace 0 does not move *)
Example centering_depends_on_the_batch :
  let T := [[Q2Qc 1; Q2Qc 2]; [Q2Qc 3; Q2Qc 6]] in
  let T' := [[Q2Qc 1; Q2Qc 2]; [Q2Qc 5; Q2Qc 6]] in
  nth 0 (comb_spec OpCenteredProduct (pairs_full 2) [0; 1] [0; 1] 2 None T) [] <> nth 0 (comb_spec OpCenteredProduct (pairs_full 2) [0; 1] [0; 1] 2 None T') []
  /\ nth 0 (comb_spec OpProduct (pairs_full 2) [0; 1] [0; 1] 2 None T) [] = nth 0 (comb_spec OpProduct (pairs_full 2) [0; 1] [0; 1] 2 None T') []
  /\ uses_batch_mean OpProduct None = false /\ uses_batch_mean OpCenteredProduct (Some [Q2Qc 0; Q2Qc 0]) = false.
Proof. vm_compute. repeat split; try reflexivity. discriminate. Qed.

(* promotion: the dtypes the property names, and the value that wrapped before the repair *)
Example promote_examples :
  promote DU8 DF32 = DF32 /\ promote DI16 DF32 = DF32 /\ promote DI32 DF32 = DF64 /\ promote DU64 DF32 = DF64
  /\ promote DI8 DF64 = DF64 /\ promote DF64 DF32 = DF64 /\ promote DU8 DF16 = DF16 /\ promote DI16 DF16 = DF32
  /\ promote_old DI32 DF32 = DI32 /\ wrap_to DI32 (100000 * 100000) = 1410065408%Z
  /\ in_range DI32 100000%Z /\ in_range DU8 255%Z.
Proof. vm_compute. repeat split; try reflexivity; discriminate. Qed.

(* first order: bits of 0xA5 most significant first; -1 as int16 serialises as 0xFF; a standardised column *)
Example first_order_examples :
  byte_bits 165 = [1; 0; 1; 0; 0; 1; 0; 1]%Z
  /\ serialize_row [-1; 261]%Z = [1; 1; 1; 1; 1; 1; 1; 1; 0; 0; 0; 0; 0; 1; 0; 1]%Z
  /\ option_map this (qc_pow (Q2Qc 3) 4) = Some 81%Q /\ option_map this (qc_pow (Q2Qc 4) (-1)) = Some (1 # 4)%Q
  /\ map this (col_means 2 [[Q2Qc 1; Q2Qc 2]; [Q2Qc 3; Q2Qc 6]]) = [2; 4]%Q
  /\ map this (col_vars 2 [[Q2Qc 1; Q2Qc 2]; [Q2Qc 3; Q2Qc 6]]) = [1; 4]%Q.
Proof. vm_compute. repeat split; reflexivity. Qed.

(* time-frequency with a concrete oracle (the 2-point DFT: rfft [x; y] = [x + y; x - y], purely real) *)
Example time_frequency_example :
  let rfft2 := fun l : list Qc => match l with [x; y] => [((x + y)%Qc, Q2Qc 0); ((x - y)%Qc, Q2Qc 0)] | _ => [] end in
  let irfft2 := fun l : list cplx => match l with [a; b] => [((fst a + fst b) / Q2Qc 2)%Qc; ((fst a - fst b) / Q2Qc 2)%Qc] | _ => [] end in
  let show := map (fun v => match v with Rat q => this q | Sqrt q => this q end) in
  show (tf_operation rfft2 irfft2 TXcorr [Q2Qc 1; Q2Qc 2] [Q2Qc 3; Q2Qc 5]) = [13; 11]%Q
  /\ map this (circ_xcorr [Q2Qc 1; Q2Qc 2] [Q2Qc 3; Q2Qc 5]) = [13; 11]%Q
  /\ show (tf_operation rfft2 irfft2 TWindowFHT [Q2Qc 1; Q2Qc 2] [Q2Qc 3; Q2Qc 5]) = [24; 2]%Q
  /\ tf_frames true (FSlice None (Some 2%Z) None) FNone 4 = Done ([0; 1], [0; 1])
  /\ tf_frames true (FSlice None (Some 2%Z) None) (FSlice None (Some 3%Z) None) 4 = Rejected
  /\ decorator_model true 2 true 2 5 5 = DecOk /\ decorator_model true 2 true 2 5 4 = DecPreprocessError.
Proof. vm_compute. repeat split; reflexivity. Qed.
