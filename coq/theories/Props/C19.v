(* Props/C19.v — property C19: signal helpers equal windowed definitions; peak search keeps isolated maxima.
   Only statements closed by [exact]/[apply]; Print Assumptions beneath each.  Proofs are in Proofs/Signal.v and
   Proofs/Peaks.v, the definitions in Model/Signal.v and Model/Peaks.v.

   Conventions.  A real array is a list of canonical rationals (Qc); an n-D array is a shape with its C-order flat
   data.  [windows w l] is the list of all length-w windows l[i .. i+w-1], i = 0 .. len-w.  Square roots never appear:
   std is carried as its square, skew as (mu3, mu2) [the code returns mu3 / mu2^(3/2)], kurtosis as (mu4, mu2)
   [mu4 / mu2^2 - 3], the correlation as (num, dx, dy) [num / (sqrt dx * sqrt dy)], distance and bcdc as squares.
   Left-hand sides are the impl-models, written as the code is written (cumsum difference on the zero-padded lane,
   raw-moment formulas, sliding sums + sliding dot product, gaps between not-beyond indices, the repaired
   elimination scan); right-hand sides are the definitions.  The impl-models are tied to the code by the
   correspondence check (tools/props/C19.py), which compares the code's outputs with the right-hand sides. *)
From Coq Require Import ZArith QArith Qcanon List Bool Sorted Lia.
From ScaredV Require Import Run.Compare Lib.QcSum Model.Signal Model.Peaks Proofs.Signal Proofs.Peaks.
Import ListNotations.
Local Open Scope nat_scope.

(* ================================================================ moving operators *)

(* the windows: there are len + 1 - w of them and window j is l[j .. j+w-1] *)
Theorem windows_are_the_windows : forall (A : Type) (w : nat) (l : list A),
  length (windows w l) = length l + 1 - w
  /\ forall j, j < length l + 1 - w -> nth j (windows w l) [] = firstn w (skipn j l).
Proof. intros A w l. split; [apply windows_length|intros j; apply nth_windows]. Qed.
Print Assumptions windows_are_the_windows.

(* cumsum difference ret[w:] - ret[:-w] on the zero-padded lane (the data itself for w = 1) = the sum of every
   length-w window; for ALL lengths and ALL windows w >= 1 (w > len: no window; the code raises there) *)
Theorem moving_sum_is_window_sum : forall (w : nat) (l : list Qc), 1 <= w ->
  moving_sum w l = map qsum (windows w l).
Proof. exact moving_sum_windows. Qed.
Print Assumptions moving_sum_is_window_sum.

Theorem moving_mean_is_window_mean : forall (w : nat) (l : list Qc), 1 <= w ->
  moving_mean w l = map qmean (windows w l).
Proof. exact moving_mean_windows. Qed.
Print Assumptions moving_mean_is_window_mean.

(* m2 - m1^2 = mean squared deviation from the window mean (mu2); moving_std is its square root *)
Theorem moving_var_is_window_variance : forall (w : nat) (l : list Qc), 1 <= w ->
  moving_var w l = map mu2 (windows w l) /\ moving_std_sq w l = map mu2 (windows w l).
Proof. intros w l H. split; apply moving_var_windows; exact H. Qed.
Print Assumptions moving_var_is_window_variance.

(* (m3 - 3*m1*v - m1^3, v) = (third central moment, second central moment) of every window *)
Theorem moving_skew_is_window_moments : forall (w : nat) (l : list Qc), 1 <= w ->
  moving_skew w l = map (fun win => (mu3 win, mu2 win)) (windows w l).
Proof. exact moving_skew_windows. Qed.
Print Assumptions moving_skew_is_window_moments.

(* (m4 - 4*m3*m1 + 6*v*m1^2 + 3*m1^4, v) = (fourth central moment, second central moment) of every window *)
Theorem moving_kurtosis_is_window_moments : forall (w : nat) (l : list Qc), 1 <= w ->
  moving_kurtosis w l = map (fun win => (mu4 win, mu2 win)) (windows w l).
Proof. exact moving_kurtosis_windows. Qed.
Print Assumptions moving_kurtosis_is_window_moments.

(* n-D arrays, any axis: entry (o, j, i) of a windowed operator applied along the axis is the statistic of window j
   of lane (o, i); the other dimensions are untouched.  (True of the model by construction: the axis bookkeeping
   of the code - swapaxes, pad, cumsum(axis=0), swapaxes - is held by the correspondence check.) *)
Theorem moving_along_axis : forall (B : Type) (dB : B) (g : list Qc -> B) w shape axis flat o j i,
  o < outer_of shape axis -> j < len_of shape axis + 1 - w -> i < inner_of shape axis ->
  nth ((o * (len_of shape axis + 1 - w) + j) * inner_of shape axis + i)
      (along_axis dB (fun ln => map g (windows w ln)) (len_of shape axis + 1 - w) shape axis flat) dB
  = g (firstn w (skipn j (lane 0%Qc (len_of shape axis) (inner_of shape axis) flat o i))).
Proof. exact @along_axis_windows_entry. Qed.
Print Assumptions moving_along_axis.

Theorem moving_sum_nd_is_window_sum : forall w shape axis flat o j i, 1 <= w ->
  o < outer_of shape axis -> j < len_of shape axis + 1 - w -> i < inner_of shape axis ->
  nth ((o * (len_of shape axis + 1 - w) + j) * inner_of shape axis + i) (moving_sum_nd w shape axis flat) 0%Qc
  = qsum (firstn w (skipn j (lane 0%Qc (len_of shape axis) (inner_of shape axis) flat o i))).
Proof. exact moving_sum_nd_entry. Qed.
Print Assumptions moving_sum_nd_is_window_sum.

(* ================================================================ pattern detection *)

(* (xy - n*ex*ey, x2 - n*ex^2, y2 - n*ey^2) from the sliding sums = (sum of cross deviations, sum of squared
   deviations of the window, of the pattern): the Pearson correlation of every window with the pattern *)
Theorem correlation_is_window_pearson : forall (x y : list Qc), 1 <= length y ->
  correlation x y = map (fun win => (scd (combine win y), ssd win, ssd y)) (windows (length y) x).
Proof. exact correlation_windows. Qed.
Print Assumptions correlation_is_window_pearson.

(* |x2 + y2 - 2*xy| = sum (x_k - y_k)^2 over every window: the squared Euclidean distance *)
Theorem distance_is_window_euclid : forall (x y : list Qc), 1 <= length y ->
  distance_sq x y = map (fun win => qsum (map (fun p => sq (fst p - snd p)) (combine win y))) (windows (length y) x).
Proof. exact distance_sq_windows. Qed.
Print Assumptions distance_is_window_euclid.

(* (|numerator|, |denominator|) = (Var(x - y), Var(x + y)) over every window: bcdc^2 is their ratio *)
Theorem bcdc_is_window_variance_ratio : forall (x y : list Qc), 1 <= length y ->
  bcdc x y = map (fun win => (mu2 (vdiff win y), mu2 (vsum win y))) (windows (length y) x).
Proof. exact bcdc_windows. Qed.
Print Assumptions bcdc_is_window_variance_ratio.

(* ================================================================ pad / extract_around_indexes *)

(* every position of the result holds array[idx - offsets] inside the placed block and pad_with outside *)
Theorem pad_spec : forall (A : Type) (shape : list nat) (flat : list A) target offs pw out idx,
  pad shape flat target offs pw = Some out -> in_range target idx ->
  length out = prodn target
  /\ nth (ravel target idx) out pw
     = if inside offs shape idx then nth (ravel shape (sub_idx idx offs)) flat pw else pw.
Proof. intros A shape flat target offs pw out idx H Hi. split; [eapply pad_length; exact H|apply pad_entry; assumption]. Qed.
Print Assumptions pad_spec.

(* pad succeeds exactly when the array fits (same number of dimensions, offset + extent <= target everywhere) *)
Theorem pad_accepts_iff_fits : forall (A : Type) (shape : list nat) (flat : list A) target offs pw,
  (exists out, pad shape flat target offs pw = Some out) <-> fits_P offs shape target.
Proof. exact @pad_accepts_iff. Qed.
Print Assumptions pad_accepts_iff_fits.

(* inside the placed block the source index is a valid index of the array (no default value is read) *)
Theorem pad_source_in_range : forall offs shape idx, inside offs shape idx = true -> in_range shape (sub_idx idx offs).
Proof. exact inside_in_range. Qed.
Print Assumptions pad_source_in_range.

(* in-range indexes (before <= c and c + after < len): row k is data[c_k - before .. c_k + after] *)
Theorem extract_spec : forall data idxs before after k j,
  Forall (idx_in_range data before after) idxs -> k < length idxs -> j <= before + after ->
  exists rows, extract data idxs before after = Some rows /\ length rows = length idxs
    /\ length (nth k rows []) = before + after + 1
    /\ nth j (nth k rows []) 0%Qc = nth (Z.to_nat (nth k idxs 0%Z - Z.of_nat before) + j) data 0%Qc.
Proof. exact extract_entry. Qed.
Print Assumptions extract_spec.

Theorem extract_concat_spec : forall data idxs before after,
  Forall (idx_in_range data before after) idxs ->
  extract_concat data idxs before after = Some (concat (extract_rows data idxs before after)).
Proof. exact extract_concat_in_range. Qed.
Print Assumptions extract_concat_spec.

Theorem extract_average_spec : forall data idxs before after,
  Forall (idx_in_range data before after) idxs ->
  extract_average data idxs before after
  = Some (map (fun j => qmean (map (fun c => nth (Z.to_nat (c - Z.of_nat before) + j) data 0%Qc) idxs))
              (seq 0 (before + after + 1))).
Proof. exact extract_average_in_range. Qed.
Print Assumptions extract_average_spec.

(* ================================================================ find_peaks (repaired scan, fix f9e9478) *)
(* No fuel: the eliminated flags are a parallel list, so both loops are structural and the statements are
   unconditional (there is no out-of-fuel outcome to exclude). *)

(* only local maxima (plateaus, both ends included) not lower than the height threshold *)
Theorem peaks_are_candidates : forall data d h i,
  In i (find_peaks data d h) -> is_candidate data h i.
Proof. exact find_peaks_candidates. Qed.
Print Assumptions peaks_are_candidates.

(* any two returned peaks are at least min_peak_distance apart *)
Theorem peaks_separated : forall data d h i j,
  In i (find_peaks data d h) -> In j (find_peaks data d h) -> i <> j -> d <= adist i j.
Proof. exact find_peaks_separated. Qed.
Print Assumptions peaks_separated.

(* ... and they come in ascending order without repeats *)
Theorem peaks_ascending_separated : forall data d h,
  StronglySorted (fun i j => i < j /\ i + d <= j) (find_peaks data d h).
Proof. exact find_peaks_sorted_separated. Qed.
Print Assumptions peaks_ascending_separated.

(* every dropped candidate has ANOTHER candidate closer than the distance whose value is at least as large *)
Theorem dropped_is_dominated : forall data d h i,
  is_candidate data h i -> ~ In i (find_peaks data d h) ->
  exists j, is_candidate data h j /\ j <> i /\ adist i j < d /\ (dat data i <= dat data j)%Qc.
Proof. exact find_peaks_dropped_dominated. Qed.
Print Assumptions dropped_is_dominated.

(* an isolated maximum (every other candidate closer than the distance is strictly lower) is never lost *)
Theorem isolated_kept : forall data d h i,
  is_candidate data h i ->
  (forall j, is_candidate data h j -> j <> i -> adist i j < d -> (dat data j < dat data i)%Qc) ->
  In i (find_peaks data d h).
Proof. exact find_peaks_isolated_kept. Qed.
Print Assumptions isolated_kept.

(* in particular a candidate with no other candidate closer than the distance *)
Theorem alone_kept : forall data d h i,
  is_candidate data h i -> (forall j, is_candidate data h j -> j <> i -> d <= adist i j) ->
  In i (find_peaks data d h).
Proof. exact find_peaks_alone_kept. Qed.
Print Assumptions alone_kept.

(* ... and the strictly highest candidate, whatever the distance *)
Theorem strict_highest_kept : forall data d h i,
  is_candidate data h i -> (forall j, is_candidate data h j -> j <> i -> (dat data j < dat data i)%Qc) ->
  In i (find_peaks data d h).
Proof. exact find_peaks_strict_highest_kept. Qed.
Print Assumptions strict_highest_kept.

(* ================================================================ find_width *)

(* the result is exactly the maximal runs strictly beyond the threshold, bracketed on both sides by a sample that is
   not beyond, whose length satisfies the bound of the selected mode, each as [first index, index after the last];
   the rows are ascending and disjoint, so the list is determined.  Hypothesis = the argument check of the code. *)
Theorem width_is_maximal_runs : forall data dir thr m, wmode_valid m = true ->
  (forall s e, In (s, e) (find_width data dir thr m) <-> bracketed_run data dir thr s e /\ width_ok m (e - s))
  /\ StronglySorted (fun x y : nat * nat => snd x < fst y) (find_width data dir thr m).
Proof. intros data dir thr m H. split; [intros s e; apply find_width_runs; exact H|apply find_width_sorted]. Qed.
Print Assumptions width_is_maximal_runs.

(* ================================================================ non-vacuity *)
Definition qs (l : list Z) : list Qc := map qz l.

Example moving_example :
  map this (moving_sum 3 (qs [1; 2; 3; 4; 5]%Z)) = [6; 9; 12]%Q
  /\ map this (moving_var 2 (qs [1; 3; 3; 7]%Z)) = [1; 0; 4]%Q
  /\ map (fun p => (this (fst p), this (snd p))) (moving_skew 3 (qs [0; 0; 3; 0]%Z)) = [(2, 2); (2, 2)]%Q
  /\ map (fun p => (this (fst p), this (snd p))) (moving_kurtosis 4 (qs [0; 0; 0; 4]%Z)) = [(21, 3)]%Q
  /\ windows 2 [1; 2; 3] = [[1; 2]; [2; 3]].
Proof. vm_compute. repeat split; reflexivity. Qed.

Example pattern_example :
  map (fun t => (this (fst (fst t)), this (snd (fst t)), this (snd t))) (correlation (qs [1; 2; 4; 3]%Z) (qs [1; 3]%Z))
  = [(1, 1 # 2, 2); (2, 2, 2); (-1, 1 # 2, 2)]%Q
  /\ map this (distance_sq (qs [1; 2; 4; 3]%Z) (qs [1; 3]%Z)) = [1; 2; 9]%Q
  /\ map (fun p => (this (fst p), this (snd p))) (bcdc (qs [1; 2; 4; 3]%Z) (qs [1; 3]%Z)) = [(1 # 4, 9 # 4); (0, 4); (9 # 4, 1 # 4)]%Q.
Proof. vm_compute. repeat split; reflexivity. Qed.

(* the docstring example of pad, and a refused one *)
Example pad_example :
  pad [2; 3] [10; 11; 12; 13; 14; 15]%Z [5; 5] [1; 2] 0%Z
  = Some [0;0;0;0;0; 0;0;10;11;12; 0;0;13;14;15; 0;0;0;0;0; 0;0;0;0;0]%Z
  /\ in_range [5; 5] [2; 3] /\ inside [1; 2] [2; 3] [2; 3] = true
  /\ pad [2; 3] [10; 11; 12; 13; 14; 15]%Z [5; 4] [1; 2] 0%Z = None.
Proof. vm_compute. repeat split; try reflexivity. repeat constructor. Qed.

Example extract_example :
  Forall (idx_in_range (qs [5; 6; 7; 8; 9; 10]%Z) 1 2) [1; 3]%Z
  /\ match extract (qs [5; 6; 7; 8; 9; 10]%Z) [1; 3]%Z 1 2 with
     | Some rows => map (map this) rows = [[5; 6; 7; 8]; [7; 8; 9; 10]]%Q
     | None => False
     end.
Proof.
  split; [|vm_compute; reflexivity].
  repeat (apply Forall_cons; [unfold idx_in_range; vm_compute; split; [discriminate|reflexivity]|]). apply Forall_nil.
Qed.

(* the signal of the repaired defect D10: the peak at 4 is isolated for distance 6 and is kept, whatever the last sample *)
Definition d10 : list Qc := qs [1; 0; 2; 0; 3; 0; 0; 0; 0; 0; 0; 4]%Z.
Definition half : height := HFin (Q2Qc (1 # 2)).

Example find_peaks_example :
  find_peaks d10 6 half = [4; 11]
  /\ find_peaks d10 2 half = [0; 2; 4; 11]
  /\ find_peaks (qs [2; 2; 1; 3; 3; 3]%Z) 2 HNegInf = [0; 3; 5]
  (* hypotheses of isolated_kept for the peak at 4 *)
  /\ is_candidate d10 half 4
  /\ (forall j, is_candidate d10 half j -> j <> 4 -> adist 4 j < 6 -> (dat d10 j < dat d10 4)%Qc)
  (* a dropped candidate (index 2) and its dominating neighbour (index 4) *)
  /\ is_candidate d10 half 2 /\ ~ In 2 (find_peaks d10 6 half)
  /\ is_candidate d10 half 4 /\ adist 2 4 < 6 /\ (dat d10 2 <= dat d10 4)%Qc.
Proof.
  split; [vm_compute; reflexivity|]. split; [vm_compute; reflexivity|]. split; [vm_compute; reflexivity|].
  split; [apply is_candidate_b_iff; vm_compute; reflexivity|].
  split.
  - intros j Hc Hne Hd.
    assert (Hall : forallb (fun j => negb (is_candidate_b d10 half j) || (j =? 4) || negb (adist 4 j <? 6)
                                     || qlt_b (dat d10 j) (dat d10 4)) (seq 0 12) = true) by (vm_compute; reflexivity).
    rewrite forallb_forall in Hall. specialize (Hall j).
    assert (Hj : In j (seq 0 12)).
    { apply in_seq. destruct Hc as [Hlt _]. assert (Hlen : length d10 = 12) by reflexivity. lia. }
    specialize (Hall Hj). apply is_candidate_b_iff in Hc. rewrite Hc in Hall. cbn [negb orb] in Hall.
    apply Nat.eqb_neq in Hne. rewrite Hne in Hall. apply Nat.ltb_lt in Hd. rewrite Hd in Hall. cbn [negb orb] in Hall.
    apply qlt_b_true. exact Hall.
  - split; [apply is_candidate_b_iff; vm_compute; reflexivity|].
    split; [vm_compute; intros [H|[H|[]]]; discriminate|].
    split; [apply is_candidate_b_iff; vm_compute; reflexivity|].
    split; [vm_compute; repeat constructor|].
    apply qle_b_true. vm_compute. reflexivity.
Qed.

Example find_width_example :
  let data := qs [0; 1; 1; 0; 2; 0; 0; 3; 3; 3]%Z in
  find_width data Positive (Q2Qc (1 # 2)) (WMin 1) = [(1, 3); (4, 5)]              (* the run 7..9 touches the end: not bracketed *)
  /\ find_width data Positive (Q2Qc (1 # 2)) (WMinMax 2 3) = [(1, 3)]
  /\ find_width data Negative (Q2Qc (1 # 2)) (WDelta 2 1) = [(3, 4); (5, 7)]
  /\ bracketed_run data Positive (Q2Qc (1 # 2)) 1 3 /\ width_ok (WMinMax 2 3) (3 - 1).
Proof.
  cbv zeta. split; [vm_compute; reflexivity|]. split; [vm_compute; reflexivity|]. split; [vm_compute; reflexivity|].
  apply (find_width_runs _ _ _ (WMinMax 2 3) 1 3 eq_refl). vm_compute. left. reflexivity.
Qed.
