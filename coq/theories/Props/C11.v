(* Props/C11.v — property C11: results are independent of run-time kernel selection and thread count.
   Only statements closed by [exact]; Print Assumptions beneath each.  Proofs: Proofs/Kernels.v, Proofs/KernelsFloat.v.

   Reading guide (Model/Kernels.v).  Arrays are functions on indices; numbers are exact rationals.  A partitioned batch
   [pbatch] = (pb_T traces, pb_x t s the stored sample, pb_idx t w the class index after the LUT, -1 = undeclared); the
   accumulators are a function on named cells [CSum s w p | CSq s w p | CCnt w p] (sum, sum_square, counters).
   [core1 S W castf sq1] is _accumulate_core_1 (prange over samples, trace loop, word loop, skip -1, counters only in the
   sample 0 iteration); [core2 S W P castf sq2 junk] is _accumulate_core_2 (mask written by column slices p*W..(p+1)*W
   over an np.empty content [junk], (mask.T @ f).reshape(P, W, S).T through the C-order flat index); [castf] is the
   conversion to the precision, [sq1]/[sq2] the squaring step of each kernel on a stored value (ANY functions);
   [run_batches ... cs bs m] runs the batches [bs] from state [m] with the kernel chosen by [cs] for each batch
   (false = kernel 1, true = kernel 2; more than 9 classes -> always kernel 1).  Template build: [tbatch], cells
   [TCnt p | TExi p s | TExxi p i j], [tcore1], [tcore2], [trun_batches].
   Micro-steps: a prange kernel [prange] gives per iteration a list of statements [cell += v]; each statement runs as a
   load into the iteration's private temporary [Ld i c] and a store [St i c v] (cell := temporary + v); [schedule k order r]:
   r is an interleaving ([nmerge]) of the micro-step lists of the iterations taken in the order [order] (a permutation
   of 0..n-1); [urun] executes micro-steps; [owned owner k]: every statement of iteration i writes a cell owned by i. *)
From Coq Require Import ZArith QArith Qcanon List Bool Permutation.
From ScaredV Require Import Lib.QcSum Lib.Interleave Run.Compare Model.Kernels Proofs.Kernels Proofs.KernelsFloat.
From ScaredV Require Model.Partitioned Model.Mia Generated.KernelWrites.
Import ListNotations.
Open Scope Qc_scope.

(* ---------------------------------------------------------------- core2_layout *)
(* the div/mod lemma on the flat index: entry [p][w][s] of reshape(P, W, S) is entry [p*W + w][s] of the matrix *)
Theorem flat_index_divmod : forall (S a s : nat), (s < S)%nat -> ((a * S + s) / S = a /\ (a * S + s) mod S = s)%nat.
Proof. exact flat_index. Qed.
Print Assumptions flat_index_divmod.

(* the mask column written for (class p, word w) is column p*W + w, whatever np.empty held *)
Theorem mask_column_layout : forall W P junk b p w t, (p < P)%nat -> (w < W)%nat ->
  bool_mask W P junk b t (p * W + w)%nat = tmp_bool b p t w.
Proof. exact bool_mask_spec. Qed.
Print Assumptions mask_column_layout.

(* entry [s][w][p] of what kernel 2 adds = sum over the traces whose word w has class p of f(t, s) *)
Theorem core2_layout : forall S W P junk b (f : nat -> nat -> Qc) s w p, (s < S)%nat -> (w < W)%nat -> (p < P)%nat ->
  k2_addend S W P junk b f s w p = qsum (map (fun t => if (pb_idx b t w =? Z.of_nat p)%Z then f t s else 0) (seq 0 (pb_T b))).
Proof. exact k2_addend_layout. Qed.
Print Assumptions core2_layout.

(* ---------------------------------------------------------------- core1_eq_core2 *)
(* all traces, all LUT-mapped data in -1 .. P-1, all shapes with at least one sample, the same squaring step, any
   conversion, any previous state, any np.empty content: the two kernels leave the same value in EVERY cell *)
Theorem core1_eq_core2 : forall S W P castf sq1 sq2 junk,
  (forall v, sq1 v = sq2 v) -> (0 < S)%nat ->
  forall b, pbatch_ok W P b -> forall m c, core1 S W castf sq1 b m c = core2 S W P castf sq2 junk b m c.
Proof. exact core1_eq_core2_thm. Qed.
Print Assumptions core1_eq_core2.

(* both are "add the class sums of the batch" *)
Theorem core1_adds_class_sums : forall S W P castf sq1 b, pbatch_ok W P b -> (0 < S)%nat ->
  forall m c, core1 S W castf sq1 b m c = m c + spec_add S W P castf sq1 b c.
Proof. exact core1_spec. Qed.
Print Assumptions core1_adds_class_sums.

Theorem core2_adds_class_sums : forall S W P castf sq2 junk b m c,
  core2 S W P castf sq2 junk b m c = m c + spec_add S W P castf sq2 b c.
Proof. exact core2_spec. Qed.
Print Assumptions core2_adds_class_sums.

(* ---------------------------------------------------------------- the squaring step *)
(* true by construction of the model (both kernels are given cast-then-square); its content is the C-tie *)
Theorem sq_cast_first_agree : forall d p x, sq_kernel1 d p x = sq_kernel2 d p x.
Proof. exact sq_cast_first_agree_thm. Qed.
Print Assumptions sq_cast_first_agree.

(* squaring in the storage type (kernel 1 before 96ffd02) differs: int64 2^33 wraps to 0 instead of 2^66; the float32
   nearest to 1000.123 squared in float32 is not its square, which float64 holds exactly *)
Theorem sq_storage_refuted :
  (sq_storage DI64 F64 w_i64 = 0 /\ sq_cast_first DI64 F64 w_i64 = qz (2 ^ 66))
  /\ sq_storage DF32 F64 w_f32 <> sq_cast_first DF32 F64 w_f32
  /\ (cast DI64 F64 w_i64 = w_i64 /\ cast DF32 F64 w_f32 = w_f32 /\ fround F32 w_f32 = w_f32)
  /\ sq_cast_first DF32 F64 w_f32 = w_f32 * w_f32.
Proof. exact sq_storage_refuted_thm. Qed.
Print Assumptions sq_storage_refuted.

(* ... and then the kernels differ: three int64 traces of 2^33 accumulate 0 in kernel 1 and 3 * 2^66 in kernel 2 *)
Theorem storage_square_kernels_differ :
  pbatch_ok 1 1 wrap_batch
  /\ core1 1 1 (cast DI64 F64) (sq_storage DI64 F64) wrap_batch (fun _ => 0) (CSq 0 0 0) = 0
  /\ core2 1 1 1 (cast DI64 F64) (sq_cast_first DI64 F64) zero_junk wrap_batch (fun _ => 0) (CSq 0 0 0) = qz (3 * 2 ^ 66).
Proof. exact storage_square_kernels_differ_thm. Qed.
Print Assumptions storage_square_kernels_differ.

(* the float32 witness against Flocq's binary32 (depends on the std-lib axioms of Flocq's real-number layer) *)
Theorem f32_witness_flocq :
  Q2Qc (q_of_bits32 0x447A07DF) = w_f32
  /\ Q2Qc (q_of_bits32 (f32_mul_bits 0x447A07DF 0x447A07DF)) = sq_storage DF32 F64 w_f32
  /\ f32_mul_bits 0x447A07DF 0x447A07DF = 0x49743360%Z
  /\ sq_storage DF32 F64 w_f32 <> sq_cast_first DF32 F64 w_f32.
Proof. exact f32_witness_flocq_thm. Qed.
Print Assumptions f32_witness_flocq.

(* the model's rounding is Flocq's correctly rounded multiplication on the 20 + 10 listed bit-pattern pairs (a bounded
   statement: validation of [round_to], not a theorem about all floats) *)
Theorem round_to_is_flocq_on_samples : forallb agree32 samples32 = true /\ forallb agree64 samples64 = true.
Proof. exact round_to_is_flocq_on_samples_thm. Qed.
Print Assumptions round_to_is_flocq_on_samples.

(* ---------------------------------------------------------------- kernel_choice_irrelevant *)
(* for EVERY two lists of choices (2^batches each; a short list is completed with kernel 1), every batch list, every
   starting state: the same value in every cell *)
Theorem kernel_choice_irrelevant : forall S W P castf sq1 sq2 junk,
  (forall v, sq1 v = sq2 v) -> (0 < S)%nat ->
  forall bs, Forall (pbatch_ok W P) bs ->
  forall cs cs' m c, run_batches S W P castf sq1 sq2 junk cs bs m c = run_batches S W P castf sq1 sq2 junk cs' bs m c.
Proof. exact kernel_choice_irrelevant_thm. Qed.
Print Assumptions kernel_choice_irrelevant.

(* ... namely the class sums of all the batches *)
Theorem any_choice_accumulates_class_sums : forall S W P castf sq1 sq2 junk,
  (forall v, sq1 v = sq2 v) -> (0 < S)%nat ->
  forall bs, Forall (pbatch_ok W P) bs ->
  forall cs m c, run_batches S W P castf sq1 sq2 junk cs bs m c = m c + spec_total S W P castf sq2 bs c.
Proof. exact run_batches_spec. Qed.
Print Assumptions any_choice_accumulates_class_sums.

(* ... which is the accumulator of Model/Partitioned.v, from which Props/C04.v proves that compute() is the ANOVA / NICV /
   SNR definition: so the results of compute() do not depend on the choices either *)
Theorem kernels_refine_partitioned : forall S W junk e parts batches cs s w p,
  (s < S)%nat -> (w < W)%nat -> (p < length parts)%nat ->
  let m := run_batches S W (length parts) idq sqq sqq junk cs (map (pbatch_of e parts) batches) (fun _ => 0) in
  (m (CCnt w p), m (CSum s w p), m (CSq s w p))
  = nth p (Partitioned.feed_batches parts (map (erows e w s) batches)) Partitioned.t0.
Proof. exact kernels_refine_partitioned_thm. Qed.
Print Assumptions kernels_refine_partitioned.

(* ---------------------------------------------------------------- template build *)
(* [tbatch_ok]: class indices in -1 .. P-1 and stored values that the conversion leaves unchanged (kernel 1 multiplies
   the converted sample with the STORED row, kernel 2 converts the row first) *)
Theorem template_core1_eq_core2 : forall S P castf, (0 < S)%nat ->
  forall b, tbatch_ok S P castf b -> forall m c, tcore1 S castf b m c = tcore2 S P castf b m c.
Proof. exact tcore1_eq_tcore2_thm. Qed.
Print Assumptions template_core1_eq_core2.

Theorem template_kernel_choice_irrelevant : forall S P castf, (0 < S)%nat ->
  forall bs, Forall (tbatch_ok S P castf) bs ->
  forall cs cs' m c, trun_batches S P castf cs bs m c = trun_batches S P castf cs' bs m c.
Proof. exact tkernel_choice_irrelevant_thm. Qed.
Print Assumptions template_kernel_choice_irrelevant.

Theorem template_any_choice_accumulates : forall S P castf, (0 < S)%nat ->
  forall bs, Forall (tbatch_ok S P castf) bs ->
  forall cs m c, trun_batches S P castf cs bs m c = m c + tspec_total S P castf bs c.
Proof. exact trun_batches_spec. Qed.
Print Assumptions template_any_choice_accumulates.

(* ---------------------------------------------------------------- prange_schedule_irrelevant *)
(* generic: any cell type with a correct equality test, any kernel whose iterations write cells they own: EVERY schedule
   (any order of the iterations, any interleaving of their loads and stores) leaves in memory the sequential state *)
Theorem prange_schedule_irrelevant : forall (cell : Type) (ceqb : cell -> cell -> bool),
  (forall a b, ceqb a b = true <-> a = b) ->
  forall (owner : cell -> nat) (k : prange cell), owned owner k ->
  forall order r m regs, schedule k order r ->
  forall c, urun cell ceqb (ustart cell m regs) r (Mem c) = pr_run cell ceqb k m c.
Proof. exact schedule_irrelevant. Qed.
Print Assumptions prange_schedule_irrelevant.

(* two workers with any split of the iterations, any own order, any interleaving of the two streams *)
Theorem prange_two_workers : forall (cell : Type) (ceqb : cell -> cell -> bool),
  (forall a b, ceqb a b = true <-> a = b) ->
  forall (owner : cell -> nat) (k : prange cell), owned owner k ->
  forall o1 o2 r m regs, Permutation (o1 ++ o2) (seq 0 (pr_n k)) ->
  merge (concat (map (usteps cell k) o1)) (concat (map (usteps cell k) o2)) r ->
  forall c, urun cell ceqb (ustart cell m regs) r (Mem c) = pr_run cell ceqb k m c.
Proof. exact two_workers_irrelevant. Qed.
Print Assumptions prange_two_workers.

(* the five kernels write cells owned by the iteration: sum[s,.,.], sum_square[s,.,.] by sample s and counters by sample 0;
   _exi[.,s], row s of _exxi[.] by sample s and _counters by sample 0; everything of class p by iteration p;
   accumulators[s,...] by sample s; sum[i], sum_squared[i] by sample i *)
Theorem kernels_write_owned_cells :
  (forall S W castf sq1 b, owned pcell_owner (k1_prange S W castf sq1 b))
  /\ (forall S castf b, owned tcell_owner1 (t1_prange S castf b))
  /\ (forall S P castf b, owned tcell_owner2 (t2_prange S P castf b))
  /\ (forall S W edges est b, owned mcell_owner (mia_prange S W edges est b))
  /\ (forall S castf T x, owned ucell_owner (tt_prange S castf T x)).
Proof. exact (conj k1_owned (conj t1_owned (conj t2_owned (conj mia_owned tt_owned)))). Qed.
Print Assumptions kernels_write_owned_cells.

Theorem partitioned_kernel1_schedule_irrelevant : forall S W castf sq1 b order r m regs,
  schedule (k1_prange S W castf sq1 b) order r ->
  forall c, urun pcell pcell_eqb (ustart pcell m regs) r (Mem c) = core1 S W castf sq1 b m c.
Proof. exact part1_schedule_thm. Qed.
Print Assumptions partitioned_kernel1_schedule_irrelevant.

Theorem template_kernel1_schedule_irrelevant : forall S castf b order r m regs,
  schedule (t1_prange S castf b) order r ->
  forall c, urun tcell tcell_eqb (ustart tcell m regs) r (Mem c) = tcore1 S castf b m c.
Proof. exact templ1_schedule_thm. Qed.
Print Assumptions template_kernel1_schedule_irrelevant.

Theorem template_kernel2_schedule_irrelevant : forall S P castf b order r m regs,
  schedule (t2_prange S P castf b) order r ->
  forall c, urun tcell tcell_eqb (ustart tcell m regs) r (Mem c) = tcore2 S P castf b m c.
Proof. exact templ2_schedule_thm. Qed.
Print Assumptions template_kernel2_schedule_irrelevant.

Theorem mia_kernel_schedule_irrelevant : forall S W edges est b order r m regs,
  schedule (mia_prange S W edges est b) order r ->
  forall c, urun mcell mcell_eqb (ustart mcell m regs) r (Mem c) = pr_run mcell mcell_eqb (mia_prange S W edges est b) m c.
Proof. exact mia_schedule_thm. Qed.
Print Assumptions mia_kernel_schedule_irrelevant.

Theorem ttest_kernel_schedule_irrelevant : forall S castf T x order r m regs,
  schedule (tt_prange S castf T x) order r ->
  forall c, urun ucell ucell_eqb (ustart ucell m regs) r (Mem c) = pr_run ucell ucell_eqb (tt_prange S castf T x) m c.
Proof. exact ttest_schedule_thm. Qed.
Print Assumptions ttest_kernel_schedule_irrelevant.

(* the t-test kernel, sequentially: sum[i] += column sum, sum_squared[i] += column . column *)
Theorem ttest_kernel_is_column_sums : forall S castf T x m i, (i < S)%nat ->
  pr_run ucell ucell_eqb (tt_prange S castf T x) m (USum i) = m (USum i) + qsum (map (fun t => castf (x t i)) (seq 0 T))
  /\ pr_run ucell ucell_eqb (tt_prange S castf T x) m (USq i) = m (USq i) + qsum (map (fun t => castf (x t i) * castf (x t i)) (seq 0 T)).
Proof. exact ttest_kernel_cells. Qed.
Print Assumptions ttest_kernel_is_column_sums.

(* the premise is needed: a prange body that accumulates into ONE shared scalar has no owner assignment, and the schedule
   load 0, load 1, store 0, store 1 loses an update (1 instead of 2) *)
Theorem shared_scalar_races :
  (forall owner, ~ owned owner shared_prange)
  /\ schedule shared_prange [0; 1]%nat race_schedule
  /\ urun nat Nat.eqb (ustart nat (fun _ => 0) (fun _ => 0)) race_schedule (Mem 0%nat) = 1
  /\ pr_run nat Nat.eqb shared_prange (fun _ => 0) 0%nat = 1 + 1.
Proof. exact shared_scalar_races_thm. Qed.
Print Assumptions shared_scalar_races.

(* ---------------------------------------------------------------- run-length encoded batches (population boundaries) *)
(* the boundary cases of the correspondence check hold batches of thousands of traces as (row, multiplicity) runs and compare
   the accumulators with weighted sums over the runs: these ARE the class sums of the expanded batch, for every run list *)
Theorem runlength_sums_are_class_sums : forall e parts f w p s rl,
  class_sum (pbatch_of e parts (expand_rl rl)) f w p s = rl_class_sum e parts f w p s rl.
Proof. exact rl_class_sum_thm. Qed.
Print Assumptions runlength_sums_are_class_sums.

Theorem runlength_sums_are_template_class_sums : forall e parts (g : list Z -> Qc) p rl,
  tclass_sum (tbatch_of e parts (expand_rl rl)) p (fun t => g (fst (nth t (expand_rl rl) ([], []))))
  = wsum (fun r => if (lutz parts (nth 0%nat (snd r) 0%Z) =? Z.of_nat p)%Z then g (fst r) else 0) rl.
Proof. exact rl_tclass_sum_thm. Qed.
Print Assumptions runlength_sums_are_template_class_sums.

(* ---------------------------------------------------------------- the footprints, read off the source (T-tie) *)
(* over the table regenerated from /repo on every run: in the body of each of the five prange loops every store goes to an
   array private to the iteration, or is under `if ivar == 0` (and then every store to that array is), or carries the
   induction variable at one fixed index position of that array; no stored shared array is read by subscript, no scalar is
   reduced; and the arrays / positions are those the owner functions of the model assume *)
Theorem prange_write_targets_disjoint :
  forallb kernel_writes_ok KernelWrites.kernel_writes = true
  /\ map kw_summary KernelWrites.kernel_writes = model_footprints.
Proof. split; vm_compute; reflexivity. Qed.
Print Assumptions prange_write_targets_disjoint.

(* ---------------------------------------------------------------- non-vacuity *)
Local Open Scope Z_scope.
(* 2 batches, 3 samples, 2 words, 3 classes (class list [4; 1; 7]; 9 is undeclared) *)
Definition ex_parts : list Z := [4; 1; 7].
Definition ex_b1 : list crow := [([1; 2; 3], [4; 1]); ([4; 5; 6], [1; 1]); ([7; 8; 9], [7; 9])].
Definition ex_b2 : list crow := [([1; 1; 1], [4; 4]); ([2; 0; 5], [9; 7])].
Definition ex_bs : list pbatch := map (pbatch_of 0 ex_parts) [ex_b1; ex_b2].

Example hypotheses_met : Forall (pbatch_ok 2 3) ex_bs /\ (0 < 3)%nat /\ (forall v, sqq v = sqq v).
Proof.
  split; [|split; [repeat constructor|reflexivity]].
  unfold ex_bs. cbn [map]. apply Forall_cons; [apply pbatch_of_ok|apply Forall_cons; [apply pbatch_of_ok|apply Forall_nil]].
Qed.

Definition cells_of (m : pmem) : list Q :=
  map (fun c => this (m c)) [CCnt 0 0; CCnt 0 1; CCnt 1 1; CCnt 1 2; CSum 0 0 0; CSum 2 1 1; CSq 1 0 1; CSq 2 1 2; CSum 0 1 0].

(* all four choice lists over the two batches give the same, non-trivial, accumulators *)
Example four_choice_lists_agree :
  map (fun cs => cells_of (pfinal 3 2 3 cs ex_bs)) [[false; false]; [false; true]; [true; false]; [true; true]]
  = repeat [2; 1; 2; 1; 2; 9; 25; 25; 1]%Q 4.
Proof. vm_compute. reflexivity. Qed.

(* dropping the counter guard or the != -1 test changes the state (so the model's kernel 1 is not trivially kernel 2) *)
Example undeclared_is_skipped :
  this (pfinal 3 2 3 [false] [pbatch_of 0 ex_parts [([5; 5; 5], [9; 9])]] (CCnt 0 2)) = 0%Q
  /\ this (pfinal 3 2 3 [true] [pbatch_of 0 ex_parts [([5; 5; 5], [9; 9])]] (CCnt 0 2)) = 0%Q.
Proof. vm_compute. split; reflexivity. Qed.

(* template build: 2 batches, 2 samples, 3 classes *)
Definition ex_tbs : list tbatch := map (tbatch_of 0 ex_parts) [[([1; 2], [4]); ([3; 5], [1]); ([2; 2], [4])]; [([7; 1], [9]); ([4; 4], [7])]].
Example template_hypotheses_met : Forall (tbatch_ok 2 3 idq) ex_tbs.
Proof.
  assert (H : forall rows, tbatch_ok 2 3 idq (tbatch_of 0 ex_parts rows))
    by (intros rows; split; [intros t _; apply lutz_range|reflexivity]).
  unfold ex_tbs. cbn [map]. apply Forall_cons; [apply H|apply Forall_cons; [apply H|apply Forall_nil]].
Qed.
Example template_choice_lists_agree :
  map (fun cs => map (fun c => this (tfinal 2 3 cs ex_tbs c)) [TCnt 0; TCnt 1; TCnt 2; TExi 0 0; TExi 0 1; TExxi 0 0 1; TExxi 0 1 1; TExxi 2 0 0])
      [[false; false]; [false; true]; [true; false]; [true; true]]
  = repeat [2; 1; 1; 3; 4; 6; 8; 16]%Q 4.
Proof. vm_compute. reflexivity. Qed.

(* a schedule of partitioned kernel 1 that is not sequential: 3 samples; order 2, 0, 1; the micro-steps of samples 2 and 0
   alternate, then sample 1 *)
Definition ex_k1 : prange pcell := k1_prange 3 2 idq sqq (pbatch_of 0 ex_parts ex_b1).
Definition ex_sched : list (ustep pcell) := alternate (usteps pcell ex_k1 2) (usteps pcell ex_k1 0) ++ usteps pcell ex_k1 1.
Example schedule_instance :
  length ex_sched = 70%nat
  /\ map (fun c => this (urun pcell pcell_eqb (ustart pcell (fun _ => Q2Qc 0) (fun _ => Q2Qc 0)) ex_sched (Mem c))) [CCnt 0 0; CSum 2 1 1; CSq 1 0 1]
     = map (fun c => this (core1 3 2 idq sqq (pbatch_of 0 ex_parts ex_b1) (fun _ => Q2Qc 0) c)) [CCnt 0 0; CSum 2 1 1; CSq 1 0 1].
Proof. vm_compute. split; reflexivity. Qed.

(* the correspondence check accepts a faithful observation and rejects the edits named in the design: counters counted by
   every sample iteration (x3), the undeclared value counted, a kernel log that differs from the forced choices *)
Definition mk_case (cnt : list (list fval)) (log : list bool) : pcase :=
  {| pc_metric := Partitioned.NICV; pc_prec := F64; pc_parts := [0; 1]; pc_exp := 0;
     pc_batches := [[([1; 2], [0]); ([3; 5], [1])]; [([2; 2], [0]); ([7; 1], [5])]];
     pc_obs := [{| po_runs := [{| kr_choices := [false; true]; kr_threads := 2; kr_log := log |}];
                   po_result := [[Fin 3 (-2); Fin 1 0]];
                   po_cnt := cnt;
                   po_sum := [[[Fin 3 0; Fin 3 0]]; [[Fin 4 0; Fin 5 0]]];
                   po_sq := [[[Fin 5 0; Fin 9 0]]; [[Fin 8 0; Fin 25 0]]] |}] |}.
Example pcase_check_discriminates :
  pcase_check (mk_case [[Fin 2 0; Fin 1 0]] [false; true]) = true
  /\ pcase_check (mk_case [[Fin 4 0; Fin 2 0]] [false; true]) = false
  /\ pcase_check (mk_case [[Fin 2 0; Fin 2 0]] [false; true]) = false
  /\ pcase_check (mk_case [[Fin 2 0; Fin 1 0]] [false; false]) = false.
Proof. vm_compute. repeat split; reflexivity. Qed.

(* run-length boundary case: class 0 has 1024 + 1 traces of sample 3 and 2, class 1 has 512; a doubled class (the rows[-0:]
   slip) is rejected; thread-count cases: uint8-like samples 200, 255 (squares need the precision), a histogram *)
Definition mk_b (sum0 : fval) : kcase :=
  KBP {| bp_prec := F32; bp_parts := [0; 1];
         bp_batches := [[(([3], [0]), 1024%positive); (([2], [1]), 512%positive); (([2], [0]), 1%positive); (([7], [5]), 9%positive)]];
         bp_obs := [{| po_runs := [{| kr_choices := [true]; kr_threads := 2; kr_log := [true] |}]; po_result := [[NaN]];
                       po_cnt := [[Fin 1025 0; Fin 512 0]]; po_sum := [[[sum0; Fin 1024 0]]]; po_sq := [[[Fin 9220 0; Fin 2048 0]]] |}] |}.
Definition mk_tt (sq0 : fval) : kcase :=
  KTT {| tt_prec := F32; tt_exp := 0; tt_batches := [[[200]; [255]]; [[1]]];
         tt_obs := [{| tt_threads := [1; 2; 16]%nat; tt_n := 3; tt_sum := [Fin 456 0]; tt_sq := [sq0]; tt_mean := [Fin 152 0];
                       tt_var := [Fin 12190379 (-10)] |}] |}.
Definition mk_mi (c00 : fval) : kcase :=
  KMI {| mi_parts := [0; 1]; mi_exp := 0; mi_edges := [0; 4; 8]; mi_batches := [[([0], [0]); ([4], [0]); ([8], [1]); ([9], [1]); ([3], [7])]];
         mi_obs := [{| mi_threads := [1; 8]%nat; mi_acc := [[[[c00]; [Fin 0 0]]; [[Fin 1 0]; [Fin 1 0]]]]; mi_result := [[NaN]] |}] |}.
Example new_checks_discriminate :
  kcase_check (mk_b (Fin 3074 0)) = true /\ kcase_check (mk_b (Fin 6146 0)) = false
  /\ kcase_check (mk_tt (Fin 105026 0)) = true /\ kcase_check (mk_tt (Fin 98 0)) = false
  /\ kcase_check (mk_mi (Fin 1 0)) = true /\ kcase_check (mk_mi (Fin 2 0)) = false.
Proof. vm_compute. repeat split; reflexivity. Qed.
