(* Props/C02.v — property C02: Analysis.run on a Container equals the one-shot statistic on the whole trace set.
   Only statements closed by [exact]; Print Assumptions beneath each.  Proofs are in Proofs/Container.v and
   Proofs/Analysis.v; the definitions in Model/Container.v and Model/Analysis.v.

   Reading guide.  A trace set is a list of (samples row, metadata) pairs : list (X * M) — cutting the list cuts samples
   and metadata together, as ths[slice] does.  A [container X M] holds the set [c_rows], the frame [c_fr] acting on one
   row, the row-wise preprocess chain [c_chain] (list order) and [c_bs] = container.batch_size.
   The distinguisher is ANY additive accumulator in the sense of Model/Accum.v: a state type St with [zero], [plus]
   (associative, zero neutral on both sides), a per-row contribution [contrib : X * D -> St] and a pure
   [comp : St -> O]; [upd s rows] = plus s (sum of the contributions of rows) is one update() call (property C01
   establishes, class by class, that each real distinguisher has this shape).  [sf] is the selection function on the
   metadata of one trace, [model] the leakage model, [disc] the discriminant, [cs] the convergence_step (None / Some k).
   [run cs st c] is Analysis.run(container) on an object in state st; [rows_of c] is the SPEC: one row per trace of
   the whole set, in order: (chain (frame samples), model (sf metadata)) of that same trace.
   The real compute() raises on an object that has processed no trace, so containers are non-empty throughout. *)
From Coq Require Import ZArith List Bool Lia.
From ScaredV Require Import Run.Compare Model.Accum Model.Models Model.Container Model.Analysis Proofs.Container Proofs.Analysis.
Import ListNotations.
Local Open Scope nat_scope.

(* slices_cover: for every batch size bs >= 1 the slices built as in _TracesBatchIterable.__init__ cut the set into
   sub-sets whose concatenation is the set itself (every trace exactly once, in order, with its own metadata since
   pairs are cut together); none is empty; there are ceil(N / bs) of them; all but the last have bs traces; the last
   has N mod bs traces when that is not zero (and bs otherwise). *)
Theorem slices_cover : forall (A : Type) (xs : list A) (bs : nat),
  1 <= bs ->
  let bts := batches_of xs bs in
  concat bts = xs
  /\ Forall (fun b => b <> []) bts
  /\ length bts = ceil_div (length xs) bs
  /\ (forall i, i + 1 < length bts -> length (nth i bts []) = bs)
  /\ (length xs mod bs <> 0 -> length (last bts []) = length xs mod bs)
  /\ (length xs mod bs = 0 -> Forall (fun b => length b = bs) bts).
Proof. exact slices_cover_thm. Qed.
Print Assumptions slices_cover.

Example slices_cover_example :
  slices 7 3 = [(0, Some 3); (3, Some 6); (6, None)]
  /\ batches_of [10; 11; 12; 13; 14; 15; 16] 3 = [[10; 11; 12]; [13; 14; 15]; [16]]      (* tail batch of one trace *)
  /\ batches_of [10; 11; 12; 13; 14; 15] 3 = [[10; 11; 12]; [13; 14; 15]]                (* N = 2 bs: no tail *)
  /\ batches_of [10; 11] 3 = [[10; 11]]                                                  (* N < bs *)
  /\ ceil_div 7 3 = 3.
Proof. vm_compute. repeat split; reflexivity. Qed.

(* run_eq_oneshot: whatever the batch size (>= 1) and the convergence setting, run() leaves the accumulators equal to
   ONE update with the rows of the whole set, and results / scores are comp / disc (comp ...) of that state. *)
Theorem run_eq_oneshot :
  forall (X M V D St O Sc : Type) (zero : St) (plus : St -> St -> St) (contrib : X * D -> St) (comp : St -> O),
  (forall a b c : St, plus a (plus b c) = plus (plus a b) c) ->
  (forall a : St, plus a zero = a) ->
  (forall a : St, plus zero a = a) ->
  forall (sf : M -> V) (model : V -> D) (disc : O -> Sc) (cs : option nat) (st : ast St O Sc) (c : container X M),
  match cs with Some k => 1 <= k | None => True end ->
  c_rows c <> [] /\ 1 <= c_bs c ->
  let st' := run X M V D St O Sc zero plus contrib comp sf model disc cs st c in
  acc st' = upd St (X * D) zero plus contrib (acc st) (rows_of X M V D sf model c)
  /\ results st' = Some (comp (upd St (X * D) zero plus contrib (acc st) (rows_of X M V D sf model c)))
  /\ scores st' = Some (disc (comp (upd St (X * D) zero plus contrib (acc st) (rows_of X M V D sf model c))))
  /\ processed st' = processed st + length (c_rows c).
Proof. exact run_eq_oneshot_thm. Qed.
Print Assumptions run_eq_oneshot.

(* ... in particular on a fresh object: results = comp of the one-shot accumulation from zero *)
Theorem run_fresh_eq_oneshot :
  forall (X M V D St O Sc : Type) (zero : St) (plus : St -> St -> St) (contrib : X * D -> St) (comp : St -> O),
  (forall a b c : St, plus a (plus b c) = plus (plus a b) c) ->
  (forall a : St, plus a zero = a) ->
  (forall a : St, plus zero a = a) ->
  forall (sf : M -> V) (model : V -> D) (disc : O -> Sc) (cs : option nat) (c : container X M),
  match cs with Some k => 1 <= k | None => True end ->
  c_rows c <> [] /\ 1 <= c_bs c ->
  let st' := run X M V D St O Sc zero plus contrib comp sf model disc cs (fresh St O Sc zero) c in
  results st' = Some (comp (upd St (X * D) zero plus contrib zero (rows_of X M V D sf model c)))
  /\ scores st' = Some (disc (comp (upd St (X * D) zero plus contrib zero (rows_of X M V D sf model c))))
  /\ processed st' = length (c_rows c).
Proof. exact run_fresh_eq_oneshot_thm. Qed.
Print Assumptions run_fresh_eq_oneshot.

(* runs_concat: several run() calls (each container with its own frame, chain and batch size) accumulate as ONE update
   with all the rows of all the containers, in order. *)
Theorem runs_concat :
  forall (X M V D St O Sc : Type) (zero : St) (plus : St -> St -> St) (contrib : X * D -> St) (comp : St -> O),
  (forall a b c : St, plus a (plus b c) = plus (plus a b) c) ->
  (forall a : St, plus a zero = a) ->
  (forall a : St, plus zero a = a) ->
  forall (sf : M -> V) (model : V -> D) (disc : O -> Sc) (cs : option nat) (runs : list (container X M)),
  match cs with Some k => 1 <= k | None => True end ->
  Forall (fun c => c_rows c <> [] /\ 1 <= c_bs c) runs ->
  runs <> [] ->
  let st' := run_seq X M V D St O Sc zero plus contrib comp sf model disc cs (fresh St O Sc zero) runs in
  results st' = Some (comp (upd St (X * D) zero plus contrib zero (all_rows X M V D sf model runs)))
  /\ scores st' = Some (disc (comp (upd St (X * D) zero plus contrib zero (all_rows X M V D sf model runs))))
  /\ processed st' = length (all_rows X M V D sf model runs).
Proof. exact run_seq_eq_oneshot_thm. Qed.
Print Assumptions runs_concat.

(* ... and two runs on c1 then c2 leave the object exactly as one run on the concatenated set c12 (same frame and
   chain), whatever the three batch sizes and the state before *)
Theorem two_runs_eq_one_run_on_concatenation :
  forall (X M V D St O Sc : Type) (zero : St) (plus : St -> St -> St) (contrib : X * D -> St) (comp : St -> O),
  (forall a b c : St, plus a (plus b c) = plus (plus a b) c) ->
  (forall a : St, plus a zero = a) ->
  (forall a : St, plus zero a = a) ->
  forall (sf : M -> V) (model : V -> D) (disc : O -> Sc) (cs : option nat) (st : ast St O Sc)
         (c1 c2 c12 : container X M),
  match cs with Some k => 1 <= k | None => True end ->
  c_rows c1 <> [] /\ 1 <= c_bs c1 ->
  c_rows c2 <> [] /\ 1 <= c_bs c2 ->
  1 <= c_bs c12 ->
  c_rows c12 = c_rows c1 ++ c_rows c2 ->
  c_fr c1 = c_fr c12 -> c_fr c2 = c_fr c12 -> c_chain c1 = c_chain c12 -> c_chain c2 = c_chain c12 ->
  let a := run X M V D St O Sc zero plus contrib comp sf model disc cs
             (run X M V D St O Sc zero plus contrib comp sf model disc cs st c1) c2 in
  let b := run X M V D St O Sc zero plus contrib comp sf model disc cs st c12 in
  acc a = acc b /\ results a = results b /\ scores a = scores b /\ processed a = processed b.
Proof. exact runs_concat_thm. Qed.
Print Assumptions two_runs_eq_one_run_on_concatenation.

(* a run() that raises while its batch number k is prepared (failing preprocess / selection function / model) leaves the
   object with exactly the first k batches = the first k * bs traces of that container accumulated and counted ([bs] the
   derived batch size); the following run() calls go on from there (run_eq_oneshot holds from ANY state), so a history
   A, B interrupted, C ends with the one-shot statistic on A ++ B[: k bs] ++ C.  (C16 run_keeps_accepted_prefix_only is the
   same fact for update().) *)
Theorem interrupted_run_keeps_processed_prefix :
  forall (X M V D St O Sc : Type) (zero : St) (plus : St -> St -> St) (contrib : X * D -> St) (comp : St -> O),
  (forall a b c : St, plus a (plus b c) = plus (plus a b) c) ->
  (forall a : St, plus a zero = a) ->
  (forall a : St, plus zero a = a) ->
  forall (sf : M -> V) (model : V -> D) (disc : O -> Sc) (cs : option nat) (st : ast St O Sc) (c : container X M) (k : nat),
  match cs with Some s => 1 <= s | None => True end ->
  1 <= c_bs c -> k <= length (c_rows c) / eff_bs cs (c_bs c) ->
  let st' := run_interrupted X M V D St O Sc zero plus contrib comp sf model disc cs st c k in
  acc st' = upd St (X * D) zero plus contrib (acc st) (firstn (k * eff_bs cs (c_bs c)) (rows_of X M V D sf model c))
  /\ processed st' = processed st + k * eff_bs cs (c_bs c).
Proof. exact run_interrupted_thm. Qed.
Print Assumptions interrupted_run_keeps_processed_prefix.

(* scores_are_discriminant: after any sequence of run() calls (no hypothesis at all) scores = discriminant(results) *)
Theorem scores_are_discriminant :
  forall (X M V D St O Sc : Type) (zero : St) (plus : St -> St -> St) (contrib : X * D -> St) (comp : St -> O)
         (sf : M -> V) (model : V -> D) (disc : O -> Sc) (cs : option nat) (runs : list (container X M)),
  scores (run_seq X M V D St O Sc zero plus contrib comp sf model disc cs (fresh St O Sc zero) runs)
  = option_map disc (results (run_seq X M V D St O Sc zero plus contrib comp sf model disc cs (fresh St O Sc zero) runs)).
Proof. exact scores_are_discriminant_thm. Qed.
Print Assumptions scores_are_discriminant.

(* frame_before_preprocess: the rows update() receives for a sub-set are (chain (frame samples), model (sf metadata)) of
   each trace — the frame is applied BEFORE the chain, the chain in list order.  (True of the model by construction:
   its content is carried by the correspondence check, which compares every update() of the real code with it.) *)
Theorem frame_before_preprocess :
  forall (X M V D : Type) (sf : M -> V) (model : V -> D) (c : container X M) (sub : list (X * M)),
  fed_rows X M V D sf model c sub
  = map (fun r => (chain_row (c_chain c) (c_fr c (fst r)), model (sf (snd r)))) sub
  /\ forall (p1 p2 : X -> X) (x : X), chain_row [p1; p2] x = p2 (p1 x).
Proof. exact frame_before_preprocess_thm. Qed.
Print Assumptions frame_before_preprocess.

(* the order matters: a frame and a chain that do not commute, a chain whose reversal differs *)
Example frame_chain_do_not_commute :
  let fr := select 0%Z (FSlice 1 3 1) in
  let row := [1; 2; 3; 4]%Z in
  chain_row (chain_fun [PCumsum]) (fr row) = [2; 5]%Z
  /\ fr (chain_row (chain_fun [PCumsum]) row) = [3; 6]%Z
  /\ chain_row (chain_fun [PAdd1; PSquare]) row = [4; 9; 16; 25]%Z
  /\ chain_row (chain_fun [PSquare; PAdd1]) row = [2; 5; 10; 17]%Z.
Proof. vm_compute. repeat split; reflexivity. Qed.

(* batch_size_pos: the batch size rule of Container._compute_batch_size gives a batch size >= 1
   - for an int setting n (set_batch_size refuses n <= 0): n itself;
   - for a MB float setting on a non-empty frame: at least 10;
   - for a table whose first threshold is not above max(trace_size, input_size) and whose sizes are >= 1: one of the
     sizes of the table (whatever the order of the other thresholds).
   The corners where the code produces NO batch size are stated below (batch_size_corners). *)
Theorem batch_size_pos : forall (s : bs_setting) (trace_size input_size itemsize : Z),
  match s with
  | BInt n => (0 < n)%Z -> batch_size_rule s trace_size input_size itemsize = Some n /\ (1 <= n)%Z
  | BMb bytes => (0 < input_size * itemsize)%Z ->
                 exists b, batch_size_rule s trace_size input_size itemsize = Some b /\ (10 <= b)%Z
  | BTable t => t <> [] -> (fst (hd (0, 0) t) <= Z.max trace_size input_size)%Z ->
                Forall (fun e => 1 <= snd e)%Z t ->
                exists b, batch_size_rule s trace_size input_size itemsize = Some b /\ (1 <= b)%Z /\ In b (map snd t)
  end.
Proof. exact batch_size_pos_thm. Qed.
Print Assumptions batch_size_pos.

(* the MB rule floors to the most significant digit: digit * 10^d, 1 <= digit <= 9, within one unit of that digit *)
Theorem mb_rule_floors_to_most_significant_digit : forall (num den : Z),
  (1 <= num / den)%Z ->
  exists d digit, floor_msd num den = (digit * 10 ^ Z.of_nat d)%Z /\ (1 <= digit <= 9)%Z
                  /\ (floor_msd num den <= num / den < floor_msd num den + 10 ^ Z.of_nat d)%Z.
Proof. exact floor_msd_spec. Qed.
Print Assumptions mb_rule_floors_to_most_significant_digit.

(* Honest corners (NOT covered by batch_size_pos): set_batch_size accepts these settings, and the code then produces no
   usable batch size: a table whose first threshold is above the trace size, or an empty table, makes
   _compute_batch_size fall out of its loop and return None (run() then raises TypeError); a table may hold a size 0
   (ZeroDivisionError in batches()); a MB setting on an empty frame divides by zero. *)
Example batch_size_corners :
  batch_size_rule (BTable [(5, 10)]%Z) 3 3 1 = None
  /\ batch_size_rule (BTable []) 3 3 1 = None
  /\ batch_size_rule (BTable [(0, 0)]%Z) 3 3 1 = Some 0%Z
  /\ batch_size_rule (BMb 1048576) 0 0 1 = None.
Proof. vm_compute. repeat split; reflexivity. Qed.

Example batch_size_examples :
  batch_size_rule (BInt 7) 100 100 4 = Some 7%Z
  /\ batch_size_rule (BTable [(0, 25000); (1001, 5000); (5001, 2500)]%Z) 1000 800 1 = Some 25000%Z
  /\ batch_size_rule (BTable [(0, 25000); (1001, 5000); (5001, 2500)]%Z) 1001 800 1 = Some 5000%Z
  /\ batch_size_rule (BTable [(0, 25000); (1001, 5000); (5001, 2500)]%Z) 800 70000 1 = Some 2500%Z
  /\ batch_size_rule (BMb 1048576) 100 100 4 = Some 2000%Z          (* 1 MB / 400 bytes = 2621.44 -> 2000 *)
  /\ batch_size_rule (BMb 1000) 100 100 4 = Some 10%Z.              (* 2.5 -> 2 -> minimum 10 *)
Proof. vm_compute. repeat split; reflexivity. Qed.

(* non-vacuity of the run theorems: the free accumulator (state = the list of rows fed so far; plus = append) meets the
   three laws; on a 5-trace set with a frame and a non-commuting chain, batch size 2 (batches 2, 2, 1), run() ends with
   exactly the five rows of the whole set, in order, each paired with its own metadata *)
Example run_example :
  let c := {| c_rows := [([1; 2; 3], 10); ([4; 5; 6], 11); ([7; 8; 9], 12); ([1; 1; 1], 13); ([2; 0; 2], 14)]%Z;
              c_fr := select 0%Z (FSlice 1 3 1); c_chain := chain_fun [PCumsum; PAdd1]; c_bs := 2 |} in
  (forall a b c : list (list Z * Z), a ++ (b ++ c) = (a ++ b) ++ c)
  /\ (forall a : list (list Z * Z), a ++ [] = a)
  /\ (c_rows c <> [] /\ 1 <= c_bs c)
  /\ results (free_run (fun m : Z => (m * 2)%Z) None free_fresh [c])
     = Some [([3; 6], 20); ([6; 12], 22); ([9; 18], 24); ([2; 3], 26); ([1; 3], 28)]%Z
  /\ processed (free_run (fun m : Z => (m * 2)%Z) None free_fresh [c]) = 5.
Proof.
  cbv zeta. split; [intros; apply app_assoc|]. split; [intros; apply app_nil_r|].
  split; [split; [discriminate|cbn; lia]|]. vm_compute. split; reflexivity.
Qed.

(* the two levels of the correspondence check.  c02_check (property level) accepts a faithful observation and ANY other way of
   batching the same rows, and rejects the edits named in the design: tail batch dropped, metadata of another batch, frame
   applied after the chain, results differing from the one-shot ones; c02_corr (correspondence level) additionally pins the
   batch boundaries and the batch-size value of the impl-model *)
Example c02_check_discriminates :
  let mk upd res := {|
    c2_guesses := None; c2_model := MValue; c2_prec := F64; c2_step := None;
    c2_runs := [{| r2_rows := [([1; 2; 3], [5]); ([4; 5; 6], [6]); ([7; 8; 9], [7])]%Z; r2_frame := FSlice 1 3 1;
                   r2_chain := [PCumsum]; r2_setting := BInt 2; r2_itemsize := 1; r2_obs_bs := Some 2%Z;
                   r2_fail := None; r2_obs_fed := 3 |}];
    c2_obs_updates := upd; c2_obs_processed := length (concat upd); c2_res_shape := [1; 1]; c2_obs_results := [res];
    c2_disc := DMaxabs; c2_obs_scores := None; c2_one_results := [Fin 1 0]; c2_one_scores := None |} in
  let good := mk [[([2; 5], [5]); ([5; 11], [6])]; [([8; 17], [7])]]%Z (Fin 1 0) in
  let other_batching := mk [[([2; 5], [5])]; [([5; 11], [6]); ([8; 17], [7])]]%Z (Fin 1 0) in
  c02_check good = true /\ c02_corr good = true
  /\ c02_check other_batching = true /\ c02_corr other_batching = false                             (* internal only *)
  /\ c02_check (mk [[([2; 5], [5]); ([5; 11], [6])]]%Z (Fin 1 0)) = false                           (* tail dropped *)
  /\ c02_check (mk [[([2; 5], [5]); ([5; 11], [6])]; [([8; 17], [5])]]%Z (Fin 1 0)) = false         (* wrong metadata *)
  /\ c02_check (mk [[([3; 6], [5]); ([9; 15], [6])]; [([15; 24], [7])]]%Z (Fin 1 0)) = false        (* frame after chain *)
  /\ c02_check (mk [[([2; 5], [5]); ([5; 11], [6])]; []; [([8; 17], [7])]]%Z (Fin 1 0)) = false     (* empty batch *)
  /\ c02_check (mk [[([2; 5], [5]); ([5; 11], [6])]; [([8; 17], [7])]]%Z (Fin 3 (-1))) = false.     (* results differ *)
Proof. vm_compute. repeat split; reflexivity. Qed.
