(* Props/C08.v — property C08: convergence traces are the attack scores on successive prefixes of the traces.
   Only statements closed by [exact]; Print Assumptions beneath each.  Proofs are in Proofs/Analysis.v; the definitions
   in Model/Analysis.v (see the reading guide of Props/C02.v for the generic setting: ANY additive accumulator, ANY
   selection function / model / frames / row-wise chains / discriminant).

   [run_seq ... (Some k) fresh runs] is an attack object created with convergence_step = k after run() on each
   container of [runs] in order.  Its state holds [conv] (the columns of convergence_traces), and the ghost list [cols]
   giving for every column the value of processed_traces when it was appended and whether _batch_loop_compute
   (Regular) or _final_compute (Remainder) appended it.  [all_rows runs] are the rows of all the containers in order.
   Every theorem is for every step k >= 1, every container batch size >= 1 and every sequence of run() calls on
   non-empty containers of arbitrary sizes. *)
From Coq Require Import ZArith List Bool Lia Sorted.
From ScaredV Require Import Run.Compare Model.Accum Model.Container Model.Analysis Proofs.Container Proofs.Analysis.
Import ListNotations.
Local Open Scope nat_scope.

(* conv_bs_bounds: the batch size derived from the step is between 1 and the step (a convergence point can always be
   reached exactly on a batch boundary) and not below min(base, step) *)
Theorem conv_bs_bounds : forall base k : nat,
  1 <= base -> 1 <= k -> 1 <= conv_bs base k <= k /\ Nat.min base k <= conv_bs base k.
Proof. exact conv_bs_bounds_lem. Qed.
Print Assumptions conv_bs_bounds.

Example conv_bs_examples :
  conv_bs 10 3 = 3 /\ conv_bs 3 3 = 3 /\ conv_bs 3 10 = 3 /\ conv_bs 4 10 = 5 /\ conv_bs 7 10 = 10 /\ conv_bs 1 5 = 1
  /\ conv_bs 2500 100 = 100.
Proof. vm_compute. repeat split; reflexivity. Qed.

(* cols_strictly_increasing: the points of the columns are strictly increasing (no duplicated column) *)
Theorem cols_strictly_increasing :
  forall (X M V D St O Sc : Type) (zero : St) (plus : St -> St -> St) (contrib : X * D -> St) (comp : St -> O),
  (forall a b c : St, plus a (plus b c) = plus (plus a b) c) ->
  (forall a : St, plus a zero = a) ->
  (forall a : St, plus zero a = a) ->
  forall (sf : M -> V) (model : V -> D) (disc : O -> Sc) (k : nat) (runs : list (container X M)),
  1 <= k -> Forall (fun c => c_rows c <> [] /\ 1 <= c_bs c) runs ->
  StronglySorted lt
    (map fst (cols (run_seq X M V D St O Sc zero plus contrib comp sf model disc (Some k) (fresh St O Sc zero) runs))).
Proof. exact cols_strictly_increasing_thm. Qed.
Print Assumptions cols_strictly_increasing.

(* regular_spacing: a Regular column at point p is at least k after the previous Regular column ([last_regular l1] is
   the point of the last Regular column before it, 0 when there is none) *)
Theorem regular_spacing :
  forall (X M V D St O Sc : Type) (zero : St) (plus : St -> St -> St) (contrib : X * D -> St) (comp : St -> O),
  (forall a b c : St, plus a (plus b c) = plus (plus a b) c) ->
  (forall a : St, plus a zero = a) ->
  (forall a : St, plus zero a = a) ->
  forall (sf : M -> V) (model : V -> D) (disc : O -> Sc) (k : nat) (runs : list (container X M))
         (l1 : list (nat * ckind)) (p : nat) (l2 : list (nat * ckind)),
  1 <= k -> Forall (fun c => c_rows c <> [] /\ 1 <= c_bs c) runs ->
  cols (run_seq X M V D St O Sc zero plus contrib comp sf model disc (Some k) (fresh St O Sc zero) runs)
    = l1 ++ (p, Regular) :: l2 ->
  last_regular l1 + k <= p.
Proof. exact regular_spacing_thm. Qed.
Print Assumptions regular_spacing.

(* no_overdue_point: after every run() fewer than k traces have been processed since the last Regular column (0 when there
   is none) — the bookkeeping never skips a point that is due; with regular_spacing: consecutive Regular points p < p' satisfy
   p + k <= p', and whenever processed_traces reaches p + k a Regular column is appended at that batch boundary *)
Theorem no_overdue_point :
  forall (X M V D St O Sc : Type) (zero : St) (plus : St -> St -> St) (contrib : X * D -> St) (comp : St -> O),
  (forall a b c : St, plus a (plus b c) = plus (plus a b) c) ->
  (forall a : St, plus a zero = a) ->
  (forall a : St, plus zero a = a) ->
  forall (sf : M -> V) (model : V -> D) (disc : O -> Sc) (k : nat) (runs : list (container X M)),
  1 <= k -> Forall (fun c => c_rows c <> [] /\ 1 <= c_bs c) runs ->
  processed (run_seq X M V D St O Sc zero plus contrib comp sf model disc (Some k) (fresh St O Sc zero) runs)
  < last_regular (cols (run_seq X M V D St O Sc zero plus contrib comp sf model disc (Some k) (fresh St O Sc zero) runs)) + k.
Proof. exact no_overdue_point_thm. Qed.
Print Assumptions no_overdue_point.

(* remainder_is_last_of_run: the columns appended by one more run() are some Regular columns followed by at most one
   Remainder column, which is the last one and sits at the total number of traces processed *)
Theorem remainder_is_last_of_run :
  forall (X M V D St O Sc : Type) (zero : St) (plus : St -> St -> St) (contrib : X * D -> St) (comp : St -> O),
  (forall a b c : St, plus a (plus b c) = plus (plus a b) c) ->
  (forall a : St, plus a zero = a) ->
  (forall a : St, plus zero a = a) ->
  forall (sf : M -> V) (model : V -> D) (disc : O -> Sc) (k : nat) (runs : list (container X M)) (c : container X M),
  1 <= k -> Forall (fun c => c_rows c <> [] /\ 1 <= c_bs c) runs -> c_rows c <> [] /\ 1 <= c_bs c ->
  exists regs tail,
    cols (run_seq X M V D St O Sc zero plus contrib comp sf model disc (Some k) (fresh St O Sc zero) (runs ++ [c]))
    = cols (run_seq X M V D St O Sc zero plus contrib comp sf model disc (Some k) (fresh St O Sc zero) runs)
      ++ regs ++ tail
    /\ Forall (fun e => snd e = Regular) regs
    /\ (tail = [] \/
        tail = [(processed (run_seq X M V D St O Sc zero plus contrib comp sf model disc (Some k) (fresh St O Sc zero)
                                    (runs ++ [c])), Remainder)]).
Proof. exact remainder_is_last_of_run_thm. Qed.
Print Assumptions remainder_is_last_of_run.

(* last_col_is_total: after every run() there is at least one column, the last column sits at processed_traces = the
   total number of traces, and it holds the final scores *)
Theorem last_col_is_total :
  forall (X M V D St O Sc : Type) (zero : St) (plus : St -> St -> St) (contrib : X * D -> St) (comp : St -> O),
  (forall a b c : St, plus a (plus b c) = plus (plus a b) c) ->
  (forall a : St, plus a zero = a) ->
  (forall a : St, plus zero a = a) ->
  forall (sf : M -> V) (model : V -> D) (disc : O -> Sc) (k : nat) (runs : list (container X M)),
  1 <= k -> Forall (fun c => c_rows c <> [] /\ 1 <= c_bs c) runs -> runs <> [] ->
  let st := run_seq X M V D St O Sc zero plus contrib comp sf model disc (Some k) (fresh St O Sc zero) runs in
  cols st <> []
  /\ last (map fst (cols st)) 0 = processed st
  /\ processed st = length (all_rows X M V D sf model runs)
  /\ exists s, scores st = Some s /\ last (conv st) s = s /\ conv st <> [].
Proof. exact last_col_is_total_thm. Qed.
Print Assumptions last_col_is_total.

(* column_is_prefix_score: the j-th column, appended at point p, is disc (comp (ONE update from zero with the first p
   rows of all the traces)) — what a fresh attack gives on exactly the traces processed up to that point (C02
   run_fresh_eq_oneshot, for any batch size); p never exceeds the number of rows ([firstn] is not truncating) *)
Theorem column_is_prefix_score :
  forall (X M V D St O Sc : Type) (zero : St) (plus : St -> St -> St) (contrib : X * D -> St) (comp : St -> O),
  (forall a b c : St, plus a (plus b c) = plus (plus a b) c) ->
  (forall a : St, plus a zero = a) ->
  (forall a : St, plus zero a = a) ->
  forall (sf : M -> V) (model : V -> D) (disc : O -> Sc) (k : nat) (runs : list (container X M))
         (j p : nat) (kd : ckind),
  1 <= k -> Forall (fun c => c_rows c <> [] /\ 1 <= c_bs c) runs ->
  nth_error (cols (run_seq X M V D St O Sc zero plus contrib comp sf model disc (Some k) (fresh St O Sc zero) runs)) j
    = Some (p, kd) ->
  p <= length (all_rows X M V D sf model runs)
  /\ nth_error (conv (run_seq X M V D St O Sc zero plus contrib comp sf model disc (Some k) (fresh St O Sc zero) runs)) j
     = Some (disc (comp (upd St (X * D) zero plus contrib zero (firstn p (all_rows X M V D sf model runs))))).
Proof. exact column_is_prefix_score_thm. Qed.
Print Assumptions column_is_prefix_score.

(* ... and there are exactly as many columns as points *)
Theorem columns_count :
  forall (X M V D St O Sc : Type) (zero : St) (plus : St -> St -> St) (contrib : X * D -> St) (comp : St -> O),
  (forall a b c : St, plus a (plus b c) = plus (plus a b) c) ->
  (forall a : St, plus a zero = a) ->
  (forall a : St, plus zero a = a) ->
  forall (sf : M -> V) (model : V -> D) (disc : O -> Sc) (k : nat) (runs : list (container X M)),
  1 <= k -> Forall (fun c => c_rows c <> [] /\ 1 <= c_bs c) runs ->
  length (conv (run_seq X M V D St O Sc zero plus contrib comp sf model disc (Some k) (fresh St O Sc zero) runs))
  = length (cols (run_seq X M V D St O Sc zero plus contrib comp sf model disc (Some k) (fresh St O Sc zero) runs)).
Proof. exact columns_count_thm. Qed.
Print Assumptions columns_count.

(* convergence_transparent: asking for convergence traces changes neither the final results nor the scores (nor the
   trace count) — although the batches are cut differently and compute() runs in between *)
Theorem convergence_transparent :
  forall (X M V D St O Sc : Type) (zero : St) (plus : St -> St -> St) (contrib : X * D -> St) (comp : St -> O),
  (forall a b c : St, plus a (plus b c) = plus (plus a b) c) ->
  (forall a : St, plus a zero = a) ->
  (forall a : St, plus zero a = a) ->
  forall (sf : M -> V) (model : V -> D) (disc : O -> Sc) (k : nat) (runs : list (container X M)),
  1 <= k -> Forall (fun c => c_rows c <> [] /\ 1 <= c_bs c) runs ->
  results (run_seq X M V D St O Sc zero plus contrib comp sf model disc (Some k) (fresh St O Sc zero) runs)
  = results (run_seq X M V D St O Sc zero plus contrib comp sf model disc None (fresh St O Sc zero) runs)
  /\ scores (run_seq X M V D St O Sc zero plus contrib comp sf model disc (Some k) (fresh St O Sc zero) runs)
     = scores (run_seq X M V D St O Sc zero plus contrib comp sf model disc None (fresh St O Sc zero) runs)
  /\ processed (run_seq X M V D St O Sc zero plus contrib comp sf model disc (Some k) (fresh St O Sc zero) runs)
     = processed (run_seq X M V D St O Sc zero plus contrib comp sf model disc None (fresh St O Sc zero) runs).
Proof. exact convergence_transparent_thm. Qed.
Print Assumptions convergence_transparent.

(* convergence_with_interrupted_runs: histories in which some run() calls RAISE while a later batch is prepared (failing
   preprocess / selection function / reader).  [(c, None)] is a run() that completes, [(c, Some j)] one that raises while
   its batch number j is prepared; [hist_rows] are the rows handed to update() over the whole history: an interrupted run
   contributes exactly its first j batches, also to the convergence bookkeeping, and the columns appended before the failure
   stay.  Then: processed_traces is the number of rows fed, the accumulators are ONE update with them, the points are
   strictly increasing, Regular points at least a step apart, and every column is the score on the prefix of the rows fed. *)
Theorem convergence_with_interrupted_runs :
  forall (X M V D St O Sc : Type) (zero : St) (plus : St -> St -> St) (contrib : X * D -> St) (comp : St -> O),
  (forall a b c : St, plus a (plus b c) = plus (plus a b) c) ->
  (forall a : St, plus a zero = a) ->
  (forall a : St, plus zero a = a) ->
  forall (sf : M -> V) (model : V -> D) (disc : O -> Sc) (k : nat) (hs : list (container X M * option nat)),
  1 <= k -> Forall (fun h => c_rows (fst h) <> [] /\ 1 <= c_bs (fst h)) hs ->
  let st := hist_seq X M V D St O Sc zero plus contrib comp sf model disc (Some k) (fresh St O Sc zero) hs in
  let rows := hist_rows X M V D sf model (Some k) hs in
  processed st = length rows
  /\ acc st = upd St (X * D) zero plus contrib zero rows
  /\ StronglySorted lt (map fst (cols st))
  /\ (forall l1 p l2, cols st = l1 ++ (p, Regular) :: l2 -> last_regular l1 + k <= p)
  /\ Forall (fun p => p <= length rows) (map fst (cols st))
  /\ conv st = map (fun p => disc (comp (upd St (X * D) zero plus contrib zero (firstn p rows)))) (map fst (cols st)).
Proof. exact convergence_with_interrupted_runs_thm. Qed.
Print Assumptions convergence_with_interrupted_runs.

(* ... and in such histories too no due point is skipped: fewer than k rows have been fed since the last Regular column *)
Theorem no_overdue_point_with_interrupted_runs :
  forall (X M V D St O Sc : Type) (zero : St) (plus : St -> St -> St) (contrib : X * D -> St) (comp : St -> O),
  (forall a b c : St, plus a (plus b c) = plus (plus a b) c) ->
  (forall a : St, plus a zero = a) ->
  (forall a : St, plus zero a = a) ->
  forall (sf : M -> V) (model : V -> D) (disc : O -> Sc) (k : nat) (hs : list (container X M * option nat)),
  1 <= k -> Forall (fun h => c_rows (fst h) <> [] /\ 1 <= c_bs (fst h)) hs ->
  let st := hist_seq X M V D St O Sc zero plus contrib comp sf model disc (Some k) (fresh St O Sc zero) hs in
  processed st < last_regular (cols st) + k.
Proof. exact no_overdue_point_with_interrupted_runs_thm. Qed.
Print Assumptions no_overdue_point_with_interrupted_runs.

(* step 5, batch size 2 (derived batch size 2).  A (7 traces): batches end at 2, 4, 6 (Regular at 6), 7 (Remainder at 7).
   B (9 traces) raises while its batch number 3 is prepared: it fed 3 batches = 6 rows, ending at 9, 11 (Regular: 11 - 6 >= 5), 13;
   no final column, the marks stay [11; 13].  C (4 traces): 15, 17 (Regular: 17 - 11 >= 5), the run ends on a point. *)
Example interrupted_history_example :
  let hs := [(c08_container (7, 2), None); (c08_container (9, 2), Some 3); (c08_container (4, 2), None)] in
  let st := hist_seq unit unit unit unit nat nat nat 0 Nat.add (fun _ => 1) (fun s => s) (fun m => m) (fun v => v) (fun o => o)
              (Some 5) unit_fresh hs in
  Forall (fun h : container unit unit * option nat => c_rows (fst h) <> [] /\ 1 <= c_bs (fst h)) hs
  /\ processed st = 17
  /\ cols st = [(6, Regular); (7, Remainder); (11, Regular); (17, Regular)]
  /\ conv st = [6; 7; 11; 17]
  /\ scores st = Some 17.
Proof. split; [repeat constructor; discriminate|]. vm_compute. repeat split; reflexivity. Qed.

(* non-vacuity: the row-counting accumulator (nat, +, 0) meets the laws; step 2 with container batch size 3 on 7 traces
   (derived batch size 2): Regular columns at 2, 4, 6 and a Remainder at 7; step 5, batch size 3, runs of 7 then 4
   traces (derived batch size 5): Regular at 5, Remainder at 7 closing the first run, Regular at 11 in the second run
   (6 >= 5 traces after the Regular point 5) and no Remainder since the run ends on a point *)
Example convergence_example :
  (forall a b c : nat, a + (b + c) = (a + b) + c) /\ (forall a, a + 0 = a) /\ (forall a, 0 + a = a)
  /\ Forall (fun c : container unit unit => c_rows c <> [] /\ 1 <= c_bs c) (map c08_container [(7, 3); (4, 3)])
  /\ cols (unit_run (Some 2) unit_fresh (map c08_container [(7, 3)]))
     = [(2, Regular); (4, Regular); (6, Regular); (7, Remainder)]
  /\ conv (unit_run (Some 2) unit_fresh (map c08_container [(7, 3)])) = [2; 4; 6; 7]
  /\ cols (unit_run (Some 5) unit_fresh (map c08_container [(7, 3); (4, 3)]))
     = [(5, Regular); (7, Remainder); (11, Regular)]
  /\ marks (unit_run (Some 5) unit_fresh (map c08_container [(7, 3); (4, 3)])) = [11]
  /\ scores (unit_run (Some 5) unit_fresh (map c08_container [(7, 3); (4, 3)])) = Some 11
  /\ scores (unit_run None unit_fresh (map c08_container [(7, 3); (4, 3)])) = Some 11.
Proof.
  split; [intros; lia|]. split; [intros; lia|]. split; [intros; lia|].
  split; [repeat constructor; discriminate|]. vm_compute. repeat split; reflexivity.
Qed.

(* Documented corner OUTSIDE the quantifier (containers are non-empty in every theorem above): a run() on an EMPTY
   container after a run that ended with a Remainder column appends that column a second time — the points are then
   not strictly increasing.  (_final_compute tests len(_batches_processed) > 1, and the marks are not reset by a
   Remainder.)  With the code as it stands this is a corner of the bookkeeping only: Container.trace_size raises
   IndexError on an empty trace set before run() reaches its loop. *)
Example empty_run_duplicates_refuted :
  exists runs : list (container unit unit),
    Forall (fun c => 1 <= c_bs c) runs
    /\ map fst (cols (unit_run (Some 2) unit_fresh runs)) = [2; 3; 3]
    /\ ~ StronglySorted lt (map fst (cols (unit_run (Some 2) unit_fresh runs))).
Proof.
  exists (map c08_container [(3, 2); (0, 2)]). split; [repeat constructor|]. split; [vm_compute; reflexivity|].
  replace (map fst (cols (unit_run (Some 2) unit_fresh (map c08_container [(3, 2); (0, 2)])))) with [2; 3; 3]
    by (vm_compute; reflexivity).
  intros H. inversion H as [|? ? H1 _]; subst. inversion H1 as [|? ? _ H2]; subst.
  inversion H2 as [|? ? H3 _]; subst. lia.
Qed.

(* the two levels of the correspondence check.  c08_check (property level: points strictly increasing, a step apart except a
   final remainder, last point = total, columns = prefix scores, last column = final scores, results unchanged) accepts a
   faithful observation and also a variant that is NOT the state machine but keeps the property (points every step + 1:
   ">" for ">="), which only c08_corr (correspondence level) tells apart; c08_check rejects: final column never appended,
   final column appended twice, points closer than a step, stale scores *)
Example c08_check_discriminates :
  let f x := Fin (Z.of_nat x) 0 in
  let mk comps ncols mk_marks pts convs prefix := {|
    c8_step := 2; c8_runs := [(5, 2)]; c8_fails := [None]; c8_obs_fed := [5]; c8_prec := F64; c8_width := 1;
    c8_obs_computes := comps; c8_obs_ncols := ncols; c8_obs_points := pts; c8_obs_marks := Some mk_marks; c8_obs_conv := convs;
    c8_obs_scores := [f 5]; c8_obs_results := [f 5];
    c8_prefix_scores := prefix; c8_plain_scores := [f 5]; c8_plain_results := [f 5] |} in
  let good := mk [(2, 0); (4, 1); (5, 2)] [3] [4; 5] [2; 4; 5] [[f 2]; [f 4]; [f 5]] [[f 2]; [f 4]; [f 5]] in
  let gt_for_ge := mk [(4, 0); (5, 1)] [2] [4; 5] [4; 5] [[f 4]; [f 5]] [[f 4]; [f 5]] in
  c08_check good = true /\ c08_corr good = true
  /\ c08_check gt_for_ge = true /\ c08_corr gt_for_ge = false                                                (* internal only *)
  /\ c08_corr (mk [(2, 0); (4, 1); (5, 2)] [3] [0; 2; 4; 5] [2; 4; 5] [[f 2]; [f 4]; [f 5]] [[f 2]; [f 4]; [f 5]]) = false  (* marks *)
  /\ c08_check (mk [(2, 0); (4, 1); (5, 2)] [2] [4; 5] [2; 4] [[f 2]; [f 4]] [[f 2]; [f 4]]) = false          (* final column never *)
  /\ c08_check (mk [(2, 0); (4, 1); (5, 2)] [4] [4; 5] [2; 4; 5; 5] [[f 2]; [f 4]; [f 5]; [f 5]] [[f 2]; [f 4]; [f 5]; [f 5]])
     = false                                                                                                   (* final column twice *)
  /\ c08_check (mk [(2, 0); (3, 1); (5, 2)] [3] [4; 5] [2; 3; 5] [[f 2]; [f 3]; [f 5]] [[f 2]; [f 3]; [f 5]]) = false  (* closer than a step *)
  /\ c08_check (mk [(2, 0); (4, 1); (5, 2)] [3] [4; 5] [2; 4; 5] [[f 2]; [f 2]; [f 5]] [[f 2]; [f 4]; [f 5]]) = false. (* stale scores *)
Proof. vm_compute. repeat split; reflexivity. Qed.
