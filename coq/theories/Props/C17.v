(* Props/C17.v — property C17: on simulated leakage every attack ranks the true key first.          PARTIAL.
   Only statements closed by [exact]; Print Assumptions beneath each.  Definitions: Model/Attack.v (and the colleagues'
   Model/Cpa.v, Model/Partitioned.v, Model/Models.v); proofs: Proofs/Attack.v.

   What is a theorem here, and what is not.
   * THEOREMS: the wiring results -> scores -> argmax (scores_layout, rank_first); the identity "leak column = gain *
     hypothesis column at the expected key + noise" under the C07 fact (true_key_hypothesis_is_leak); the noise-free
     optimum of CPA (r = +-1 at the true key, |r| <= 1 for every guess, ties only for affine images), of DPA with Monobit
     and of NICV (= 1 at the true key, <= 1 for every partition); that ANOVA and SNR are undefined noise-free and antitone in
     the within-class spread; the soundness of the per-campaign certificate.
   * NOT A THEOREM (bounded_noise_margin_partial, at the end): "for every key and every plaintext set large enough, with
     noise bounded by a, the expected key leads by a margin".  No closed form of such a margin exists for arbitrary plaintext
     sets (it depends on the spectrum of the S-box over the set); separation under noise is CERTIFIED PER GENERATED CAMPAIGN:
     the spec pipeline is evaluated exactly inside Coq on the campaign's data (Model/Attack.v camp_check, run by ./check on
     every generated campaign) and certificate_sound turns an accepted certificate into the ranking statement.

   Reading guide.  qsum / qlen / qmean / ssd / scd: Lib/QcSum.v.  obs = (sample, word) of one trace; pearson l = Some
   (scd l, ssd xs, ssd ys) read r = scd / sqrt (ssd xs * ssd ys), None when a spread is zero; dobs = (sample, bit),
   dpa_spec = mean over bit 1 - mean over bit 0 (Model/Cpa.v).  A partition of the samples into value classes is a list of
   groups gs; ss_between / ss_within / F_stat / nicv_def / snr_def: Model/Partitioned.v.  constant l: all elements equal. *)
From Coq Require Import ZArith QArith Qcanon List Bool Lia.
From ScaredV Require Import Lib.QcSum Lib.Arr Run.Compare Model.Cpa Proofs.Cpa Model.Attack Proofs.Attack.
From ScaredV Require Model.Models Model.Partitioned.
Import ListNotations.
Local Open Scope Qc_scope.

(* ================================================================ wiring: results -> scores -> argmax *)
(* The distinguisher is fed, per trace, the array model(selection_function(metadata)) of shape (G guesses, W words) and the S
   samples; [results_flat] is its compute() (Model/Cpa.v: data.reshape((n, -1)), the (G*W, S) table, reshape to (G, W, S)),
   [scores_flat] is discriminant(results) = the reduction of the LAST axis (Model/Models.v reduce_axis, property C15), for
   ANY per-entry statistic [stat] and ANY lane function [disc].  Then
     results[g, w, s] = stat (sample column s, hypothesis column (g, w))      (no other column is involved)
     scores[g, w]     = disc (results[g, w, 0 .. S-1])                         (position g * W + w of the flat scores).
   (That .scores of an attack object after run(container) IS discriminant(compute()) on the one-shot accumulation of the
   whole set, whatever the batch size: Props/C02.v run_eq_oneshot, scores_are_discriminant.) *)
Theorem scores_layout :
  forall (X Y O Sc : Type) (dX : X) (dY : Y) (dO : O) (dSc : Sc) (stat : list (X * Y) -> O) (disc : list O -> Sc)
         (G W S : nat) (traces : list (list X)) (data : list (list nat -> Y)) (g w : nat),
  (g < G)%nat -> (w < W)%nat ->
  (forall s, (s < S)%nat ->
     nth ((g * W + w) * S + s) (results_flat X Y O dX dY stat G W S traces data) dO
     = stat (combine (col dX s traces) (hyp_col Y data g w)))
  /\ score_at X Y O Sc dX dY dO dSc stat disc G W S traces data g w
     = disc (map (fun s => stat (combine (col dX s traces) (hyp_col Y data g w))) (seq 0 S)).
Proof. exact scores_layout_full. Qed.
Print Assumptions scores_layout.

(* scores.argmax(axis=0)[w] (numpy: the first maximal index): a guess whose score is strictly above every other one is it *)
Theorem rank_first :
  forall (column : list Q) (e : nat),
  (e < length column)%nat ->
  (forall g, (g < length column)%nat -> g <> e -> (nth g column 0 < nth e column 0)%Q) ->
  argmax column = e.
Proof. exact argmax_unique_max. Qed.
Print Assumptions rank_first.

(* ================================================================ the leak column is the hypothesis column at the expected key *)
(* A simulated campaign for key k: trace of metadata m with noise function n has, at a sample s where word w leaks,
   gain * model (state k m w) + n s, and n s elsewhere ([sim_trace]); the analysis object feeds the distinguisher
   model (sf m g w) ([hyp_data]).  UNDER THE C07 FACT for word w — the selection function at the expected-key guess is the
   targeted state of the real cipher, [forall m, sf m (ek k w) w = state k m w] — the sample column s of the traces is,
   trace by trace, gain * (hypothesis column (ek k w, w)) + the noise column.  (True by construction of the simulation once
   C07 is granted: the content is that no other index, transposition or model application intervenes.) *)
Theorem true_key_hypothesis_is_leak :
  forall (K M V : Type) (sf : M -> nat -> nat -> V) (model : V -> Z) (state : K -> M -> nat -> V) (ek : K -> nat -> nat)
         (leak_word : nat -> option nat) (k : K) (gain : Z) (S : nat) (set : list (M * (nat -> Z))) (w s : nat),
  (forall m, sf m (ek k w) w = state k m w) ->
  (s < S)%nat -> leak_word s = Some w ->
  let traces := map (sim_trace K M V model state leak_word S k gain) set in
  let data := map (fun mn => hyp_data M V sf model (fst mn)) set in
  col 0%Z s traces
  = map (fun hn => (gain * fst hn + snd hn)%Z) (combine (hyp_col Z data (ek k w) w) (map (fun mn => snd mn s) set)).
Proof. exact true_key_hypothesis_is_leak_thm. Qed.
Print Assumptions true_key_hypothesis_is_leak.

(* ================================================================ CPA, noise-free *)
(* l = the (sample, hypothesis) pairs of one entry over the traces.
   (1) If the sample is gain * hypothesis + offset on every trace (the noise-free leak at the true key; gain a <> 0) and the
       hypothesis is not constant, Pearson's triple satisfies num^2 = dx dy, i.e. r = +1 (a > 0) or -1 (a < 0).
   (2) For EVERY list (every guess, every sample): num^2 <= dx dy, i.e. |r| <= 1 (Cauchy-Schwarz, Props/C03.v pearson_bounds).
   So with maxabs no guess scores above the true key.
   (3) Ties: num^2 = dx dy only if the hypothesis column is an affine image c * sample + d of the sample column.
       (This happens: HammingWeight (x xor g xor 0xFF) = 8 - HammingWeight (x xor g) ties the complemented guess of an
       AddRoundKey target under maxabs; such combinations are not generated by the campaigns.) *)
Theorem cpa_true_key_maximal :
  (forall (a b : Qc) (l : list obs), a <> 0 -> ~ constant (map snd l) -> (forall p, In p l -> fst p = a * snd p + b) ->
     exists num dx dy, pearson l = Some (num, dx, dy) /\ sq num = dx * dy /\ (0 < a -> 0 < num) /\ (a < 0 -> num < 0))
  /\ (forall (l : list obs) num dx dy, pearson l = Some (num, dx, dy) -> sq num <= dx * dy /\ 0 < dx /\ 0 < dy)
  /\ (forall (l : list obs) num dx dy, pearson l = Some (num, dx, dy) -> sq num = dx * dy ->
        exists c d, forall p, In p l -> snd p = c * fst p + d).
Proof. exact cpa_true_key_maximal_thm. Qed.
Print Assumptions cpa_true_key_maximal.

(* the same in the coordinates the certificate compares (x |-> x |x| keeps every order comparison of correlations):
   sgn_sq (num, dx, dy) = sign(num) num^2 / (dx dy) lies in [-1, 1] for every guess and is 1 at the true key (gain > 0) *)
Theorem cpa_true_key_maximal_score :
  (forall (l : list obs) t, pearson l = Some t -> - (1) <= sgn_sq t /\ sgn_sq t <= 1)
  /\ (forall (a b : Qc) (l : list obs), 0 < a -> ~ constant (map snd l) -> (forall p, In p l -> fst p = a * snd p + b) ->
        option_map sgn_sq (pearson l) = Some 1).
Proof. exact (conj sgn_sq_bounds sgn_sq_true_key). Qed.
Print Assumptions cpa_true_key_maximal_score.

(* ================================================================ DPA with Monobit, noise-free *)
(* l = the (sample, bit) pairs.  (1) When the partition is the leaking bit itself — the sample is hi on the traces whose bit
   is 1 and lo on the others, both classes non-empty — the difference of means is hi - lo.  (2) For ANY partition of samples
   that lie in [lo, hi] (every other guess: its bit splits the same samples differently) the difference of means is in
   [-(hi - lo), hi - lo].  So with maxabs no guess scores above the true key.  NOT proved: that equality forces the
   partition to be the leaking bit or its complement (true, not needed by the certificate). *)
Theorem dpa_true_key_maximal :
  forall lo hi : Qc,
  (forall l : list dobs, (forall p, In p l -> fst p = if snd p then hi else lo) ->
     (exists p, In p l /\ snd p = true) -> (exists p, In p l /\ snd p = false) -> dpa_spec l = Some (hi - lo))
  /\ (forall (l : list dobs) d, (forall p, In p l -> lo <= fst p /\ fst p <= hi) -> dpa_spec l = Some d ->
        - (hi - lo) <= d /\ d <= hi - lo).
Proof. exact dpa_true_key_maximal_thm. Qed.
Print Assumptions dpa_true_key_maximal.

(* ================================================================ NICV, noise-free *)
(* total sum of squares = between-class + within-class, for every partition into non-empty classes ... *)
Theorem total_is_between_plus_within :
  forall gs : list (list Qc), Forall (fun g => g <> []) gs ->
  ssd (concat gs) = Partitioned.ss_between gs + Partitioned.ss_within gs.
Proof. exact ss_decomposition. Qed.
Print Assumptions total_is_between_plus_within.

(* ... hence (1) every guess has 0 <= NICV <= 1 (between-class variance <= total variance), and (2) at the true key,
   noise-free — every class constant, since the sample is a function of the class value — NICV = 1 as soon as the samples
   are not all equal. *)
Theorem nicv_true_key_maximal :
  (forall gs v, Forall (fun g => g <> []) gs -> Partitioned.nicv_def gs = Some v -> 0 <= v /\ v <= 1)
  /\ (forall gs, Forall (fun g => g <> []) gs -> (forall g, In g gs -> constant g) -> ~ constant (concat gs) ->
        Partitioned.nicv_def gs = Some 1).
Proof. exact nicv_true_key_maximal_thm. Qed.
Print Assumptions nicv_true_key_maximal.

(* ================================================================ ANOVA and SNR *)
(* noise-free at the true key both are UNDEFINED (zero within-class spread: the code returns NaN) — which is why the property
   adds noise ... *)
Theorem anova_snr_undefined_without_noise :
  forall gs : list (list Qc), (forall g, In g gs -> constant g) ->
  Partitioned.F_stat gs = None /\ Partitioned.snr_def gs = None.
Proof. exact anova_snr_noise_free_undefined. Qed.
Print Assumptions anova_snr_undefined_without_noise.

(* ... and for a fixed between-class spread they are ANTITONE in the within-class spread: of two partitions with the same
   numbers of classes (>= 2) and traces (> classes) and the same between-class sum of squares, the one with the smaller
   within-class sum of squares has the larger F; of two with the same signal, the one with the smaller noise has the larger
   SNR.  (Explains the ranking — the true key's classes only contain the noise — ; it is not a margin.) *)
Theorem anova_snr_monotone :
  (forall gs gs' f f',
     qlen gs = qlen gs' -> qlen (concat gs) = qlen (concat gs') -> 0 < qlen gs - 1 -> 0 < qlen (concat gs) - qlen gs ->
     Partitioned.ss_between gs = Partitioned.ss_between gs' ->
     Partitioned.ss_within gs <= Partitioned.ss_within gs' ->
     Partitioned.F_stat gs = Some f -> Partitioned.F_stat gs' = Some f' -> f' <= f)
  /\ (forall gs gs' r r',
        Partitioned.snr_signal gs = Partitioned.snr_signal gs' ->
        Partitioned.snr_noise gs <= Partitioned.snr_noise gs' ->
        Partitioned.snr_def gs = Some r -> Partitioned.snr_def gs' = Some r' -> r' <= r).
Proof. exact anova_snr_monotone_thm. Qed.
Print Assumptions anova_snr_monotone.

(* ================================================================ separation under bounded noise: PARTIAL *)
(* FULL STATEMENT (NOT PROVED): for every key, every attack class, every first/last-round selection function, every batch
   size and every plaintext set "large enough to separate the hypotheses", traces = gain * model (state under the true key)
   + noise in [-a, a] give  scores[expected_key[w], w] > scores[g, w] + margin  for every other guess g.
   Missing: a lower bound of the true key's statistic and an upper bound of every wrong guess's statistic that hold for an
   ARBITRARY plaintext set; both depend on the joint distribution of the S-box outputs over the set, for which no closed form
   is available.  The noise-free theorems above give the optimum (no guess above the true key); the margin is CERTIFIED PER
   CAMPAIGN.

   PROVED: the certificate is sound, for every campaign record c and every attack object a in it.  [attack_ok c a] is what
   ./check evaluates by vm_compute (Model/Attack.v): it recomputes the model scores of the evaluated guesses — the SPEC
   statistic of the class (Model/Cpa.v pearson / dpa_spec, Model/Partitioned.v F / NICV / SNR, Model/Mia.v, Model/Template.v)
   on the hypothesis columns the code's selection function and model produced, then the discriminant over the samples — and
   [separated ms i] says that the expected key (position i of the evaluated guesses) leads every other evaluated guess by
   thr > 0 in the model.  If the check accepts and the model separates, then the code's argmax over ALL guesses is the expected
   key, and the code's own score at the expected key is STRICTLY above its score at every other evaluated guess (which
   include, by construction of the harness, the code's best and runner-up).  When the model does not separate (the noise
   won: possible for small sets) nothing is asserted: the campaign is discarded for that attack object and counted. *)
Theorem bounded_noise_margin_partial :
  forall (c : camp_case) (a : attack_obs) (w : word_obs) (i : nat) (thr : Q),
  attack_ok c a = true -> nth_error (cc_words c) (ao_word a) = Some w ->
  find_pos (wo_expected w) (wo_guesses w) = Some i ->
  separated (model_scores c a w) i = Some thr ->
  nth i (wo_guesses w) (-1)%Z = wo_expected w
  /\ ao_argmax a = wo_expected w
  /\ forall j, (j < length (ao_scores a))%nat -> j <> i ->
       exists vi vj, fval_q (nth i (ao_scores a) NaN) = Some vi /\ fval_q (nth j (ao_scores a) NaN) = Some vj /\ (vj < vi)%Q.
Proof. exact certificate_sound. Qed.
Print Assumptions bounded_noise_margin_partial.

(* an accepted campaign carries, for every attacked word, the hypothesis of true_key_hypothesis_is_leak on its data: the
   hypothesis column of the expected key is model(targeted state of the real cipher under the true key), trace by trace *)
Theorem accepted_campaign_has_the_c07_fact :
  forall (c : camp_case) (w : word_obs),
  camp_check c = true -> In w (cc_words c) -> hyp_at w (wo_expected w) = Some (wo_state w).
Proof. exact accepted_campaign_has_c07_fact. Qed.
Print Assumptions accepted_campaign_has_the_c07_fact.

(* the arithmetic core: scores within thr / 4 of model scores that are thr apart are in the same order *)
Theorem margin_transfers_to_the_code :
  forall ci cj qi qj thr : Q,
  (0 < thr)%Q -> (Qabs' (ci - qi) <= thr / 4)%Q -> (Qabs' (cj - qj) <= thr / 4)%Q -> (qj + thr <= qi)%Q -> (cj < ci)%Q.
Proof. exact margin_transfer. Qed.
Print Assumptions margin_transfers_to_the_code.

(* the statistics the certificate evaluates are the specs of property C04 (means shared for speed, convertible) *)
Theorem certificate_uses_the_specs :
  forall (m : Partitioned.metric) (gs : list (list Qc)), metric_fast m gs = Partitioned.spec_metric m gs.
Proof. exact metric_fast_eq. Qed.
Print Assumptions certificate_uses_the_specs.

(* ================================================================ non-vacuity *)
Definition q (z : Z) : Qc := qz z.
Definition show3 (t : option Cpa.triple) : option (Q * Q * Q) :=
  option_map (fun t : Cpa.triple => let '(a, b, c) := t in (this a, this b, this c)) t.

(* layout: 2 guesses x 3 words x 2 samples, 2 traces; the statistic returns its own input and the discriminant the whole
   lane, so that a score shows which columns it was computed from: score (g = 1, w = 2) pairs each sample column with the
   hypothesis column at [1; 2] and nothing else *)
Definition ex_hyp (t : nat) (idx : list nat) : nat := (100 * t + 10 * nth 0 idx 0 + nth 1 idx 0)%nat.
Example ex_scores_layout :
  score_at nat nat (list (nat * nat)) (list (list (nat * nat))) 0%nat 0%nat [] [] (fun l => l) (fun lane => lane)
           2 3 2 [[7; 8]; [9; 10]]%nat [ex_hyp 0; ex_hyp 1] 1 2
  = [[(7, 12); (9, 112)]; [(8, 12); (10, 112)]]%nat.
Proof. vm_compute. reflexivity. Qed.

Example ex_rank_first : argmax [1; 3; 2]%Q = 1%nat /\ argmax [3; 3; 1]%Q = 0%nat /\ argmax [(-2); (-1)]%Q = 1%nat.
Proof. vm_compute. repeat split; reflexivity. Qed.

(* wiring: metadata = a plaintext nibble, selection function m xor g (any word), model = identity, real state m xor k,
   expected key = k: the C07 fact holds, word 0 leaks at sample 1 *)
Definition ex_sf (m : Z) (g w : nat) : Z := Z.lxor m (Z.of_nat g).
Definition ex_state (k : nat) (m : Z) (w : nat) : Z := Z.lxor m (Z.of_nat k).
Definition ex_leak (s : nat) : option nat := match s with 1%nat => Some 0%nat | _ => None end.
Definition ex_set : list (Z * (nat -> Z)) := [(3, fun s => Z.of_nat s); (5, fun _ => (-1)); (12, fun s => 1 - Z.of_nat s)]%Z.
Example ex_c07_fact : forall m, ex_sf m 6 0 = ex_state 6 m 0.
Proof. reflexivity. Qed.
Example ex_true_key_is_leak :
  col 0%Z 1 (map (sim_trace nat Z Z (fun v => v) ex_state ex_leak 3 6%nat 2) ex_set) = [11; 5; 20]%Z
  /\ hyp_col Z (map (fun mn => hyp_data Z Z ex_sf (fun v => v) (fst mn)) ex_set) 6 0 = [5; 3; 10]%Z.     (* 2 * h + noise *)
Proof. vm_compute. split; reflexivity. Qed.

(* CPA: sample = 2 * hypothesis + 3: r = 1 (6^2 = 12 * 3 ... scd 28/3, ssd x 56/3, ssd y 14/3: (28/3)^2 = 56/3 * 14/3);
   the complemented hypothesis 8 - h is an affine image: r = -1, a tie under maxabs *)
Definition ex_cpa : list obs := [(q 5, q 1); (q 7, q 2); (q 11, q 4)].
Example ex_cpa_true_key : show3 (pearson ex_cpa) = Some (28 # 3, 56 # 3, 14 # 3)%Q
                          /\ option_map (fun t => this (sgn_sq t)) (pearson ex_cpa) = Some (1 # 1)%Q.
Proof. vm_compute. split; reflexivity. Qed.
Example ex_cpa_hypotheses : (q 2 <> 0) /\ ~ constant (map snd ex_cpa) /\ (forall p, In p ex_cpa -> fst p = q 2 * snd p + q 3).
Proof.
  split; [discriminate|]. split.
  - intros H. specialize (H (q 1) (q 2) (or_introl eq_refl) (or_intror (or_introl eq_refl))). discriminate.
  - intros p [<-|[<-|[<-|[]]]]; vm_compute; reflexivity.
Qed.
Example ex_cpa_tie : option_map (fun t => this (sgn_sq t)) (pearson [(q 5, q 7); (q 7, q 6); (q 11, q 4)]) = Some (-1 # 1)%Q
                     /\ option_map (fun t => this (sgn_sq t)) (pearson [(q 5, q 2); (q 7, q 1); (q 11, q 4)]) = Some (121 # 196)%Q.
Proof. vm_compute. split; reflexivity. Qed.

(* DPA: samples 4 on bit 1, 1 on bit 0: difference 3; another partition of the same samples: 1/2 *)
Example ex_dpa : option_map this (dpa_spec [(q 4, true); (q 1, false); (q 4, true); (q 1, false)]) = Some (3 # 1)%Q
                 /\ option_map this (dpa_spec [(q 4, true); (q 1, true); (q 4, false); (q 1, false)]) = Some (0 # 1)%Q
                 /\ option_map this (dpa_spec [(q 4, true); (q 1, false); (q 4, false); (q 1, false)]) = Some (2 # 1)%Q.
Proof. vm_compute. repeat split; reflexivity. Qed.

(* NICV: constant classes give 1; the same samples split otherwise give less; total = between + within (8 = 6 + 2) *)
Example ex_nicv : option_map this (Partitioned.nicv_def [[q 1; q 1]; [q 3; q 3; q 3]]) = Some (1 # 1)%Q
                  /\ option_map this (Partitioned.nicv_def [[q 1; q 3]; [q 1; q 3; q 3]]) = Some (1 # 36)%Q
                  /\ this (ssd [q 1; q 3; q 5; q 3]) = (8 # 1)%Q
                  /\ this (Partitioned.ss_between [[q 1; q 3]; [q 5; q 3]]) = (4 # 1)%Q
                  /\ this (Partitioned.ss_within [[q 1; q 3]; [q 5; q 3]]) = (4 # 1)%Q.
Proof. vm_compute. repeat split; reflexivity. Qed.

(* ANOVA / SNR: undefined without noise; same class means (2 and 6), larger within-class spread: smaller F and SNR *)
Example ex_anova_snr :
  Partitioned.F_stat [[q 2; q 2]; [q 6; q 6]] = None /\ Partitioned.snr_def [[q 2; q 2]; [q 6; q 6]] = None
  /\ option_map this (Partitioned.F_stat [[q 1; q 3]; [q 5; q 7]]) = Some (8 # 1)%Q
  /\ option_map this (Partitioned.F_stat [[q 0; q 4]; [q 4; q 8]]) = Some (2 # 1)%Q
  /\ option_map this (Partitioned.snr_def [[q 1; q 3]; [q 5; q 7]]) = Some (4 # 1)%Q
  /\ option_map this (Partitioned.snr_def [[q 0; q 4]; [q 4; q 8]]) = Some (1 # 1)%Q
  /\ this (Partitioned.ss_between [[q 1; q 3]; [q 5; q 7]]) = this (Partitioned.ss_between [[q 0; q 4]; [q 4; q 8]]).
Proof. vm_compute. repeat split; reflexivity. Qed.

(* the hypotheses of anova_snr_monotone are met by these two partitions *)
Example ex_anova_snr_hypotheses :
  let gs := [[q 1; q 3]; [q 5; q 7]] in let gs' := [[q 0; q 4]; [q 4; q 8]] in
  qlen gs = qlen gs' /\ qlen (concat gs) = qlen (concat gs') /\ 0 < qlen gs - 1 /\ 0 < qlen (concat gs) - qlen gs
  /\ Partitioned.ss_between gs = Partitioned.ss_between gs' /\ Partitioned.ss_within gs <= Partitioned.ss_within gs'
  /\ Partitioned.snr_signal gs = Partitioned.snr_signal gs' /\ Partitioned.snr_noise gs <= Partitioned.snr_noise gs'.
Proof. cbv zeta. repeat split; try (apply Qc_is_canon; vm_compute; reflexivity); try (vm_compute; reflexivity); vm_compute; discriminate. Qed.

(* the hypotheses of dpa_true_key_maximal (1) and of nicv_true_key_maximal (2) are met *)
Example ex_dpa_hypotheses :
  let l := [(q 4, true); (q 1, false); (q 4, true); (q 1, false)] in
  (forall p, In p l -> fst p = if snd p then q 4 else q 1) /\ (exists p, In p l /\ snd p = true) /\ (exists p, In p l /\ snd p = false).
Proof.
  cbv zeta. split; [|split].
  - intros p [<-|[<-|[<-|[<-|[]]]]]; reflexivity.
  - exists (q 4, true). split; [left; reflexivity|reflexivity].
  - exists (q 1, false). split; [right; left; reflexivity|reflexivity].
Qed.
Example ex_nicv_hypotheses :
  let gs := [[q 1; q 1]; [q 3; q 3; q 3]] in
  Forall (fun g => g <> []) gs /\ (forall g, In g gs -> constant g) /\ ~ constant (concat gs).
Proof.
  cbv zeta. split; [repeat constructor; discriminate|]. split.
  - intros g [<-|[<-|[]]] a b Ha Hb; cbn in Ha, Hb; intuition congruence.
  - intros H. specialize (H (q 1) (q 3)). cbn in H. assert (E : q 1 = q 3) by (apply H; tauto). discriminate.
Qed.

(* the certificate on a miniature campaign: 6 traces x 2 samples, one word leaking at sample 0 (gain 1, noise-free there,
   noise in [-1, 1] at sample 1), 4 evaluated guesses (positions 5, 9, 17, 200; expected key 5), CPA / maxabs and NICV /
   nanmax with the float32 scores a correct implementation returns.  The model separates (leader = position 0 of the subset =
   guess 5), the check accepts, and it rejects the same record with two scores exchanged, with a wrong argmax, or with another
   expected key. *)
Definition ex_word (e : Z) : word_obs :=
  {| wo_expected := e; wo_guesses := [5; 9; 17; 200]%Z;
     wo_hyp := [[1; 2; 3; 4; 2; 0]; [4; 1; 2; 3; 3; 1]; [2; 2; 1; 1; 4; 3]; [0; 3; 1; 2; 2; 4]]%Z;
     wo_state := [1; 2; 3; 4; 2; 0]%Z; wo_leak := [0%nat] |}.
Definition ex_cpa_obs (s : list fval) (am : Z) : attack_obs :=
  {| ao_kind := ACpa; ao_disc := Models.DMaxabs; ao_word := 0; ao_T := []; ao_P := []; ao_scores := s; ao_argmax := am; ao_sep := true |}.
Definition ex_nicv_obs : attack_obs :=
  {| ao_kind := APart Partitioned.NICV; ao_disc := Models.DNanmax; ao_word := 0; ao_T := []; ao_P := [];
     ao_scores := [Fin 1 0; Fin 5033165 (-23); Fin 7549747 (-23); Fin 13421773 (-24)]; ao_argmax := 5%Z; ao_sep := true |}.
Definition ex_camp (e : Z) (atts : list attack_obs) : camp_case :=
  {| cc_S := 2; cc_offset := 0%Z; cc_gain := 1%Z; cc_amp := 1%Z; cc_traces := [[1; 0]; [2; 1]; [3; 0]; [4; 1]; [2; (-1)]; [0; 1]]%Z;
     cc_words := [ex_word e]; cc_parts := [0; 1; 2; 3; 4]%Z; cc_edges := []; cc_ln := []; cc_attacks := atts |}.
Definition ex_good : list fval := [Fin 1 0; Fin 9048957 (-24); Fin 4955 (-13); Fin 8717697 (-24)].
Definition ex_swapped : list fval := [Fin 9048957 (-24); Fin 1 0; Fin 4955 (-13); Fin 8717697 (-24)].

Example ex_certificate_accepts :
  camp_check (ex_camp 5 [ex_cpa_obs ex_good 5; ex_nicv_obs]) = true
  /\ camp_wiring (ex_camp 5 [ex_cpa_obs ex_good 5; ex_nicv_obs]) = true
  /\ option_map Qred (separated (model_scores (ex_camp 5 []) (ex_cpa_obs ex_good 5) (ex_word 5)) 0) = Some (73 # 800)%Q
  /\ map (option_map Qred) (model_scores (ex_camp 5 []) (ex_cpa_obs ex_good 5) (ex_word 5))
     = [Some (1 # 1); Some (16 # 55); Some (15 # 41); Some (27 # 100)]%Q
  /\ map (option_map Qred) (model_scores (ex_camp 5 []) ex_nicv_obs (ex_word 5))
     = [Some (1 # 1); Some (3 # 5); Some (9 # 10); Some (4 # 5)]%Q.
Proof. vm_compute. repeat split; reflexivity. Qed.

Example ex_certificate_rejects :
  camp_check (ex_camp 5 [ex_cpa_obs ex_swapped 5]) = false            (* the code's scores of two guesses exchanged *)
  /\ camp_check (ex_camp 5 [ex_cpa_obs ex_good 9]) = false            (* the code's argmax is another guess *)
  /\ camp_check (ex_camp 9 [ex_cpa_obs ex_good 9]) = false            (* the expected-key function names another guess, whose
                                                                          hypothesis column is not the leakage intermediate *)
  /\ camp_check (ex_camp 7 [ex_cpa_obs ex_good 7]) = false.           (* ... or a guess outside the evaluated positions *)
Proof. vm_compute. repeat split; reflexivity. Qed.

(* the hypotheses of bounded_noise_margin_partial are met by this record *)
Example ex_certificate_hypotheses :
  attack_ok (ex_camp 5 [ex_cpa_obs ex_good 5]) (ex_cpa_obs ex_good 5) = true
  /\ nth_error (cc_words (ex_camp 5 [ex_cpa_obs ex_good 5])) (ao_word (ex_cpa_obs ex_good 5)) = Some (ex_word 5)
  /\ find_pos (wo_expected (ex_word 5)) (wo_guesses (ex_word 5)) = Some 0%nat
  /\ is_some (separated (model_scores (ex_camp 5 [ex_cpa_obs ex_good 5]) (ex_cpa_obs ex_good 5) (ex_word 5)) 0) = true.
Proof. vm_compute. repeat split; reflexivity. Qed.
