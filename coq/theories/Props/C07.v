(* Props/C07.v — property C07: ready-made AES / DES attack selection functions predict the real cipher state under the true key.
   Only statements closed by [exact]; Print Assumptions beneath each.  Proofs are in Proofs/SelFun*.v.

   Vocabulary.
     Generated/SelFunWiring.v  (T-tie, regenerated from the source on every run) the wiring of every public class of
                               scared.{aes,des}.selection_functions.{encrypt,decrypt}: computing function, expected-key
                               function, default guesses / words / tags, the decrypt aliases, the bodies of _first_key /
                               _last_key (index into the key schedule) and of the computing helpers (array expressions).
     [aes_rows ns] / [des_rows ns] (Model/SelFun.v) = every public class of namespace ns as wired in the source.
     Spec/SelFunTargets.v      one row per class: which array it consumes (DIn = input of the operation of the namespace, DOut = its
                               output), which round key holds the expected key, the word function F_w(data, g) written with the
                               primitives of the standard, and the targeted state of Cipher_states / InvCipher_states (FIPS-197)
                               or des_state_at (FIPS 46-3).
     [aes_values_m row data guesses] / [des_values_m ..]  the (traces, guesses, words) array computed by the class's function:
                               evaluation of the generated helper expression on nested lists (guess loop, swapaxes, table
                               primitives of C05, broadcast xor; for DES the impl-model of des.encrypt of C06 with 128 equal words).
     [full_F F nW data guesses] the array whose entry (t, j, w) is F (data[t]) (guesses[j]) w.
     [sf_call_m]               SelectionFunction.__call__: values.swapaxes(0, -1)[words].swapaxes(0, -1).
   Well-formedness (byte values, lengths, at least one trace and one guess, DES guesses below 64) is an explicit hypothesis. *)
From Coq Require Import NArith ZArith Bool Arith String List.
From ScaredV Require Import Generated.SelFunWiring Spec.Fips197 Spec.Fips46 Spec.SelFunTargets Model.SelFun
  Proofs.AesPrims Proofs.DesSpec Proofs.SelFun Proofs.SelFunStops.
From ScaredV Require Model.Aes Model.Des.
Import ListNotations.
Open Scope N_scope.

(* ================================================================ AES *)
(* For EVERY row of the generated wiring table (10 classes: 5 per namespace): the class has a spec row of the same name; its
   default tags, default guesses (all 256, in order) and default words (all) are those of the spec; for all data and guesses
   the computed array is, in the layout (traces, guesses, words), F_w(data[t], guesses[j]) of the spec row (every guess column is
   the same computation with that guess in place of the key word); its expected-key function returns the spec's round key of
   the FIPS-197 key expansion, for the three key sizes. *)
Theorem aes_wiring : forall ns row, In row (aes_rows ns) -> exists sp,
  find_aes (r_name row) (aes_targets ns) = Some sp /\ In sp (aes_targets ns)
  /\ r_target_tag row = spec_tag ns (as_data sp) /\ r_key_tag row = spec_key_tag
  /\ r_nguesses row = aes_n_guesses /\ r_words_none row = true
  /\ (forall datas guesses, Forall wf datas -> datas <> [] -> bytes_lt 256 guesses -> guesses <> [] ->
        aes_values_m row datas guesses = Some (T3 (full_F (aes_F (as_F sp)) 16 datas guesses)))
  /\ (forall Nk key, In Nk [4; 6; 8]%nat -> Aes.wf_key Nk key ->
        aes_expected_key_m row key = Some (nth (as_key_round sp (Nr_of Nk)) (round_keys Nk key) [])).
Proof. exact aes_wiring_pf. Qed.
Print Assumptions aes_wiring.

(* Spec level, the real operation under the TRUE key (AES-128/192/256): for every spec row, F_w at the expected key word
   K[w] is word w of the targeted state of Cipher_states (encrypt namespace; data = plaintext or ciphertext = Cipher key pt) /
   InvCipher_states (decrypt namespace; data = ciphertext or plaintext = InvCipher key ct). *)
Theorem aes_targets_true_key : forall ns sp Nk key inp,
  In sp (aes_targets ns) -> In Nk [4; 6; 8]%nat -> Aes.wf_key Nk key -> Aes.wf_block inp ->
  let S := aes_states ns Nk key inp in
  let data := match as_data sp with DIn => inp | DOut => last S [] end in
  let k := nth (as_key_round sp (Nr_of Nk)) (round_keys Nk key) [] in
  Aes.wf_block data
  /\ forall w, (w < 16)%nat -> aes_F (as_F sp) data (nth w k 0) w = nth w (aes_target_state (as_target sp) (Nr_of Nk) S) 0.
Proof. exact aes_targets_true_key_pf. Qed.
Print Assumptions aes_targets_true_key.

(* "every other guess column is the same computation with that guess in place of the key word": the same statement for ANY
   round keys (not only those of a key expansion): column g is what a real cipher whose round key has K[w] = g would have. *)
Theorem aes_encrypt_targets_any_round_keys : forall Nr rks inp sp,
  In Nr [10; 12; 14]%nat -> keys_wf Nr rks -> wf inp -> In sp aes_encrypt_targets ->
  let S := cipher_states Nr rks inp in
  wf (data_of sp inp S)
  /\ forall w, (w < 16)%nat ->
       aes_F (as_F sp) (data_of sp inp S) (nth w (nth (as_key_round sp Nr) rks []) 0) w = nth w (aes_target_state (as_target sp) Nr S) 0.
Proof. exact aes_encrypt_targets_any_keys. Qed.
Print Assumptions aes_encrypt_targets_any_round_keys.

Theorem aes_decrypt_targets_any_round_keys : forall Nr rks inp sp,
  In Nr [10; 12; 14]%nat -> keys_wf Nr rks -> wf inp -> In sp aes_decrypt_targets ->
  let S := inv_cipher_states Nr rks inp in
  wf (data_of sp inp S)
  /\ forall w, (w < 16)%nat ->
       aes_F (as_F sp) (data_of sp inp S) (nth w (nth (as_key_round sp Nr) rks []) 0) w = nth w (aes_target_state (as_target sp) Nr S) 0.
Proof. exact aes_decrypt_targets_any_keys. Qed.
Print Assumptions aes_decrypt_targets_any_round_keys.

(* The property's first sentence, for every row of the generated table, every key size, key, batch of inputs and guesses:
   the array has shape (traces, guesses, 16); entry (t, j, w) is F_w(data[t], guesses[j]); and where guesses[j] is the expected key
   word of w (as returned by the class's expected-key function) it is word w of the targeted state of the real operation on
   input t. *)
Theorem aes_hypothesis_at_true_key : forall ns row, In row (aes_rows ns) ->
  exists sp, find_aes (r_name row) (aes_targets ns) = Some sp /\
  forall Nk key inps guesses, In Nk [4; 6; 8]%nat -> Aes.wf_key Nk key -> Forall Aes.wf_block inps -> inps <> [] ->
    bytes_lt 256 guesses -> guesses <> [] ->
    let states := map (aes_states ns Nk key) inps in
    let datas := match as_data sp with DIn => inps | DOut => map (fun S => last S []) states end in
    exists k v,
      aes_expected_key_m row key = Some k
      /\ aes_values_m row datas guesses = Some (T3 v)
      /\ rect3 (length inps) (length guesses) 16 v
      /\ forall t j w, (t < length inps)%nat -> (j < length guesses)%nat -> (w < 16)%nat ->
           nth w (nth j (nth t v []) []) 0 = aes_F (as_F sp) (nth t datas []) (nth j guesses 0) w
           /\ (nth j guesses 0 = nth w k 0 ->
               nth w (nth j (nth t v []) []) 0 = nth w (aes_target_state (as_target sp) (Nr_of Nk) (nth t states [])) 0).
Proof. exact aes_hypothesis_pf. Qed.
Print Assumptions aes_hypothesis_at_true_key.

(* the states the spec table names are stop points of the real cipher: the impl-model of scared.aes.encrypt / decrypt
   (at_round, after_step) of C05 returns them (this is the table the harness's independent oracle uses on the real code) *)
Theorem aes_targets_are_stop_points : forall Nk key inp, In Nk [4; 6; 8]%nat -> Aes.wf_key Nk key -> Aes.wf_block inp ->
  let Nr := Nr_of Nk in
  let S := Cipher_states Nk key inp in
  let I := InvCipher_states Nk key inp in
  Aes.encrypt_m key inp 0 3 = Some (nth 1 S [])
  /\ Aes.encrypt_m key inp 1 0 = Some (nth 2 S [])
  /\ Aes.encrypt_m key inp (Nr - 1) 3 = Some (nth (4 * Nr - 3) S [])
  /\ Aes.encrypt_m key inp Nr 1 = Some (nth (4 * Nr - 1) S [])
  /\ Aes.encrypt_m key inp Nr 3 = Some (last S [])
  /\ Aes.decrypt_m key inp 0 0 = Some (nth 1 I [])
  /\ Aes.decrypt_m key inp 0 3 = Some (nth 3 I [])
  /\ Aes.decrypt_m key inp (Nr - 1) 2 = Some (nth (4 * Nr - 2) I [])
  /\ Aes.decrypt_m key inp (Nr - 1) 3 = Some (nth (4 * Nr - 1) I [])
  /\ Aes.decrypt_m key inp Nr 3 = Some (last I []).
Proof. exact aes_targets_are_stop_points_pf. Qed.
Print Assumptions aes_targets_are_stop_points.

(* ================================================================ DES *)
(* For EVERY row of the generated wiring table (16 classes: 8 per namespace): spec row of the same name, default tags, default
   guesses (all 64, in order), default words; for all data and guesses below 64 the array computed by _des_function (the model
   of des.encrypt with an all-equal 128-word key, stopped in round 0 after the helper's step) is F_w(data[t], guesses[j]) in the
   layout (traces, guesses, words); the expected-key function returns K_1 or K_16 of the FIPS 46-3 key schedule as the spec says. *)
Theorem des_wiring : forall ns row, In row (des_rows ns) -> exists sp,
  find_des (r_name row) (des_targets ns) = Some sp /\ In sp (des_targets ns)
  /\ r_target_tag row = spec_tag ns (ds_data sp) /\ r_key_tag row = spec_key_tag
  /\ r_nguesses row = des_n_guesses /\ r_words_none row = true
  /\ (forall datas guesses, blocks datas -> bytes_lt 64 guesses -> guesses <> [] ->
        des_values_m row datas guesses = Some (T3 (full_F (des_F (ds_step sp)) 8 datas guesses)))
  /\ (forall key, length key = 8%nat ->
        des_expected_key_m row key = Some (nth (des_schedule_index ns (ds_key_use sp)) (des_key_schedule key) [])).
Proof. exact des_wiring_pf. Qed.
Print Assumptions des_wiring.

(* word w of the four targeted steps of an iteration depends on the round key through its word w only, and is F_w *)
Theorem des_step_word_is_F : forall K lr s w, okl 8 256 lr -> length K = 8%nat -> (w < 8)%nat -> tstep s ->
  length (des_step K lr s) = 8%nat /\ nth w (des_step K lr s) 0 = des_Flr s lr (nth w K 0) w.
Proof. exact des_step_word. Qed.
Print Assumptions des_step_word_is_F.

(* hence the all-equal-guess key gives in word w exactly what a real round key with K_w = g gives *)
Theorem des_other_guesses_real_key : forall K K' lr s w,
  okl 8 256 lr -> length K = 8%nat -> length K' = 8%nat -> (w < 8)%nat -> tstep s ->
  nth w K 0 = nth w K' 0 -> nth w (des_step K lr s) 0 = nth w (des_step K' lr s) 0.
Proof. exact des_step_word_indep. Qed.
Print Assumptions des_other_guesses_real_key.

(* spec level, ANY sixteen round keys in the order of use: F_w at the key word is word w of the targeted value of the operation,
   for the classes reading the input (first iteration) and for those reading the output (last iterations seen through IP) *)
Theorem des_targets_any_round_keys : forall rks inp sp, rks_ok rks -> okl 8 256 inp -> In sp des_rows_generic ->
  okl 8 256 (des_data_of sp rks inp)
  /\ forall w, (w < 8)%nat ->
       des_F (ds_step sp) (des_data_of sp rks inp) (nth w (nth (ds_key_use sp) rks []) 0) w
       = nth w (des_state_at rks inp (fst (ds_at sp)) (snd (ds_at sp))) 0.
Proof. exact des_targets_any_keys. Qed.
Print Assumptions des_targets_any_round_keys.

(* the real operation under the TRUE 8-byte key: encryption (round keys K_1 .. K_16) / decryption (K_16 .. K_1) *)
Theorem des_targets_true_key : forall ns sp key inp, In sp (des_targets ns) -> Des.is_block inp ->
  let ks := des_key_schedule key in
  let rks := des_rks ns ks in
  let data := match ds_data sp with DIn => inp | DOut => des_core rks inp end in
  let K := nth (des_schedule_index ns (ds_key_use sp)) ks [] in
  Des.is_block data
  /\ forall w, (w < 8)%nat -> des_F (ds_step sp) data (nth w K 0) w = nth w (des_state_at rks inp (fst (ds_at sp)) (snd (ds_at sp))) 0.
Proof. exact des_targets_true_key_pf. Qed.
Print Assumptions des_targets_true_key.

Theorem des_hypothesis_at_true_key : forall ns row, In row (des_rows ns) ->
  exists sp, find_des (r_name row) (des_targets ns) = Some sp /\
  forall key inps guesses, length key = 8%nat -> Forall Des.is_block inps -> inps <> [] -> bytes_lt 64 guesses -> guesses <> [] ->
    let rks := des_rks ns (des_key_schedule key) in
    let datas := match ds_data sp with DIn => inps | DOut => map (des_core rks) inps end in
    exists k v,
      des_expected_key_m row key = Some k
      /\ des_values_m row datas guesses = Some (T3 v)
      /\ rect3 (length inps) (length guesses) 8 v
      /\ forall t j w, (t < length inps)%nat -> (j < length guesses)%nat -> (w < 8)%nat ->
           nth w (nth j (nth t v []) []) 0 = des_F (ds_step sp) (nth t datas []) (nth j guesses 0) w
           /\ (nth j guesses 0 = nth w k 0 ->
               nth w (nth j (nth t v []) []) 0 = nth w (des_state_at rks (nth t inps []) (fst (ds_at sp)) (snd (ds_at sp))) 0).
Proof. exact des_hypothesis_pf. Qed.
Print Assumptions des_hypothesis_at_true_key.

(* des_state_at of the operation is what the impl-model of scared.des.encrypt / decrypt (at_round, after_step) of C06 returns *)
Theorem des_targets_are_stop_points : forall ns key inp r s, Des.is_block key -> Des.is_block inp -> (r <= 15)%nat -> (s <= 9)%nat ->
  Des.des_cipher (match ns with NsEncrypt => false | NsDecrypt => true end) 0 r s key inp
  = Some (des_state_at (des_rks ns (des_key_schedule key)) inp r s).
Proof. exact des_targets_are_stop_points_pf. Qed.
Print Assumptions des_targets_are_stop_points.

(* ================================================================ words and guesses *)
(* sf(words = W)(x) = full(x)[:, :, W]: the model of values.swapaxes(0, -1)[words].swapaxes(0, -1) on a (nT, nG, nW) array is
   the selection on the last axis, for every form of words (None / Ellipsis, int, list or ndarray, slice); refused selections
   (index out of range, zero step) are refused on both sides *)
Theorem words_slice : forall nT nG nW w v, rect3 nT nG nW v -> sf_call_m (Some (T3 v)) nT nG nW w = select_words nW w v.
Proof. exact sf_call_pf. Qed.
Print Assumptions words_slice.

(* shape (traces, guesses, |W|); 2-D (traces, guesses) for an int *)
Theorem words_slice_shape : forall nT nG nW w v t, rect3 nT nG nW v -> select_words nW w v = Some t ->
  match w with
  | WInt _ => exists m, t = T2 m /\ length m = nT /\ Forall (fun r => length r = nG) m
  | _ => exists c ps, words_positions nW w = Some ps /\ t = T3 c /\ rect3 nT nG (length ps) c
  end.
Proof. exact select_words_shape_pf. Qed.
Print Assumptions words_slice_shape.

(* an accepted selection names positions of the axis only (python slice semantics included): no entry of the result comes from a
   default value of the model *)
Theorem words_positions_are_in_range : forall n w ps, words_positions n w = Some ps -> Forall (fun p => (p < n)%nat) ps.
Proof. exact words_positions_in_range. Qed.
Print Assumptions words_positions_are_in_range.

(* sf(guesses = G)(x) = full(x)[:, G positions, :]: for guesses taken in the default range 0 .. n-1 (any subset, order, repetition)
   the array is made of the corresponding planes of the array for the default guesses *)
Theorem guesses_subset : forall F nW n data G, Forall (fun g => g < N.of_nat n) G ->
  full_F F nW data G = select_guesses G (full_F F nW data (nrange n)).
Proof. exact guesses_subset_pf. Qed.
Print Assumptions guesses_subset.

(* very large batches made of few distinct rows (the count-boundary cases of the correspondence harness): the array of a batch given
   as runs of repeated rows is the array of the distinct rows expanded along the same runs, and so is every words selection *)
Theorem batches_of_repeated_rows : forall F nW w rows runs G, runs_ok (length rows) runs = true ->
  select_words nW w (full_F F nW (expand [] rows runs) G)
  = option_map (fun t => expand_tens t runs) (select_words nW w (full_F F nW rows G)).
Proof. exact batches_of_repeated_rows_pf. Qed.
Print Assumptions batches_of_repeated_rows.


(* ================================================================ non-vacuity (FIPS vectors) *)
Definition kB := Fips197.bytes_be 16 0x2b7e151628aed2a6abf7158809cf4f3c.
Definition pB := Fips197.bytes_be 16 0x3243f6a8885a308d313198a2e0370734.
Definition cB := Fips197.bytes_be 16 0x3925841d02dc09fbdc118597196a0b32.
Definition kD := Fips46.bytes_be 8 0x133457799BBCDFF1.
Definition pD := Fips46.bytes_be 8 0x0123456789ABCDEF.
Definition cD := Fips46.bytes_be 8 0x85E813540F0AB405.

Definition the_row (rows : list sf_row) (name : string) : sf_row :=
  match find_row name rows with Some r => r | None => Build_sf_row "" "" "" 0 true "" "" end.

(* the hypotheses of the theorems are met by the appendix vectors; the tables have the expected number of rows *)
Example vectors_meet_hypotheses :
  Aes.wf_key 4 kB /\ Aes.wf_block pB /\ Aes.wf_block cB /\ Des.is_block kD /\ Des.is_block pD.
Proof.
  assert (B : forall l, Aes.is_bytes l = true -> Forall (fun x => x < 256) l) by exact AesPrims.is_bytes_sound.
  repeat split; try (apply B; vm_compute; reflexivity); vm_compute; reflexivity.
Qed.

Example tables_and_ciphertexts :
  (length (aes_rows NsEncrypt), length (aes_rows NsDecrypt), length (des_rows NsEncrypt), length (des_rows NsDecrypt)) = (5, 5, 8, 8)%nat
  /\ Cipher 4 kB pB = cB /\ des_core (des_key_schedule kD) pD = cD.
Proof. vm_compute. repeat split; reflexivity. Qed.

(* FIPS-197 Appendix B through the generated wiring: at the guesses k0[0] = 2b and k0[1] = 7e, FirstSubBytes(plaintext) gives
   round[1].s_box bytes 0 and 1 = d4, 27 (the diagonal of the (guess, word) plane); LastSubBytes(ciphertext) at k10[0] = d0 gives byte 0 of round[10].start = eb;
   the expected keys are the first and the last round key; and the decrypt namespace reads the same numbers from the other side *)
Example appendix_B_through_the_wiring :
  let fsb := the_row (aes_rows NsEncrypt) "FirstSubBytes" in
  let lsb := the_row (aes_rows NsEncrypt) "LastSubBytes" in
  let dfs := the_row (aes_rows NsDecrypt) "FirstSubBytes" in
  sf_call_m (aes_values_m fsb [pB] [0x2b; 0x7e]) 1 2 16 (WList [0; 1]%Z) = Some (T3 [[[0xd4; 0x45]; [0x29; 0x27]]])
  /\ aes_expected_key_m fsb kB = Some kB
  /\ aes_expected_key_m lsb kB = Some (Fips197.bytes_be 16 0xd014f9a8c9ee2589e13f0cc8b6630ca6)
  /\ sf_call_m (aes_values_m lsb [cB] [0xd0]) 1 1 16 (WInt 0) = Some (T2 [[0xeb]])
  /\ sf_call_m (aes_values_m dfs [cB] [0xd0]) 1 1 16 (WInt 0) = Some (T2 [[0xeb]])
  /\ r_target_tag dfs = "ciphertext"%string.
Proof. vm_compute. repeat split; reflexivity. Qed.

(* the DES worked example: at the words of K1 the S-box output of round 1 is 5 12 8 2 11 5 9 7 (column j = word j here) *)
Example des_worked_example_through_the_wiring :
  let fs := the_row (des_rows NsEncrypt) "FirstSboxes" in
  des_expected_key_m fs kD = Some [6; 48; 11; 47; 63; 7; 1; 50]
  /\ option_map (fun t => match t with T3 [plane] => map (fun j => nth j (nth j plane []) 0) (seq 0 8) | _ => [] end)
       (des_values_m fs [pD] [6; 48; 11; 47; 63; 7; 1; 50]) = Some [5; 12; 8; 2; 11; 5; 9; 7]
  /\ des_expected_key_m (the_row (des_rows NsEncrypt) "LastSboxes") kD = Some [50; 51; 54; 11; 3; 33; 31; 53].
Proof. vm_compute. repeat split; reflexivity. Qed.

(* the check functions of the correspondence harness accept a true observation and refuse a wrong one *)
Example checks_discriminate :
  let c (v : N) := {| ac_ns := NsEncrypt; ac_name := "LastSubBytes"; ac_key := kB; ac_inp := [pB]; ac_out := [cB];
                      ac_guesses := Some [0xd0; 0x00]; ac_words := WInt 0; ac_obs := Some ([1; 2]%nat, [v; 0x5b]);
                      ac_expkey := Fips197.bytes_be 16 0xd014f9a8c9ee2589e13f0cc8b6630ca6 |} in
  aes_sf_check (c 0xeb) = true /\ aes_sf_corr (c 0xeb) = true /\ aes_sf_check (c 0xec) = false.
Proof. vm_compute. repeat split; reflexivity. Qed.
