(* placeholder while the harness is being developed *)
From ScaredV Require Import Model.SelFun.
