#!/venv/bin/python
"""Run every translator against /repo (used by setup.sh)."""
import sys
from pathlib import Path
sys.path.insert(0, str(Path(__file__).resolve().parent))
from lib import core
from translate import run_translators, registry
res = run_translators(registry(), core.REPO, core.GENERATED)
bad = {k: v for k, v in res.items() if v['status'] != 'ok'}
for k, v in res.items():
    print(k, v['status'], v['msg'])
sys.exit(1 if bad else 0)
