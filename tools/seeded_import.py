#!/venv/bin/python
"""seeded_import.py <mutdir> <Cnn> [suffix]: copy out/<k>/{patch.diff,demo.py,notes.txt} of an independent sub-agent into seeded/<Cnn>-m<suffix><k>/ with a meta.json."""
import json, shutil, sys
from pathlib import Path
V = Path(__file__).resolve().parents[1]
mut, pid = Path(sys.argv[1]), sys.argv[2]
suf = sys.argv[3] if len(sys.argv) > 3 else ''
for d in sorted((mut / 'out').iterdir()):
    if not (d / 'patch.diff').exists():
        continue
    dst = V / 'seeded' / f'{pid}-m{suf}{d.name}'
    dst.mkdir(parents=True, exist_ok=True)
    for f in ('patch.diff', 'demo.py', 'notes.txt'):
        if (d / f).exists():
            shutil.copy(d / f, dst / f)
    notes = (d / 'notes.txt').read_text() if (d / 'notes.txt').exists() else ''
    (dst / 'meta.json').write_text(json.dumps({
        'breaks': pid, 'origin': 'independent sub-agent given only the property text and a scratch worktree',
        'needs': ' '.join(notes.split())[:700], 'ran': 'tools/seeded_run.py --suite ' + dst.name + ' (see result.json)', 'caught_by': None}, indent=1))
    print(dst)
