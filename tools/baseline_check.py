#!/venv/bin/python
"""Run the repository suite (guard off) and compare with /root/.vp/BASELINE.json stable_pass.  Usage: baseline_check.py [repo] [-n N]"""
import json, subprocess, sys, os, tempfile, xml.etree.ElementTree as ET
repo = sys.argv[1] if len(sys.argv) > 1 and not sys.argv[1].startswith('-') else '/repo'
extra = [a for a in sys.argv[1:] if a.startswith('-')]
base = json.load(open('/root/.vp/BASELINE.json'))
stable = set(base['stable_pass'])
fd, xml = tempfile.mkstemp(suffix='.xml', dir='/verif/.work'); os.close(fd)
env = dict(os.environ); env.pop('SCARED_VERIF', None); env['PYTHONDONTWRITEBYTECODE'] = '1'
subprocess.run(['/venv/bin/python', '-m', 'pytest', '-q', '-p', 'no:cacheprovider', '--timeout=900', '--continue-on-collection-errors',
                f'--junitxml={xml}'] + extra, cwd=repo, env=env, stdout=subprocess.DEVNULL, stderr=subprocess.DEVNULL)
passed = set()
for tc in ET.parse(xml).getroot().iter('testcase'):
    if not any(ch.tag in ('failure', 'error', 'skipped') for ch in tc):
        passed.add(f"{tc.get('classname')}::{tc.get('name')}")
os.unlink(xml)
missing = sorted(stable - passed)
print(f'stable={len(stable)} passed_now={len(passed)} stable_missing={len(missing)}')
for m in missing[:30]:
    print('  MISSING', m)
sys.exit(1 if missing else 0)
