"""Core of the /verif check machinery: paths, Coq build/eval, audit, evidence, replay, known findings.

Run under /venv/bin/python with PYTHONPATH=/repo (see ./check).
"""
import fcntl
import hashlib
import json
import os
import random
import re
import shutil
import subprocess
import sys
import time
from concurrent.futures import ThreadPoolExecutor
from pathlib import Path

VERIF = Path(__file__).resolve().parents[2]
REPO = Path(os.environ.get('VERIF_REPO', '/repo'))
COQ = VERIF / 'coq'
THEORIES = COQ / 'theories'
GENERATED = THEORIES / 'Generated'
WORK = VERIF / '.work'
# runs against a mutated copy (VERIF_REPO set to something else than /repo) must not overwrite the evidence of the real tree
_ALT = str(REPO) != '/repo'
EVIDENCE = (WORK / 'alt' / 'evidence') if _ALT else VERIF / 'evidence'
REPLAYS = (WORK / 'alt' / 'replays') if _ALT else VERIF / 'replays'
CORPUS = VERIF / 'corpus'
KNOWN = VERIF / 'known_findings.json'
COQ_FLAGS = ['-R', str(THEORIES), 'ScaredV']
NPROC = min(16, os.cpu_count() or 4)

FORBIDDEN = re.compile(r'\b(Admitted|admit|Axiom|Axioms|Parameter|Parameters|Conjecture|Conjectures|Hypothesis|Hypotheses|Variable|Variables|Unset\s+Guard|bypass_check|Admit\s+Obligations|type-in-type|impredicative-set|Unset\s+Universe\s+Checking|Unset\s+Positivity)\b')
SECTION_OK = re.compile(r'\b(Variable|Variables|Hypothesis|Hypotheses|Context)\b')

# Axioms of the standard library that the trusted base (DESIGN.md section 5) names.
ALLOWED_AXIOMS = {
    'ClassicalDedekindReals.sig_forall_dec', 'ClassicalDedekindReals.sig_not_dec',
    'FunctionalExtensionality.functional_extensionality_dep', 'Classical_Prop.classic',
    'Eqdep.Eq_rect_eq.eq_rect_eq', 'JMeq.JMeq_eq', 'ProofIrrelevance.proof_irrelevance',
    'functional_extensionality_dep', 'classic', 'sig_forall_dec', 'sig_not_dec', 'eq_rect_eq',
}


def log(*a):
    print(*a, file=sys.stderr, flush=True)


# --------------------------------------------------------------------------------------------- Coq build

class CoqLock:
    def __enter__(self):
        COQ.mkdir(exist_ok=True)
        self.f = open(COQ / '.lock', 'w')
        fcntl.flock(self.f, fcntl.LOCK_EX)
        return self

    def __exit__(self, *a):
        fcntl.flock(self.f, fcntl.LOCK_UN)
        self.f.close()


def all_v_files():
    return sorted(str(p.relative_to(COQ)) for p in THEORIES.rglob('*.v') if '/cases' not in str(p))


def ensure_makefile():
    """(Re)write _CoqProject and Makefile when the set of .v files changed."""
    files = all_v_files()
    proj = '-R theories ScaredV\n' + '\n'.join(files) + '\n'
    pf = COQ / '_CoqProject'
    if not pf.exists() or pf.read_text() != proj or not (COQ / 'Makefile').exists():
        pf.write_text(proj)
        subprocess.run(['coq_makefile', '-f', '_CoqProject', '-o', 'Makefile'], cwd=COQ, check=True,
                       stdout=subprocess.DEVNULL, stderr=subprocess.DEVNULL)


def coq_make(targets=None, timeout=1500, jobs=NPROC):
    """Full .vo build (never -vos/-vok) of the given targets (relative to coq/), under flock and timeout."""
    with CoqLock():
        ensure_makefile()
        cmd = ['timeout', str(timeout), 'make', f'-j{jobs}'] + (targets or [])
        t0 = time.time()
        p = subprocess.run(cmd, cwd=COQ, stdout=subprocess.PIPE, stderr=subprocess.STDOUT, text=True)
        return p.returncode == 0, p.stdout, time.time() - t0, ' '.join(cmd)


def coqc_file(path, timeout=600, cwd=None):
    cmd = ['timeout', str(timeout), 'coqc'] + COQ_FLAGS + [str(path)]
    p = subprocess.run(cmd, cwd=cwd or COQ, stdout=subprocess.PIPE, stderr=subprocess.STDOUT, text=True)
    return p.returncode, p.stdout


def props_assumptions(prop_id):
    """Re-compile Props/<id>.v (its dependencies are built) and parse every `Print Assumptions` answer.

    Returns (ok, [(theorem, [axioms])], raw_output).  The theorem names are taken from the file in order.
    """
    src = THEORIES / 'Props' / f'{prop_id}.v'
    text = src.read_text()
    names = re.findall(r'^\s*Print\s+Assumptions\s+([A-Za-z0-9_\.\']+)\s*\.', text, re.M)
    with CoqLock():
        rc, out = coqc_file(src, timeout=900)
    if rc != 0:
        return False, [], out
    # split the output into answers: each is either "Closed under the global context" or "Axioms:\n ..."
    answers = []
    cur = None
    for line in out.splitlines():
        if line.startswith('Closed under the global context'):
            if cur is not None:
                answers.append(cur)
                cur = None
            answers.append([])
        elif line.startswith('Axioms:'):
            if cur is not None:
                answers.append(cur)
            cur = []
        elif cur is not None:
            m = re.match(r'^([A-Za-z_][A-Za-z0-9_\.\']*)\s*:', line)
            if m:
                cur.append(m.group(1))
            elif line and not line[0].isspace():
                # new non-axiom output: close the block
                answers.append(cur)
                cur = None
    if cur is not None:
        answers.append(cur)
    if len(answers) != len(names):
        return False, list(zip(names, answers)), out + f'\n[verif] expected {len(names)} Print Assumptions answers, parsed {len(answers)}'
    return True, list(zip(names, answers)), out


def run_coqchk(prop_id, timeout=2400):
    """coqchk -o on Props/<id>.vo and everything it depends on; returns {ok, cmd, axioms, tail, wall_s}."""
    cmd = ['timeout', str(timeout), 'coqchk', '-silent', '-o', '-R', 'theories', 'ScaredV', f'ScaredV.Props.{prop_id}']
    t0 = time.time()
    with CoqLock():
        p = subprocess.run(cmd, cwd=COQ, stdout=subprocess.PIPE, stderr=subprocess.STDOUT, text=True)
    out = p.stdout
    axioms = []
    m = re.search(r'\* Axioms:(.*?)\n\s*\n\* Constants', out, re.S)
    if m:
        axioms = [a.strip() for a in m.group(1).split('\n') if a.strip() and a.strip() != '<none>']
    names = [a.split(':')[0].strip() for a in axioms]
    foreign = [a for a in names if a not in ALLOWED_AXIOMS and a.split('.')[-1] not in ALLOWED_AXIOMS]
    clean = all(f'* {k}: <none>' in out for k in ('Constants/Inductives relying on type-in-type', 'Constants/Inductives relying on unsafe (co)fixpoints',
                                                   'Inductives whose positivity is assumed'))
    return {'ok': p.returncode == 0 and not foreign and clean, 'cmd': 'cd /verif/coq && ' + ' '.join(cmd), 'axioms': names, 'tail': out[-1500:],
            'wall_s': round(time.time() - t0, 1)}


def audit_sources():
    """Forbidden vernacular anywhere in the development (Variables/Hypotheses are allowed inside Sections only)."""
    bad = []
    for p in THEORIES.rglob('*.v'):
        depth = 0
        text = p.read_text()
        # strip comments (nested)
        text = strip_comments(text)
        for ln, line in enumerate(text.splitlines(), 1):
            if re.match(r'^\s*Section\b', line):
                depth += 1
            elif re.match(r'^\s*End\b', line) and depth > 0:
                depth -= 1
            for m in FORBIDDEN.finditer(line):
                w = m.group(1)
                if SECTION_OK.fullmatch(w) and depth > 0:
                    continue
                bad.append(f'{p.relative_to(VERIF)}:{ln}: {w}')
    return bad


def strip_comments(text):
    out = []
    depth = 0
    i = 0
    n = len(text)
    while i < n:
        if text.startswith('(*', i):
            depth += 1
            i += 2
        elif text.startswith('*)', i) and depth > 0:
            depth -= 1
            i += 2
        else:
            if depth == 0:
                out.append(text[i])
            elif text[i] == '\n':
                out.append('\n')
            i += 1
    return ''.join(out)


# --------------------------------------------------------------------------------------------- case evaluation in Coq

LIST_RE = re.compile(r'=\s*\[(.*?)\]\s*(?:%\w+)?\s*:\s*list nat', re.S)


def parse_failing(out):
    """Parse the single `= [..] : list nat` answer of `Eval vm_compute in failing ...`."""
    m = LIST_RE.search(out)
    if not m:
        return None
    body = m.group(1).strip()
    if not body:
        return []
    return [int(x.replace('%nat', '').strip()) for x in body.split(';')]


def eval_shard(workdir, name, header, case_type, check_fn, coq_cases, explain_fn=None, timeout=900, corr_fn=None):
    """Write one cases file and evaluate `failing check cases` inside Coq.  Returns (failing indices | None, output)."""
    path = Path(workdir) / f'{name}.v'
    with open(path, 'w') as f:
        f.write(header + '\n')
        f.write('From ScaredV Require Import Run.Compare.\nFrom Coq Require Import List ZArith NArith QArith. Import ListNotations.\n')
        f.write(f'Definition cases : list ({case_type}) := [\n')
        f.write(';\n'.join(coq_cases))
        f.write('\n].\n')
        f.write(f'Eval vm_compute in (failing ({check_fn}) cases).\n')
        if corr_fn:
            f.write(f'Eval vm_compute in (failing ({corr_fn}) cases).\n')
        if explain_fn:
            f.write(f'Eval vm_compute in (map ({explain_fn}) cases).\n')
    rc, out = coqc_file(path, timeout=timeout, cwd=workdir)
    for ext in ('.vo', '.vok', '.vos', '.glob'):
        q = path.with_suffix(ext)
        if q.exists():
            q.unlink()
    aux = path.parent / ('.' + path.stem + '.aux')
    if aux.exists():
        aux.unlink()
    if rc != 0:
        return None, out
    if corr_fn:
        both = parse_failing_all(out)
        if len(both) < 2:
            return None, out
        return (both[0], both[1]), out
    return parse_failing(out), out


def parse_failing_all(out):
    res = []
    for m in LIST_RE.finditer(out):
        body = m.group(1).strip()
        res.append([int(x.replace('%nat', '').strip()) for x in body.split(';')] if body else [])
    return res


def eval_cases(workdir, tag, header, case_type, check_fn, coq_cases, shard=300, timeout=900, corr_fn=None):
    """Shard the cases over parallel coqc runs; returns (sorted failing global indices, errors list)."""
    shards = [(i, coq_cases[i:i + shard]) for i in range(0, len(coq_cases), shard)]
    failing, errors = [], []

    def work(arg):
        k, (base, cs) = arg
        idx, out = eval_shard(workdir, f'cases_{tag}_{k}', header, case_type, check_fn, cs, timeout=timeout, corr_fn=corr_fn)
        return base, idx, out

    corr_failing = []
    with ThreadPoolExecutor(max_workers=NPROC) as ex:
        for base, idx, out in ex.map(work, enumerate(shards)):
            if idx is None:
                errors.append(out[-3000:])
            elif corr_fn:
                failing.extend(base + i for i in idx[0])
                corr_failing.extend(base + i for i in idx[1])
            else:
                failing.extend(base + i for i in idx)
    if corr_fn:
        return (sorted(failing), sorted(corr_failing)), errors
    return sorted(failing), errors


def explain_case(workdir, tag, header, case_type, check_fn, explain_fn, coq_case):
    """For one failing case: ask Coq for the model's own output (text), for the replay file."""
    path = Path(workdir) / f'explain_{tag}.v'
    with open(path, 'w') as f:
        f.write(header + '\n')
        f.write('From ScaredV Require Import Run.Compare.\nFrom Coq Require Import List ZArith NArith QArith. Import ListNotations.\n')
        f.write(f'Definition c : {case_type} := {coq_case}.\n')
        f.write(f'Eval vm_compute in ({check_fn} c).\n')
        if explain_fn:
            f.write(f'Eval vm_compute in ({explain_fn} c).\n')
    rc, out = coqc_file(path, timeout=300, cwd=workdir)
    return out[-4000:]


# --------------------------------------------------------------------------------------------- known findings / replay / evidence

def load_known():
    if KNOWN.exists():
        return json.loads(KNOWN.read_text()).get('findings', [])
    return []


def match_known(prop_id, tags):
    """Return the first *known* (not fixed) finding of this property whose tag is among the failure's tags."""
    for f in load_known():
        if f.get('property') == prop_id and f.get('kind') == 'known' and f.get('tag') in tags:
            return f
    return None


def write_replay(prop_id, payload):
    REPLAYS.mkdir(parents=True, exist_ok=True)
    blob = json.dumps(payload, sort_keys=True, default=str)
    h = hashlib.sha1(blob.encode()).hexdigest()[:12]
    path = REPLAYS / f'{prop_id}-{h}.json'
    path.write_text(json.dumps(payload, indent=1, sort_keys=True, default=str))
    return path


def write_evidence(prop_id, tier, seed, coverage, assumptions, wall_s, violations):
    EVIDENCE.mkdir(parents=True, exist_ok=True)
    ev = {
        'property_id': prop_id, 'tier': tier, 'seed': int(seed), 'level': 'proof',
        'coverage': coverage, 'assumptions': assumptions, 'wall_s': round(wall_s, 2), 'violations': int(violations),
    }
    (EVIDENCE / f'{prop_id}.json').write_text(json.dumps(ev, indent=1, default=str))
    return ev


def case_hash(obj):
    return hashlib.sha1(json.dumps(obj, sort_keys=True, default=str).encode()).hexdigest()


def make_rng(seed, stream):
    return random.Random(f'{seed}/{stream}')


def workdir_for(prop_id):
    d = WORK / f'{prop_id}-{os.getpid()}'
    if d.exists():
        shutil.rmtree(d)
    d.mkdir(parents=True)
    return d


def float_to_coq(x):
    """Exact export of a Python/numpy float as Compare.fval."""
    import math
    x = float(x)
    if math.isnan(x):
        return 'NaN'
    if math.isinf(x):
        return 'PInf' if x > 0 else 'NInf'
    m, e = math.frexp(x)          # x = m * 2**e, 0.5 <= |m| < 1
    mi = int(m * (1 << 53))       # exact: 53-bit mantissa
    ei = e - 53
    while mi != 0 and mi % 2 == 0:
        mi //= 2
        ei += 1
    if mi == 0:
        ei = 0
    ms = f'({mi})' if mi < 0 else f'{mi}'
    es = f'({ei})' if ei < 0 else f'{ei}'
    return f'(Fin {ms} {es})'
