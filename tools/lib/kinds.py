"""Case kinds: the unit of the correspondence engine (C-tie).

A Kind generates cases (JSON-able dicts), runs each on the implementation, prints each as a Coq record whose
check function (defined in coq/theories/Model or Run) re-computes the expected value with the model/spec inside
Coq and compares it with what the implementation returned.
"""
import traceback


class HarnessError(Exception):
    pass


class Kind:
    name = 'kind'
    header = ''            # Coq "From ScaredV Require Import ..." lines
    case_type = ''         # Coq type of one case record
    check_fn = ''          # Coq function case -> bool
    explain_fn = None      # optional Coq function case -> model output (printed into replay files)
    shard = 300            # cases per coqc run
    rule = ''              # what makes a case non-trivial (evidence)

    def gen(self, rng, tier):
        """Yield cases (JSON-able dicts).  All randomness from rng."""
        raise NotImplementedError

    def run(self, case):
        """Run the implementation on the case; return a JSON-able observation (exceptions mapped to tags)."""
        raise NotImplementedError

    def coq(self, case, obs):
        """Coq literal of type case_type holding the inputs and the observation."""
        raise NotImplementedError

    def nontrivial(self, case, obs):
        return True

    def tags(self, case, obs):
        """Tags used to match known findings."""
        return [self.name]

    def oracle(self, case, obs):
        """Optional property-level oracle on the implementation alone; return None or a failure description."""
        return None

    def shrink(self, case):
        """Yield smaller variants of a failing case (optional)."""
        return iter(())

    def features(self, case, obs):
        """Dict of histogram features for the evidence (input distribution)."""
        return {}

    def sample(self, case, obs):
        return {'case': case, 'observed': obs}


def exc_tag(e):
    """Map an exception to a small enum (class name)."""
    return type(e).__name__


def safe_run(kind, case):
    try:
        return kind.run(case)
    except HarnessError:
        raise
    except Exception as e:  # an unexpected exception of the implementation is an observation
        return {'raised': exc_tag(e), 'msg': str(e)[:200], 'tb': traceback.format_exc()[-600:]}
