#!/venv/bin/python
"""./check <Cxx> quick|thorough      decide one property on /repo's current working tree
   ./check --replay <file>          re-run one recorded failing case on the current tree

Steps (DESIGN.md section 2.6): regenerate Generated/*.v from the source (T-tie), full .vo build of the model and of
Props/<id>.v, audit (forbidden vernacular, Print Assumptions), correspondence (C-tie, evaluated inside Coq),
property-level oracles on the implementation, evidence, VIOLATION / KNOWN-FINDING lines.
"""
import importlib
import json
import os
import shutil
import sys
import time
from collections import Counter
from pathlib import Path

HERE = Path(__file__).resolve().parent
sys.path.insert(0, str(HERE))
os.environ.setdefault('PYTHONHASHSEED', '0')
os.environ.setdefault('PYTHONDONTWRITEBYTECODE', '1')
os.environ.setdefault('NUMBA_CACHE_DIR', str(HERE.parent / '.work' / 'numba_cache'))

from lib import core  # noqa: E402
from lib.kinds import safe_run  # noqa: E402
from translate import run_translators  # noqa: E402
import fingerprint  # noqa: E402

DEFAULT_SEED = 20260926
ESCALATION_BUDGET_S = 110     # an extra generator stream starts only if everything before it took less than this per stream
MAX_REPORTED = 6


def load_prop(prop_id):
    return importlib.import_module(f'props.{prop_id}')


def run_kind(kind, cases, workdir, tag):
    """Run implementation + Coq comparison for a list of cases.  Returns (observations, failing idx, errors)."""
    obs = [safe_run(kind, c) for c in cases]
    coq_cases = [kind.coq(c, o) for c, o in zip(cases, obs)]
    corr_fn = getattr(kind, 'corr_fn', None)
    failing, errors = core.eval_cases(workdir, tag, kind.header, kind.case_type, kind.check_fn, coq_cases, shard=kind.shard, corr_fn=corr_fn)
    if corr_fn:
        failing, corr_failing = failing
        # cases on which the property-level check passes but the implementation left the impl-model (correspondence only)
        kind._corr_only = [i for i in corr_failing if i not in set(failing)]
    else:
        kind._corr_only = []
    return obs, failing, errors


def still_fails(kind, case, workdir):
    o = safe_run(kind, case)
    if kind.oracle(case, o):
        return True, o
    idx, out = core.eval_shard(workdir, 'shrink', kind.header, kind.case_type, kind.check_fn, [kind.coq(case, o)])
    return (idx == [0]), o     # a cases file that does not evaluate (idx None) is not evidence that the case still fails


def shrink_case(kind, case, workdir, budget_s=40, max_steps=60):
    t0 = time.time()
    steps = 0
    cur = case
    progress = True
    while progress and time.time() - t0 < budget_s and steps < max_steps:
        progress = False
        for cand in kind.shrink(cur):
            steps += 1
            try:
                f, _ = still_fails(kind, cand, workdir)
            except Exception:
                f = False
            if f:
                cur = cand
                progress = True
                break
            if time.time() - t0 > budget_s or steps >= max_steps:
                break
    return cur


def check_property(prop_id, tier, seed):
    t0 = time.time()
    if os.environ.get('VERIF_TEST_ABORT') == '1':      # self-test of the supervising parent only
        os.abort()
    mod = load_prop(prop_id)
    workdir = core.workdir_for(prop_id)
    notes = []
    violations = []          # dicts: {tags, what, payload}
    known_lines = []
    try:
        # 1. T-tie: regenerate Generated/*.v
        ttie = run_translators(getattr(mod, 'TRANSLATORS', []), core.REPO, core.GENERATED)
        for name, st in ttie.items():
            if st['status'] != 'ok':
                notes.append(f'translator {name} failed closed: {st["msg"]} -- falling back to the C-tie with the last good generated model')
            elif st['changed']:
                notes.append(f'translator {name}: generated model changed since the last run')
        # 2./3. builds
        ok_model, log_model, t_model, cmd_model = core.coq_make(mod.MODEL_TARGETS)
        ok_prop, log_prop, t_prop, cmd_prop = (False, '', 0.0, '')
        if ok_model:
            extra_props = list(getattr(mod, 'EXTRA_PROPS', []))      # further Props files audited with this property (e.g. 'C02EndToEnd')
            ok_prop, log_prop, t_prop, cmd_prop = core.coq_make([mod.PROP_TARGET] + [f'theories/Props/{x}.vo' for x in extra_props])
        # 4. audit
        bad_vernac = core.audit_sources()
        assum_ok, assum, assum_out = (False, [], '')
        if ok_prop:
            assum_ok, assum, assum_out = core.props_assumptions(prop_id)
            for x in extra_props:
                ok_x, assum_x, out_x = core.props_assumptions(x)
                assum_ok = assum_ok and ok_x
                assum = assum + assum_x
                assum_out += out_x
        obligations = max(len(assum), count_print_assumptions(prop_id) + sum(count_print_assumptions(x) for x in getattr(mod, 'EXTRA_PROPS', [])))
        bad_axioms = []
        discharged = 0
        for thm, axs in assum:
            foreign = [a for a in axs if a not in core.ALLOWED_AXIOMS and a.split('.')[-1] not in core.ALLOWED_AXIOMS]
            if foreign:
                bad_axioms.append((thm, foreign))
            else:
                discharged += 1
        if not (ok_prop and assum_ok):
            discharged = 0
        # 4b. thorough tier: independent re-check of the compiled development with coqchk (axiom summary into the evidence)
        coqchk = None
        if tier == 'thorough' and ok_prop:
            coqchk = core.run_coqchk(prop_id)
        # change-triggered escalation (never an alarm by itself)
        changed_src = fingerprint.changed_files(core.REPO, anchor_files(prop_id) + list(getattr(mod, 'EXTRA_ANCHORS', [])))
        escalate = bool(changed_src) and os.environ.get('VERIF_NO_ESCALATION') != '1'
        if changed_src:
            notes.append(f'anchored sources differ from tools/fingerprints.json: {changed_src}' + (' -- quick generators run with 3 seed streams' if escalate and tier == 'quick' else ''))
        # 5. C-tie
        evaluations = 0
        distinct = set()
        samples = []
        hist = Counter()
        per_kind = {}
        harness_errors = []
        failures = []        # (kind, case, obs, how)
        streams_run = 0
        corr_broken = []     # (kind name, count, example case, obs): implementation left the impl-model, property clauses still hold
        if ok_model:
            kinds = {k.name: k for k in mod.KINDS}
            # corpus first
            cdir = core.CORPUS / prop_id
            corpus_cases = []
            if cdir.exists():
                for p in sorted(cdir.glob('*.json')):
                    d = json.loads(p.read_text())
                    if d.get('kind') in kinds:
                        corpus_cases.append((kinds[d['kind']], d['case']))
            # stream 0 = the ordinary generators.  When the anchored sources changed since the fingerprints were recorded
            # (escalation), up to two more generator streams follow, time-boxed, and only while nothing has been found yet.
            plan = [(0, k) for k in mod.KINDS]
            if escalate and tier == 'quick':
                plan += [(st, k) for st in (1, 2) for k in mod.KINDS if not getattr(k, 'no_escalation', False)]
            seen_h = set()
            t_streams = time.time()
            for stream, kind in plan:
                if stream > 0 and (failures or corr_broken or time.time() - t_streams > ESCALATION_BUDGET_S * stream):
                    break
                streams_run = max(streams_run, stream + 1)
                rng = core.make_rng(seed + stream, f'{prop_id}/{kind.name}')
                cases = ([c for (k, c) in corpus_cases if k is kind] if stream == 0 else [])
                for c in kind.gen(rng, tier):
                    h = core.case_hash([kind.name, c])
                    if h not in seen_h:
                        seen_h.add(h)
                        cases.append(c)
                if not cases:
                    continue
                tk = time.time()
                obs, failing, errors = run_kind(kind, cases, workdir, kind.name)
                harness_errors += [f'{kind.name}: {e}' for e in errors]
                nt = 0
                for i, (c, o) in enumerate(zip(cases, obs)):
                    evaluations += 1
                    if kind.nontrivial(c, o):
                        h = core.case_hash([kind.name, c])
                        if h not in distinct:
                            distinct.add(h)
                            nt += 1
                    for fk, fv in kind.features(c, o).items():
                        hist[f'{kind.name}.{fk}={fv}'] += 1
                    orc = kind.oracle(c, o)
                    if orc:
                        failures.append((kind, c, o, f'oracle: {orc}'))
                    elif i in failing:
                        failures.append((kind, c, o, 'model/spec and implementation disagree (C-tie)'))
                if getattr(kind, '_corr_only', None):
                    i0 = kind._corr_only[0]
                    corr_broken.append((kind.name, len(kind._corr_only), cases[i0], obs[i0]))
                if cases:
                    samples.append(kind.sample(cases[len(cases) // 2], obs[len(cases) // 2]) | {'kind': kind.name})
                per_kind[kind.name if stream == 0 else f'{kind.name}#stream{stream}'] = {'cases': len(cases), 'nontrivial_distinct': nt, 'failing': len([f for f in failures if f[0] is kind]),
                                       'wall_s': round(time.time() - tk, 1)}
        # extra property-level search / custom steps of the module
        if hasattr(mod, 'extra'):
            for v in mod.extra(dict(tier=tier, seed=seed, workdir=workdir, ok_model=ok_model, ok_prop=ok_prop)):
                violations.append(v)
        # 6. classify failures
        seen_tags = set()
        for kind, c, o, how in failures:
            tags = kind.tags(c, o)
            kf = core.match_known(prop_id, tags)
            if kf:
                line = f'KNOWN-FINDING: property={prop_id} {kf.get("what", kf.get("tag"))}'
                if line not in known_lines:
                    known_lines.append(line)
                continue
            key = (kind.name, tuple(tags))
            if key in seen_tags:
                continue
            seen_tags.add(key)
            if len(violations) >= MAX_REPORTED:
                continue
            small = c
            try:
                small = shrink_case(kind, c, workdir)
            except Exception as e:  # shrinking is best effort
                notes.append(f'shrink failed: {e}')
            so = safe_run(kind, small)
            expl = core.explain_case(workdir, kind.name, kind.header, kind.case_type, kind.check_fn, kind.explain_fn, kind.coq(small, so))
            violations.append({'tags': tags, 'what': how, 'payload': {
                'property': prop_id, 'kind': kind.name, 'case': small, 'observed': so, 'original_case': c if small is not c else None,
                'how': how, 'model_says': expl, 'replay_cmd': './check --replay <this file>'}})
        # broken obligations without a failing input
        broken = []
        if not ok_model:
            broken.append(('build', 'model does not build: ' + ' '.join(mod.MODEL_TARGETS), log_model[-3000:]))
        elif not ok_prop:
            broken.append(('theorem', f'ScaredV.Props.{prop_id} does not check ({failed_file(log_prop)})', log_prop[-3000:]))
        elif not assum_ok:
            broken.append(('assumptions', f'Print Assumptions of ScaredV.Props.{prop_id} could not be read', assum_out[-2000:]))
        for thm, foreign in bad_axioms:
            broken.append(('axiom', f'theorem {thm} depends on axioms outside the trusted base: {foreign}', ''))
        if bad_vernac:
            broken.append(('audit', f'forbidden vernacular: {bad_vernac[:5]}', ''))
        if coqchk is not None and not coqchk['ok']:
            broken.append(('coqchk', f'coqchk rejects ScaredV.Props.{prop_id} or reports axioms outside the trusted base', coqchk['tail']))
        for e in harness_errors:
            broken.append(('correspondence', 'a cases file did not evaluate in Coq', e))
        for kname, cnt, c0, o0 in corr_broken:
            broken.append(('correspondence', f'corr {prop_id}/{kname}: the implementation differs from the impl-model on {cnt} generated case(s) on which the property '
                           'clauses themselves still hold (the theorems no longer speak about this code)', json.dumps({'case': c0, 'observed': o0}, default=str)[:3000]))
        real_violations = [v for v in violations]
        if broken and not real_violations and not known_lines_cover(broken):
            for kindb, what, detail in broken[:2]:
                real_violations.append({'tags': [kindb], 'what': what, 'no_input': True, 'payload': {
                    'property': prop_id, 'no_failing_input_found': True, 'broken': what, 'detail': detail,
                    'searched': {'evaluations': evaluations, 'kinds': per_kind}}})
        # 7. evidence
        coverage = {
            'obligations': obligations, 'discharged': discharged,
            'checker_cmd': f'cd /verif/coq && {cmd_model} && {cmd_prop} && coqc -R theories ScaredV theories/Props/{prop_id}.v  (full .vo build, Print Assumptions parsed)',
            'trusted_base': getattr(mod, 'TRUSTED_BASE', []),
            'theorems': [{'name': t, 'axioms': a} for t, a in assum],
            'evaluations': evaluations, 'distinct_nontrivial': len(distinct),
            'rule': '; '.join(f'{k.name}: {k.rule}' for k in mod.KINDS),
            'samples': samples[:6], 'traces_validated_against_impl': evaluations,
            'per_kind': per_kind, 'input_distribution': dict(sorted(hist.items())),
            'tie': {'translators': ttie, 'c_tie_ran': ok_model}, 'notes': notes, 'changed_anchor_sources': changed_src, 'escalated': bool(escalate and tier == 'quick'), 'generator_streams_run': streams_run,
            'build_s': round(t_model + t_prop, 1), 'exhaustive': bool(getattr(mod, 'EXHAUSTIVE', False)),
        }
        if coqchk is not None:
            coverage['coqchk'] = {k: coqchk[k] for k in ('ok', 'cmd', 'axioms', 'wall_s')}
        if hasattr(mod, 'coverage_extra'):
            coverage.update(mod.coverage_extra())
        core.write_evidence(prop_id, tier, seed, coverage, getattr(mod, 'ASSUMPTIONS', []), time.time() - t0, len(real_violations))
        for line in known_lines:
            print(line)
        rc = 0
        for v in real_violations:
            path = core.write_replay(prop_id, v['payload'])
            suffix = ' no-failing-input-found' if v.get('no_input') else ''
            print(f'VIOLATION property={prop_id} replay={path}{suffix}')
            core.log(f'  [{prop_id}] {v["what"]}  tags={v["tags"]}')
            rc = 1
        core.log(f'[{prop_id}] tier={tier} seed={seed} obligations={obligations} discharged={discharged} evaluations={evaluations} '
                 f'distinct_nontrivial={len(distinct)} violations={len(real_violations)} known={len(known_lines)} wall={time.time() - t0:.1f}s')
        for n in notes:
            core.log(f'  note: {n}')
        return rc
    finally:
        shutil.rmtree(workdir, ignore_errors=True)


def anchor_files(prop_id):
    for line in (core.VERIF / 'properties.jsonl').read_text().splitlines():
        if line.strip():
            p = json.loads(line)
            if p['id'] == prop_id:
                return list(p['anchors']['files'])
    return []


def known_lines_cover(broken):
    return False


def failed_file(log):
    import re
    m = re.findall(r'File "([^"]+)", line (\d+)', log)
    return f'{m[-1][0]}:{m[-1][1]}' if m else 'see detail'


def count_print_assumptions(prop_id):
    import re
    p = core.THEORIES / 'Props' / f'{prop_id}.v'
    if not p.exists():
        return 0
    return len(re.findall(r'^\s*Print\s+Assumptions\b', core.strip_comments(p.read_text()), re.M))


def replay(path):
    d = json.loads(Path(path).read_text())
    prop_id = d['property']
    if d.get('no_failing_input_found'):
        print(f'replay file names a broken obligation, not an input: {d["broken"]}')
        rc = check_property(prop_id, 'quick', int(os.environ.get('VERIF_SEED', DEFAULT_SEED)))
        return rc
    mod = load_prop(prop_id)
    kind = {k.name: k for k in mod.KINDS}[d['kind']]
    workdir = core.workdir_for(prop_id + '-replay')
    try:
        run_translators(getattr(mod, 'TRANSLATORS', []), core.REPO, core.GENERATED)
        ok, log_, _, _ = core.coq_make(mod.MODEL_TARGETS)
        if not ok:
            print('model does not build:\n' + log_[-2000:])
            return 1
        f, o = still_fails(kind, d['case'], workdir)
        print(json.dumps({'case': d['case'], 'observed_now': o}, default=str)[:4000])
        print(f'REPLAY property={prop_id} result={"FAILS" if f else "PASSES"}')
        return 1 if f else 0
    finally:
        shutil.rmtree(workdir, ignore_errors=True)


def supervise(argv):
    """Run the check in a child interpreter: if jitted library code corrupts memory and kills it, that is reported as a
    violation (the property is no longer shown to hold) instead of a silent crash."""
    import subprocess
    t0 = time.time()
    p = subprocess.run([sys.executable, str(Path(__file__).resolve())] + argv, env=dict(os.environ, VERIF_CHILD='1'))
    if p.returncode in (0, 1, 2):
        return p.returncode
    prop_id = argv[0]
    tier = argv[1] if len(argv) > 1 else os.environ.get('VERIF_TIER', 'quick')
    seed = int(os.environ.get('VERIF_SEED', DEFAULT_SEED))
    what = f'the check process died (exit status {p.returncode}) while exercising the implementation: memory corruption or abort inside library code'
    path = core.write_replay(prop_id, {'property': prop_id, 'no_failing_input_found': True, 'broken': what,
                                       'detail': 'correspondence run of tools/props/' + prop_id + '.py did not complete', 'searched': {}})
    ev = {'property_id': prop_id, 'tier': tier, 'seed': seed, 'level': 'other', 'coverage': {'explanation': what}, 'assumptions': [],
          'wall_s': round(time.time() - t0, 2), 'violations': 1}
    core.EVIDENCE.mkdir(parents=True, exist_ok=True)
    (core.EVIDENCE / f'{prop_id}.json').write_text(json.dumps(ev, indent=1))
    print(f'VIOLATION property={prop_id} replay={path} no-failing-input-found')
    return 1


def main(argv):
    if len(argv) >= 1 and argv[0] != '--replay' and os.environ.get('VERIF_CHILD') != '1':
        return supervise(argv)
    if len(argv) >= 2 and argv[0] == '--replay':
        return replay(argv[1])
    if len(argv) < 1:
        print(__doc__)
        return 2
    prop_id = argv[0]
    tier = argv[1] if len(argv) > 1 else os.environ.get('VERIF_TIER', 'quick')
    seed = int(os.environ.get('VERIF_SEED', DEFAULT_SEED))
    return check_property(prop_id, tier, seed)


if __name__ == '__main__':
    sys.exit(main(sys.argv[1:]))
