#!/venv/bin/python
"""seeded_run.py <seeded-id> [Cnn ...]   apply seeded/<id>/patch.diff to a scratch worktree of /repo, run the quick checks of the given
properties (default: meta.json 'breaks') against it (VERIF_REPO), record which raise an alarm in seeded/<id>/result.json, remove the worktree.
The real /repo is never modified; evidence/replays of these runs go to .work/alt/."""
import json, os, re, subprocess, sys, time, shutil
from pathlib import Path
V = Path(__file__).resolve().parents[1]
suite = '--suite' in sys.argv
sys.argv = [a for a in sys.argv if a not in ('--suite', '--nosuite', '1')]
sid = sys.argv[1]
sd = V / 'seeded' / sid
meta = json.loads((sd / 'meta.json').read_text())
props = sys.argv[2:] or ([meta['breaks']] if isinstance(meta['breaks'], str) else meta['breaks'])
wt = Path(f'/tmp/seedrun-{sid}-{os.getpid()}')
subprocess.run(['git', '-C', '/repo', 'worktree', 'add', '-q', '--detach', str(wt), 'HEAD'], check=True)
res = {'seed': sid, 'head': subprocess.run(['git', '-C', '/repo', 'rev-parse', '--short', 'HEAD'], capture_output=True, text=True).stdout.strip(), 'runs': []}
try:
    subprocess.run(['git', '-C', str(wt), 'apply', str(sd / 'patch.diff')], check=True)
    demo = sd / 'demo.py'
    if demo.exists():
        r = subprocess.run(['/venv/bin/python', str(demo)], env=dict(os.environ, PYTHONPATH=str(wt), PYTHONDONTWRITEBYTECODE='1'), capture_output=True, text=True)
        res['demo_with_change_rc'] = r.returncode
        r0 = subprocess.run(['/venv/bin/python', str(demo)], env=dict(os.environ, PYTHONPATH='/repo', PYTHONDONTWRITEBYTECODE='1'), capture_output=True, text=True)
        res['demo_unchanged_rc'] = r0.returncode
    if suite:
        r = subprocess.run([str(V / 'tools' / 'baseline_check.py'), str(wt)], capture_output=True, text=True)
        res['suite'] = {'rc': r.returncode, 'out': r.stdout.strip().splitlines()[-3:]}
        print('suite', res['suite'])
    for pid in props:
        t0 = time.time()
        r = subprocess.run(['./check', pid, 'quick'], cwd=V, env=dict(os.environ, VERIF_REPO=str(wt)), capture_output=True, text=True)
        lines = [l for l in r.stdout.splitlines() if l.startswith(('VIOLATION', 'KNOWN-FINDING'))]
        detail = [l for l in r.stderr.splitlines() if l.startswith('  [')][:6]
        res['runs'].append({'property': pid, 'rc': r.returncode, 'lines': lines, 'detail': detail, 'wall_s': round(time.time() - t0, 1),
                            'caught': r.returncode == 1 and any(l.startswith('VIOLATION') for l in lines),
                            'with_input': any(l.startswith('VIOLATION') and 'no-failing-input-found' not in l for l in lines)})
        print(pid, 'rc', r.returncode, lines[:3], detail[:3])
finally:
    subprocess.run(['git', '-C', '/repo', 'worktree', 'remove', '--force', str(wt)])
    # bring Generated/*.v back in sync with the real tree
    subprocess.run(['/venv/bin/python', 'tools/regen.py'], cwd=V, env=dict(os.environ, PYTHONPATH='/repo', VERIF_REPO='/repo'), capture_output=True)
old = json.loads((sd / 'result.json').read_text()) if (sd / 'result.json').exists() else {}
if 'suite' in old and 'suite' not in res:
    res['suite'] = old['suite']
# keep the latest run per property (runs against sibling properties accumulate)
done = {r['property'] for r in res['runs']}
res['runs'] = [r for r in old.get('runs', []) if r['property'] not in done] + res['runs']
(sd / 'result.json').write_text(json.dumps(res, indent=1))
