#!/bin/bash
# run_all.sh [tier] [ids...] : every READY property's check, sequentially, with a summary (used by the lead before committing evidence)
cd "$(dirname "$0")/.."
tier=${1:-quick}; shift
ids=${@:-$(cat tools/manifest/READY)}
for id in $ids; do
  s=$(date +%s)
  out=$(./check $id $tier 2>.work/run_all_$id.err); rc=$?
  e=$(( $(date +%s) - s ))
  echo "$id rc=$rc ${e}s $(echo "$out" | grep -c '^VIOLATION') violations $(echo "$out" | grep -c '^KNOWN-FINDING') known :: $(tail -1 .work/run_all_$id.err | cut -c1-160)"
  [ $rc -ne 0 ] && echo "$out" | head -5
done
python3-vt - <<'P'
import json,jsonschema,glob
s=json.load(open('/root/.vp/EVIDENCE.schema.json'))
ready=open('/verif/tools/manifest/READY').read().split()
for f in sorted(glob.glob('/verif/evidence/*.json')):
    if f.split('/')[-1][:-5] not in ready: continue
    try: jsonschema.validate(json.load(open(f)),s)
    except Exception as e: print('EVIDENCE INVALID',f,str(e)[:200])
jsonschema.validate(json.load(open('/verif/MANIFEST.json')),json.load(open('/root/.vp/MANIFEST.schema.json')))
print('schemas ok')
P
