"""Fail-closed ast translator: /repo/scared/des/base.py -> Generated/DesTables.v.

Read from the source text (never by importing it):
  * the literal tables SBOXES (8 x 64 nibbles, direct-index order), ROUND_KEY_BITS_INDEXES (16 x 8 x 6 key-bit numbers),
    ROUND_KEY_MISSING_BITS_INDEXES (16 x 8), PC1, PC2, the constant DES_ROUNDS,
  * the enum Steps (names and values),
  * the class-level round templates of _ParametricCipher: MANDATORY_ROUND_ELEMENTS, FIRST_ROUND, ROUND, LAST_ROUND,
    FINAL_ROUND (list displays of `Steps.X` / `None`, concatenated with `+`, earlier names resolved),
  * nb_shift and the ci_di unknown-bit mask of _find_possible_keys.
Anything else raises TranslateError.  self_check re-compares every literal with the live object imported from the same tree.
"""
import ast

from . import common as C

OUTFILE = 'DesTables.v'

# enum member -> constructor of the generated inductive type [step] (the hand model matches on these)
STEP_CTOR = {
    'INITIAL_PERMUTATION': 'StIP',
    'EXPANSIVE_PERMUTATION': 'StE',
    'ADD_ROUND_KEY': 'StK',
    'SBOXES': 'StS',
    'PERMUTATION_P': 'StP',
    'XOR_WITH_SAVED_LEFT_RIGHT': 'StX',
    'PERMUTE_RIGHT_LEFT': 'StSwap',
    'INV_PERMUTATION_P_RIGHT': 'StInvR',
    'INV_PERMUTATION_P_DELTA_RIGHT': 'StInvD',
    'FINAL_PERMUTATION': 'StFP',
}
TEMPLATES = ['MANDATORY_ROUND_ELEMENTS', 'FIRST_ROUND', 'ROUND', 'LAST_ROUND', 'FINAL_ROUND']


def const_int(node):
    if isinstance(node, ast.Constant) and isinstance(node.value, int) and not isinstance(node.value, bool):
        return node.value
    raise C.TranslateError(f'expected int literal, got {ast.dump(node)[:120]}')


def top_assign(body, name, where='module'):
    found = [n for n in body if isinstance(n, ast.Assign) and len(n.targets) == 1
             and isinstance(n.targets[0], ast.Name) and n.targets[0].id == name]
    if len(found) != 1:
        raise C.TranslateError(f'expected exactly one assignment to {name} in {where}, found {len(found)}')
    return found[0].value


def is_uint8(node):
    if isinstance(node, ast.Attribute) and isinstance(node.value, ast.Name) and node.value.id == '_np' and node.attr == 'uint8':
        return True
    return isinstance(node, ast.Constant) and node.value == 'uint8'


def np_array_literal(node, name):
    """_np.array(<list display>, dtype=uint8) -> the ast.List"""
    ok = (isinstance(node, ast.Call) and isinstance(node.func, ast.Attribute) and node.func.attr == 'array'
          and isinstance(node.func.value, ast.Name) and node.func.value.id == '_np'
          and len(node.args) == 1 and isinstance(node.args[0], ast.List)
          and len(node.keywords) == 1 and node.keywords[0].arg == 'dtype' and is_uint8(node.keywords[0].value))
    if not ok:
        raise C.TranslateError(f'{name} is not _np.array([...], dtype=uint8)')
    return node.args[0]


def nested(node, depth, name):
    if depth == 0:
        return const_int(node)
    if not isinstance(node, ast.List):
        raise C.TranslateError(f'{name}: expected a list display at depth {depth}')
    return [nested(e, depth - 1, name) for e in node.elts]


def shape_check(vals, dims, lo, hi, name):
    if len(dims) == 0:
        if not (lo <= vals <= hi):
            raise C.TranslateError(f'{name}: value {vals} outside [{lo}, {hi}]')
        return
    if len(vals) != dims[0]:
        raise C.TranslateError(f'{name}: expected {dims[0]} entries, got {len(vals)}')
    for v in vals:
        shape_check(v, dims[1:], lo, hi, name)


def func(body, name):
    found = [n for n in body if isinstance(n, ast.FunctionDef) and n.name == name]
    if len(found) != 1:
        raise C.TranslateError(f'expected exactly one function {name}, found {len(found)}')
    return found[0]


def klass(tree, name):
    found = [n for n in tree.body if isinstance(n, ast.ClassDef) and n.name == name]
    if len(found) != 1:
        raise C.TranslateError(f'expected exactly one class {name}, found {len(found)}')
    return found[0]


def strip_doc(body):
    if body and isinstance(body[0], ast.Expr) and isinstance(body[0].value, ast.Constant) and isinstance(body[0].value.value, str):
        return body[1:]
    return body


def enum_members(tree, name):
    cls = klass(tree, name)
    if not (len(cls.bases) == 1 and isinstance(cls.bases[0], ast.Attribute) and cls.bases[0].attr == 'IntEnum'):
        raise C.TranslateError(f'class {name} is not an enum.IntEnum')
    members = []
    for st in strip_doc(cls.body):
        if not (isinstance(st, ast.Assign) and len(st.targets) == 1 and isinstance(st.targets[0], ast.Name)):
            raise C.TranslateError(f'class {name}: unexpected statement {ast.dump(st)[:120]}')
        members.append((st.targets[0].id, const_int(st.value)))
    return members


def template_expr(node, env, name):
    """list display of Steps.X / None, a known template name, or a `+` of those -> list of member names / None"""
    if isinstance(node, ast.List):
        out = []
        for e in node.elts:
            if isinstance(e, ast.Constant) and e.value is None:
                out.append(None)
            elif (isinstance(e, ast.Attribute) and isinstance(e.value, ast.Name) and e.value.id == 'Steps'
                  and e.attr in STEP_CTOR):
                out.append(e.attr)
            else:
                raise C.TranslateError(f'{name}: unexpected element {ast.dump(e)[:120]}')
        return out
    if isinstance(node, ast.Name) and node.id in env:
        return list(env[node.id])
    if isinstance(node, ast.BinOp) and isinstance(node.op, ast.Add):
        return template_expr(node.left, env, name) + template_expr(node.right, env, name)
    raise C.TranslateError(f'{name}: unexpected expression {ast.dump(node)[:120]}')


def translate(repo):
    src = (repo / 'scared' / 'des' / 'base.py').read_text()
    tree = ast.parse(src)
    out = {}
    out['SBOXES'] = nested(np_array_literal(top_assign(tree.body, 'SBOXES'), 'SBOXES'), 2, 'SBOXES')
    shape_check(out['SBOXES'], [8, 64], 0, 15, 'SBOXES')
    out['RKBI'] = nested(np_array_literal(top_assign(tree.body, 'ROUND_KEY_BITS_INDEXES'), 'ROUND_KEY_BITS_INDEXES'), 3, 'ROUND_KEY_BITS_INDEXES')
    shape_check(out['RKBI'], [16, 8, 6], 0, 63, 'ROUND_KEY_BITS_INDEXES')
    out['RKMBI'] = nested(np_array_literal(top_assign(tree.body, 'ROUND_KEY_MISSING_BITS_INDEXES'), 'ROUND_KEY_MISSING_BITS_INDEXES'), 2,
                          'ROUND_KEY_MISSING_BITS_INDEXES')
    shape_check(out['RKMBI'], [16, 8], 0, 63, 'ROUND_KEY_MISSING_BITS_INDEXES')
    out['PC1'] = nested(top_assign(tree.body, 'PC1'), 1, 'PC1')
    shape_check(out['PC1'], [56], 1, 64, 'PC1')
    out['PC2'] = nested(top_assign(tree.body, 'PC2'), 1, 'PC2')
    shape_check(out['PC2'], [48], 1, 56, 'PC2')
    out['DES_ROUNDS'] = const_int(top_assign(tree.body, 'DES_ROUNDS'))
    steps = enum_members(tree, 'Steps')
    if sorted(n for n, _ in steps) != sorted(STEP_CTOR):
        raise C.TranslateError(f'Steps members are not the ten the model knows: {[n for n, _ in steps]}')
    out['Steps'] = steps
    # class-level templates of _ParametricCipher
    cls = klass(tree, '_ParametricCipher')
    env = {}
    for name in TEMPLATES:
        env[name] = template_expr(top_assign(cls.body, name, '_ParametricCipher'), env, name)
        out[name] = env[name]
    # _find_possible_keys: nb_shift and the ci_di mask
    fpk = func(tree.body, '_find_possible_keys')
    out['nb_shift'] = nested(top_assign(fpk.body, 'nb_shift', '_find_possible_keys'), 1, 'nb_shift')
    shape_check(out['nb_shift'], [16], 0, 28, 'nb_shift')
    cidi = [n for n in fpk.body if isinstance(n, ast.Assign) and len(n.targets) == 1 and isinstance(n.targets[0], ast.Name)
            and n.targets[0].id == 'ci_di' and isinstance(n.value, ast.Call) and isinstance(n.value.func, ast.Attribute)
            and n.value.func.attr == 'array']
    if len(cidi) != 1:
        raise C.TranslateError('_find_possible_keys: expected one ci_di = _np.array([...])')
    out['ci_di'] = nested(np_array_literal(cidi[0].value, 'ci_di'), 1, 'ci_di')
    shape_check(out['ci_di'], [56], 0, 255, 'ci_di')
    return out


def self_check(repo, out):
    import numpy as np
    import scared.des.base as B
    if not str(B.__file__).startswith(str(repo)):
        raise C.TranslateError(f'self-check: scared.des.base was imported from {B.__file__}, not from {repo}')
    for key, name in (('SBOXES', 'SBOXES'), ('RKBI', 'ROUND_KEY_BITS_INDEXES'), ('RKMBI', 'ROUND_KEY_MISSING_BITS_INDEXES')):
        live = getattr(B, name)
        if live.dtype != np.uint8 or live.tolist() != out[key]:
            raise C.TranslateError(f'self-check: parsed {name} differs from the live array')
    for name in ('PC1', 'PC2', 'DES_ROUNDS'):
        if getattr(B, name) != out[name]:
            raise C.TranslateError(f'self-check: parsed {name} differs from the live object')
    if out['Steps'] != [(m.name, int(m)) for m in B.Steps]:
        raise C.TranslateError('self-check: enum Steps differs from the live enum')
    for name in TEMPLATES:
        live = getattr(B._ParametricCipher, name)
        if len(live) != len(out[name]):
            raise C.TranslateError(f'self-check: {name} length differs from the live list')
        for a, b in zip(live, out[name]):
            if (a is None) != (b is None) or (a is not None and a is not getattr(B.Steps, b)):
                raise C.TranslateError(f'self-check: {name} holds {a!r}, parsed {b}')


def step_lit(m):
    return 'None' if m is None else f'Some {STEP_CTOR[m]}'


def emit(out):
    L = []
    L.append('(* GENERATED from /repo/scared/des/base.py by tools/translate/tr_des.py -- do not edit *)')
    L.append('From Coq Require Import NArith List. Import ListNotations. Open Scope N_scope.')
    L.append('(* SBOXES[w][x]: the eight S-boxes, indexed directly by the six-bit word *)')
    L.append('Definition SBOXES : list (list N) := ' + C.coq_list2(out['SBOXES'], str) + '.')
    L.append('(* ROUND_KEY_BITS_INDEXES[round][word][bit]: 0-based index (0 = most significant bit of key byte 0) of the key bit *)')
    L.append('Definition ROUND_KEY_BITS_INDEXES : list (list (list nat)) := '
             + C.coq_list(out['RKBI'], lambda r: C.coq_list2(r, str)) + '%nat.')
    L.append('Definition ROUND_KEY_MISSING_BITS_INDEXES : list (list nat) := ' + C.coq_list2(out['RKMBI'], str) + '%nat.')
    L.append('Definition PC1 : list nat := ' + C.coq_list(out['PC1'], str) + '%nat.')
    L.append('Definition PC2 : list nat := ' + C.coq_list(out['PC2'], str) + '%nat.')
    L.append(f'Definition DES_ROUNDS : nat := {out["DES_ROUNDS"]}%nat.')
    L.append('Definition nb_shift : list nat := ' + C.coq_list(out['nb_shift'], str) + '%nat.')
    L.append('Definition ci_di_mask : list N := ' + C.coq_list(out['ci_di'], str) + '.')
    order = sorted(out['Steps'], key=lambda p: p[1])
    L.append('(* enum Steps: ' + ', '.join(f'{n} = {v}' for n, v in order) + ' *)')
    L.append('Inductive step := ' + ' | '.join(STEP_CTOR[n] for n, _ in order) + '.')
    L.append('Definition step_value (s : step) : nat := match s with '
             + ' | '.join(f'{STEP_CTOR[n]} => {v}%nat' for n, v in order) + ' end.')
    L.append('Definition all_steps : list step := ' + C.coq_list([STEP_CTOR[n] for n, _ in order]) + '.')
    L.append('(* class-level round templates of _ParametricCipher (None = nothing is done at that position) *)')
    for name in TEMPLATES:
        L.append(f'Definition {name} : list (option step) := ' + C.coq_list(out[name], step_lit) + '.')
    return '\n'.join(L) + '\n'
