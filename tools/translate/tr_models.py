"""Fail-closed ast translator: /repo/scared/models.py -> Generated/HwLut.v.

Reads the literal _HW_LUT and the shape of _fhw16/_fhw32/_fhw64 (masks, shift counts, loop counts) and the
Monobit expression.  Anything outside the whitelisted node shapes raises TranslateError.
"""
import ast
from . import common as C


def _const_int(node):
    if isinstance(node, ast.Constant) and isinstance(node.value, int) and not isinstance(node.value, bool):
        return node.value
    raise C.TranslateError(f'expected int literal, got {ast.dump(node)}')


def _lut_index(node, lutname='_HW_LUT'):
    """_HW_LUT[<expr>] -> <expr>"""
    if isinstance(node, ast.Subscript) and isinstance(node.value, ast.Name) and node.value.id == lutname:
        return node.slice
    raise C.TranslateError(f'expected {lutname}[...] , got {ast.dump(node)}')


def _and_mask(node, var):
    if (isinstance(node, ast.BinOp) and isinstance(node.op, ast.BitAnd)
            and isinstance(node.left, ast.Name) and node.left.id == var):
        return _const_int(node.right)
    raise C.TranslateError(f'expected {var} & mask, got {ast.dump(node)}')


def _shr(node, var):
    if (isinstance(node, ast.BinOp) and isinstance(node.op, ast.RShift)
            and isinstance(node.left, ast.Name) and node.left.id == var):
        return _const_int(node.right)
    raise C.TranslateError(f'expected {var} >> k, got {ast.dump(node)}')


def _func(tree, name):
    for n in tree.body:
        if isinstance(n, ast.FunctionDef) and n.name == name:
            return n
    raise C.TranslateError(f'function {name} not found')


def _body_nodoc(fn):
    body = fn.body
    if body and isinstance(body[0], ast.Expr) and isinstance(body[0].value, ast.Constant) and isinstance(body[0].value.value, str):
        body = body[1:]
    return body


OUTFILE = 'HwLut.v'


def translate(repo):
    src = (repo / 'scared' / 'models.py').read_text()
    tree = ast.parse(src)
    out = {}
    # _HW_LUT = _np.array([...], dtype='uint32')
    lut = None
    for n in tree.body:
        if isinstance(n, ast.Assign) and len(n.targets) == 1 and isinstance(n.targets[0], ast.Name) and n.targets[0].id == '_HW_LUT':
            call = n.value
            if not (isinstance(call, ast.Call) and isinstance(call.func, ast.Attribute) and call.func.attr == 'array'
                    and len(call.args) == 1 and isinstance(call.args[0], ast.List)):
                raise C.TranslateError('_HW_LUT is not _np.array([...])')
            lut = [_const_int(e) for e in call.args[0].elts]
    if lut is None:
        raise C.TranslateError('_HW_LUT not found')
    out['HW_LUT'] = lut
    # _fhw8: return _HW_LUT[x]
    b = _body_nodoc(_func(tree, '_fhw8'))
    if not (len(b) == 1 and isinstance(b[0], ast.Return) and isinstance(_lut_index(b[0].value), ast.Name)):
        raise C.TranslateError('_fhw8 shape')
    # _fhw16: return _HW_LUT[x & m] + _HW_LUT[x >> k]
    b = _body_nodoc(_func(tree, '_fhw16'))
    if not (len(b) == 1 and isinstance(b[0], ast.Return) and isinstance(b[0].value, ast.BinOp) and isinstance(b[0].value.op, ast.Add)):
        raise C.TranslateError('_fhw16 shape')
    out['fhw16_mask'] = _and_mask(_lut_index(b[0].value.left), 'x')
    out['fhw16_shift'] = _shr(_lut_index(b[0].value.right), 'x')
    # _fhw32/_fhw64: r = 0; for _ in range(K): r += _HW_LUT[x & m]; x >>= k ; return r
    for name in ('_fhw32', '_fhw64'):
        b = _body_nodoc(_func(tree, name))
        ok = (len(b) == 3 and isinstance(b[0], ast.Assign) and isinstance(b[0].targets[0], ast.Name) and b[0].targets[0].id == 'r'
              and _const_int(b[0].value) == 0 and isinstance(b[1], ast.For) and isinstance(b[2], ast.Return)
              and isinstance(b[2].value, ast.Name) and b[2].value.id == 'r')
        if not ok:
            raise C.TranslateError(f'{name} shape')
        loop = b[1]
        it = loop.iter
        if not (isinstance(it, ast.Call) and isinstance(it.func, ast.Name) and it.func.id == 'range' and len(it.args) == 1 and not loop.orelse):
            raise C.TranslateError(f'{name} loop header')
        k = _const_int(it.args[0])
        lb = loop.body
        if not (len(lb) == 2 and isinstance(lb[0], ast.AugAssign) and isinstance(lb[0].op, ast.Add)
                and isinstance(lb[0].target, ast.Name) and lb[0].target.id == 'r'
                and isinstance(lb[1], ast.AugAssign) and isinstance(lb[1].op, ast.RShift)
                and isinstance(lb[1].target, ast.Name) and lb[1].target.id == 'x'):
            raise C.TranslateError(f'{name} loop body')
        out[name[1:] + '_loops'] = k
        out[name[1:] + '_mask'] = _and_mask(_lut_index(lb[0].value), 'x')
        out[name[1:] + '_shift'] = _const_int(lb[1].value)
    # dispatch table: dict([(1, _fhw8), (2, _fhw16), (4, _fhw32), (8, _fhw64)])
    disp = None
    for n in tree.body:
        if isinstance(n, ast.Assign) and isinstance(n.targets[0], ast.Name) and n.targets[0].id == '_hw_functions_list':
            call = n.value
            if not (isinstance(call, ast.Call) and isinstance(call.func, ast.Name) and call.func.id == 'dict' and isinstance(call.args[0], ast.List)):
                raise C.TranslateError('_hw_functions_list shape')
            disp = []
            for e in call.args[0].elts:
                if not (isinstance(e, ast.Tuple) and len(e.elts) == 2 and isinstance(e.elts[1], ast.Name)):
                    raise C.TranslateError('_hw_functions_list entry')
                disp.append((_const_int(e.elts[0]), e.elts[1].id))
    if disp is None:
        raise C.TranslateError('_hw_functions_list not found')
    fid = {'_fhw8': 0, '_fhw16': 1, '_fhw32': 2, '_fhw64': 3}
    for _, f in disp:
        if f not in fid:
            raise C.TranslateError(f'unknown hw function {f}')
    out['hw_dispatch'] = [(sz, fid[f]) for sz, f in disp]
    return out


def self_check(repo, out):
    """Compare the parsed literal with the live object imported from /repo."""
    import scared.models as M
    live = [int(v) for v in M._HW_LUT.tolist()]
    if live != out['HW_LUT']:
        raise C.TranslateError('translator self-check: parsed _HW_LUT differs from the live array')


def emit(out):
    L = []
    L.append('(* GENERATED from /repo/scared/models.py by tools/translate/tr_models.py -- do not edit *)')
    L.append('From Coq Require Import NArith List. Import ListNotations. Open Scope N_scope.')
    L.append('Definition HW_LUT : list N := ' + C.coq_list(out['HW_LUT'], C.coq_n) + '.')
    for k in ('fhw16_mask', 'fhw16_shift', 'fhw32_mask', 'fhw32_shift', 'fhw64_mask', 'fhw64_shift'):
        L.append(f'Definition {k} : N := {C.coq_n(out[k])}.')
    for k in ('fhw32_loops', 'fhw64_loops'):
        L.append(f'Definition {k} : nat := {out[k]}%nat.')
    L.append('(* itemsize -> function id (0 = fhw8, 1 = fhw16, 2 = fhw32, 3 = fhw64) *)')
    L.append('Definition hw_dispatch : list (N * nat) := ' + C.coq_list(out['hw_dispatch'], lambda p: f'({C.coq_n(p[0])}, {p[1]}%nat)') + '.')
    return '\n'.join(L) + '\n'
