"""T-tie: regenerate coq/theories/Generated/*.v from /repo's working tree (fail-closed)."""
import importlib
from pathlib import Path

# translator name -> (module, output file)
REGISTRY = {
    'models': ('translate.tr_models', 'HwLut.v'),
}


def run_translators(names, repo, outdir):
    """Run the named translators.  Returns {name: {status, msg, changed, file}}.  A file is rewritten only when its
    content changes (so `make` rebuilds exactly what depends on a changed source)."""
    res = {}
    outdir = Path(outdir)
    outdir.mkdir(parents=True, exist_ok=True)
    for name in names:
        modname, fname = REGISTRY[name]
        path = outdir / fname
        try:
            mod = importlib.import_module(modname)
            out = mod.translate(Path(repo))
            mod.self_check(Path(repo), out)
            text = mod.emit(out)
            changed = (not path.exists()) or path.read_text() != text
            if changed:
                path.write_text(text)
            res[name] = {'status': 'ok', 'msg': '', 'changed': changed, 'file': str(path)}
        except Exception as e:  # fail closed: keep the last good file, report
            res[name] = {'status': 'failed', 'msg': f'{type(e).__name__}: {e}'[:500], 'changed': False, 'file': str(path)}
    return res
