"""T-tie: regenerate coq/theories/Generated/*.v from /repo's working tree (fail-closed).

A translator is a module tools/translate/tr_<name>.py with
    OUTFILE = 'Xxx.v'                 file written under coq/theories/Generated/
    translate(repo: Path) -> obj      parse the source (ast whitelist; raise TranslateError on anything else)
    self_check(repo: Path, obj)       compare what was parsed with the live objects imported from /repo (raise on mismatch)
    emit(obj) -> str                  Coq text
It may also tabulate a finite-domain control function by running it (DESIGN.md 2.4).
"""
import importlib
from pathlib import Path

HERE = Path(__file__).resolve().parent


def registry():
    return sorted(p.stem[3:] for p in HERE.glob('tr_*.py'))


def run_translators(names, repo, outdir):
    """Run the named translators.  Returns {name: {status, msg, changed, file}}.  A file is rewritten only when its
    content changes (so `make` rebuilds exactly what depends on a changed source)."""
    res = {}
    outdir = Path(outdir)
    outdir.mkdir(parents=True, exist_ok=True)
    for name in names:
        path = None
        try:
            mod = importlib.import_module(f'translate.tr_{name}')
            path = outdir / mod.OUTFILE
            out = mod.translate(Path(repo))
            mod.self_check(Path(repo), out)
            text = mod.emit(out)
            changed = (not path.exists()) or path.read_text() != text
            if changed:
                path.write_text(text)
            res[name] = {'status': 'ok', 'msg': '', 'changed': changed, 'file': str(path)}
        except Exception as e:  # fail closed: keep the last good file, report
            res[name] = {'status': 'failed', 'msg': f'{type(e).__name__}: {e}'[:500], 'changed': False, 'file': str(path)}
    return res
