"""Fail-closed ast translator: scared/{aes,des}/selection_functions/{encrypt,decrypt}.py -> Generated/SelFunWiring.v  (property C07).

Read from the source text (never by importing it):
  * every public class of the two `encrypt` namespaces: its name, the computing function and the expected-key function it hands to
    _decorated_selection_function, the default guesses (`_np.arange(N, dtype='uint8')`), the default `words`, the default target
    tag and key tag, and that words / guesses / tags are passed through unchanged;
  * the two `decrypt` namespaces: the aliases `Name = encrypt.Other`;
  * the bodies of `_first_key` / `_last_key` as an index into the key schedule (`key_schedule(key)[0]`, `[-1]`);
  * the bodies of the computing helpers as a small expression enum (sf_expr): the guess loop `res[i] = bitwise_xor(data, g)`,
    `swapaxes(i, j)`, `aes.sub_bytes / inv_sub_bytes / shift_rows / inv_shift_rows (.)`, `_np.bitwise_xor(., .)`, `data`, calls of
    an earlier helper with (data=data, guesses=guesses) (inlined);
  * DES: the body of `_des_function` (the guess loop around des.encrypt with an all-equal key of 128 words; which of encrypt /
    decrypt and the key length are holes), and for each helper the (at_round, after_step) it passes (Steps members are resolved
    through the enum of des/base.py).
Anything else raises TranslateError.  self_check compares everything with the live objects: the public names of the four
namespaces, `_function`, `expected_key_function`, `guesses`, `words`, `target_tag`, `key_tag` of an instance of every class, the
identity of the decrypt aliases, the key functions on a sample key, and every helper expression re-evaluated with numpy on a
non-square sample against the live helper.
"""
import ast
import copy

from . import common as C

OUTFILE = 'SelFunWiring.v'

PRIMS = {'sub_bytes': 'SpSubBytes', 'inv_sub_bytes': 'SpInvSubBytes', 'shift_rows': 'SpShiftRows', 'inv_shift_rows': 'SpInvShiftRows'}

AES_IMPORTS = '''
from scared.selection_functions.base import _decorated_selection_function, _AttackSelectionFunctionWrapped
from scared.aes import base as aes
import numpy as _np
'''
DES_IMPORTS = '''
from scared.selection_functions.base import _decorated_selection_function, _AttackSelectionFunctionWrapped
from scared.des import base as des
import numpy as _np
'''

# the guess loop of aes _add_round_key; the returned expression is the hole
AES_LOOP_SHAPE = '''
def f(data, guesses):
    res = _np.empty((len(guesses), ) + data.shape, dtype='uint8')
    data = data.astype('uint8')
    for i, g in enumerate(guesses):
        res[i] = _np.bitwise_xor(data, g)
    return None
'''
# _des_function; holes: encrypt/decrypt, the key length, the returned expression
DES_LOOP_SHAPE = '''
def _des_function(data, guesses, at_round, after_step):
    result = _np.empty((len(guesses), ) + data.shape, dtype='uint8')
    data = data.astype('uint8')
    for i, guess in enumerate(guesses):
        current_expanded_key_guess = _np.bitwise_xor(_np.zeros((0), dtype=_np.uint8), guess)
        result[i] = des.HOLE(data, current_expanded_key_guess, at_round=at_round, after_step=after_step)
    return None
'''
CLASS_NEW_SHAPE = '''
def __new__(cls, guesses=_np.arange(0, dtype='uint8'), words=None, TAGPARAM='', key_tag=''):
    return _decorated_selection_function(_AttackSelectionFunctionWrapped, FN, expected_key_function=KFN, words=words, guesses=guesses, target_tag=TAGPARAM, key_tag=key_tag)
'''


def _err(msg):
    raise C.TranslateError(msg)


def _strip_doc(node):
    node = copy.deepcopy(node)
    b = node.body
    if b and isinstance(b[0], ast.Expr) and isinstance(b[0].value, ast.Constant) and isinstance(b[0].value.value, str):
        node.body = b[1:]
    return node


def _int_const(node):
    if isinstance(node, ast.Constant) and isinstance(node.value, int) and not isinstance(node.value, bool):
        return node.value
    if isinstance(node, ast.UnaryOp) and isinstance(node.op, ast.USub) and isinstance(node.operand, ast.Constant) \
            and isinstance(node.operand.value, int) and not isinstance(node.operand.value, bool):
        return -node.operand.value
    _err(f'expected an int literal, got {ast.dump(node)}')


def _is_name(node, name):
    return isinstance(node, ast.Name) and node.id == name


def _is_attr(node, base, attr=None):
    return isinstance(node, ast.Attribute) and _is_name(node.value, base) and (attr is None or node.attr == attr)


def _check_imports(tree, want_src, fname):
    want = [ast.dump(n) for n in ast.parse(want_src).body]
    got = [ast.dump(n) for n in tree.body if isinstance(n, (ast.Import, ast.ImportFrom))]
    if got != want:
        _err(f'{fname}: unexpected import statements')


def _enum_steps(repo):
    """Steps of des/base.py: name -> value"""
    tree = ast.parse((repo / 'scared' / 'des' / 'base.py').read_text())
    cls = [n for n in tree.body if isinstance(n, ast.ClassDef) and n.name == 'Steps']
    if len(cls) != 1:
        _err('des/base.py: class Steps not found')
    out = {}
    for st in _strip_doc(cls[0]).body:
        if not (isinstance(st, ast.Assign) and len(st.targets) == 1 and isinstance(st.targets[0], ast.Name)):
            _err(f'des/base.py Steps: unexpected statement {ast.dump(st)}')
        out[st.targets[0].id] = _int_const(st.value)
    return out


# ------------------------------------------------------------------------------------------------ helper expressions
def _expr(node, leaf_name, leaf, helpers, modname):
    """expression grammar -> nested tuples ('data',) ('loop',) ('swap', i, j, e) ('prim', p, e) ('xor', a, b)"""
    rec = lambda n: _expr(n, leaf_name, leaf, helpers, modname)  # noqa: E731
    if leaf_name is not None and _is_name(node, leaf_name):
        return leaf
    if leaf_name is None and _is_name(node, 'data'):
        return ('data',)
    if isinstance(node, ast.Call):
        f = node.func
        # e.swapaxes(i, j)
        if isinstance(f, ast.Attribute) and f.attr == 'swapaxes' and len(node.args) == 2 and not node.keywords:
            i, j = _int_const(node.args[0]), _int_const(node.args[1])
            if not (0 <= i <= 2 and 0 <= j <= 2):
                _err(f'swapaxes({i}, {j}): only axes 0..2 are modelled')
            return ('swap', i, j, rec(f.value))
        # aes.prim(e)
        if modname == 'aes' and _is_attr(f, 'aes') and f.attr in PRIMS and len(node.args) == 1 and not node.keywords:
            return ('prim', f.attr, rec(node.args[0]))
        # _np.bitwise_xor(a, b)
        if _is_attr(f, '_np', 'bitwise_xor') and len(node.args) == 2 and not node.keywords:
            return ('xor', rec(node.args[0]), rec(node.args[1]))
        # helper(data=data, guesses=guesses)
        if isinstance(f, ast.Name) and f.id in helpers and leaf_name is None and not node.args:
            kw = {k.arg: k.value for k in node.keywords}
            if set(kw) == {'data', 'guesses'} and _is_name(kw['data'], 'data') and _is_name(kw['guesses'], 'guesses'):
                return helpers[f.id]
    _err(f'unsupported expression {ast.dump(node)[:300]}')


def _args_are(fn, names):
    a = fn.args
    return ([x.arg for x in a.args] == list(names) and not a.defaults and not a.vararg and not a.kwarg and not a.kwonlyargs
            and not a.posonlyargs and not fn.decorator_list)


def _aes_helper(fn, helpers):
    fn = _strip_doc(fn)
    if not _args_are(fn, ('data', 'guesses')):
        _err(f'{fn.name}: signature is not (data, guesses)')
    if len(fn.body) == 1 and isinstance(fn.body[0], ast.Return) and fn.body[0].value is not None:
        return _expr(fn.body[0].value, None, None, helpers, 'aes')
    # the guess loop
    if not (fn.body and isinstance(fn.body[-1], ast.Return) and fn.body[-1].value is not None):
        _err(f'{fn.name}: body does not end with a return')
    ret = fn.body[-1].value
    probe = copy.deepcopy(fn)
    probe.name = 'f'
    probe.body[-1].value = ast.Constant(value=None)
    if ast.dump(probe) != ast.dump(ast.parse(AES_LOOP_SHAPE).body[0]):
        _err(f'{fn.name}: body is neither `return <expr>` nor the guess loop the model was written against')
    return _expr(ret, 'res', ('loop',), helpers, 'aes')


def _des_function(fn):
    fn = _strip_doc(fn)
    probe = copy.deepcopy(fn)
    try:
        loop = probe.body[2]
        zeros = loop.body[0].value.args[0]            # _np.zeros((128), dtype=_np.uint8)
        klen = _int_const(zeros.args[0])
        zeros.args[0] = ast.Constant(value=0)
        call = loop.body[1].value                       # des.encrypt(...)
        mode = call.func.attr
        call.func.attr = 'HOLE'
        ret = probe.body[-1].value
        probe.body[-1].value = ast.Constant(value=None)
    except C.TranslateError:
        raise
    except Exception:
        _err('_des_function: body is not the shape the model was written against')
    if ast.dump(probe) != ast.dump(ast.parse(DES_LOOP_SHAPE).body[0]):
        _err('_des_function: body is not the shape the model was written against')
    if mode not in ('encrypt', 'decrypt'):
        _err(f'_des_function: calls des.{mode}')
    if klen not in (128, 256, 384):
        _err(f'_des_function: key of {klen} words')
    return {'decrypt': mode == 'decrypt', 'keylen': klen, 'expr': _expr(ret, 'result', ('loop',), {}, 'des')}


def _des_helper(fn, steps):
    fn = _strip_doc(fn)
    if not _args_are(fn, ('data', 'guesses')):
        _err(f'{fn.name}: signature is not (data, guesses)')
    ok = (len(fn.body) == 1 and isinstance(fn.body[0], ast.Return) and isinstance(fn.body[0].value, ast.Call)
          and _is_name(fn.body[0].value.func, '_des_function') and len(fn.body[0].value.args) == 4 and not fn.body[0].value.keywords)
    if not ok:
        _err(f'{fn.name}: body is not `return _des_function(data, guesses, <round>, <step>)`')
    a = fn.body[0].value.args
    if not (_is_name(a[0], 'data') and _is_name(a[1], 'guesses')):
        _err(f'{fn.name}: data / guesses are not passed through')
    rnd = _int_const(a[2])
    s = a[3]
    if isinstance(s, ast.Attribute) and _is_attr(s.value, 'des', 'Steps'):
        if s.attr not in steps:
            _err(f'{fn.name}: unknown step {s.attr}')
        step = steps[s.attr]
    else:
        step = _int_const(s)
    if not (0 <= rnd <= 15 and 0 <= step <= 9):
        _err(f'{fn.name}: stop point ({rnd}, {step}) out of range')
    return (rnd, step)


def _key_fn(fn, modname):
    fn = _strip_doc(fn)
    if not _args_are(fn, ('key',)):
        _err(f'{fn.name}: signature is not (key)')
    ok = (len(fn.body) == 1 and isinstance(fn.body[0], ast.Return) and isinstance(fn.body[0].value, ast.Subscript))
    if ok:
        sub = fn.body[0].value
        c = sub.value
        ok = (isinstance(c, ast.Call) and _is_attr(c.func, modname, 'key_schedule') and len(c.args) == 1 and _is_name(c.args[0], 'key')
              and not c.keywords)
    if not ok:
        _err(f'{fn.name}: body is not `return {modname}.key_schedule(key)[<int>]`')
    return _int_const(sub.slice)


def _class_row(cls, helpers, keyfns):
    body = _strip_doc(cls).body
    if cls.bases or cls.keywords or cls.decorator_list or len(body) != 1 or not isinstance(body[0], ast.FunctionDef) or body[0].name != '__new__':
        _err(f'class {cls.name}: expected a plain class holding only __new__')
    new = copy.deepcopy(_strip_doc(body[0]))
    try:
        args = new.args
        tagparam = args.args[3].arg
        nguess = _int_const(args.defaults[0].args[0])
        args.defaults[0].args[0] = ast.Constant(value=0)
        tag = args.defaults[2].value
        keytag = args.defaults[3].value
        args.defaults[2] = ast.Constant(value='')
        args.defaults[3] = ast.Constant(value='')
        call = new.body[0].value
        fn = call.args[1].id
        kfn = [k for k in call.keywords if k.arg == 'expected_key_function'][0].value.id
    except C.TranslateError:
        raise
    except Exception:
        _err(f'class {cls.name}: __new__ is not the shape the model was written against')
    want = CLASS_NEW_SHAPE.replace('TAGPARAM', tagparam).replace('KFN', kfn).replace('FN', fn)
    if ast.dump(new) != ast.dump(ast.parse(want).body[0]):
        _err(f'class {cls.name}: __new__ is not the shape the model was written against')
    if not (isinstance(tag, str) and isinstance(keytag, str)):
        _err(f'class {cls.name}: tag defaults are not strings')
    if fn not in helpers:
        _err(f'class {cls.name}: unknown computing function {fn}')
    if kfn not in keyfns:
        _err(f'class {cls.name}: unknown expected-key function {kfn}')
    if not (0 < nguess <= 256):
        _err(f'class {cls.name}: default guesses arange({nguess})')
    return {'name': cls.name, 'fn': fn, 'keyfn': kfn, 'nguesses': nguess, 'words_none': True, 'target_tag': tag, 'key_tag': keytag,
            'tagparam': tagparam}


def _encrypt_module(repo, modname, steps):
    path = repo / 'scared' / modname / 'selection_functions' / 'encrypt.py'
    tree = ast.parse(path.read_text())
    _check_imports(tree, AES_IMPORTS if modname == 'aes' else DES_IMPORTS, str(path))
    helpers, keyfns, rows, order = {}, {}, [], []
    desfn = None
    for node in tree.body:
        if isinstance(node, (ast.Import, ast.ImportFrom)):
            continue
        if isinstance(node, ast.FunctionDef):
            if not node.name.startswith('_'):
                _err(f'{path}: public function {node.name}')
            names = [a.arg for a in node.args.args]
            if names == ['key']:
                keyfns[node.name] = _key_fn(node, modname)
            elif modname == 'des' and node.name == '_des_function':
                desfn = _des_function(node)
            elif modname == 'des':
                if desfn is None:
                    _err(f'{node.name}: defined before _des_function')
                helpers[node.name] = _des_helper(node, steps)
                order.append(node.name)
            else:
                helpers[node.name] = _aes_helper(node, helpers)
                order.append(node.name)
        elif isinstance(node, ast.ClassDef):
            if node.name.startswith('_'):
                _err(f'{path}: private class {node.name}')
            rows.append(_class_row(node, helpers, keyfns))
        else:
            _err(f'{path}: unexpected top-level statement {ast.dump(node)[:200]}')
    if modname == 'des' and desfn is None:
        _err(f'{path}: _des_function not found')
    if len({r['name'] for r in rows}) != len(rows):
        _err(f'{path}: duplicate class names')
    return {'helpers': [(n, helpers[n]) for n in order], 'keyfns': sorted(keyfns.items()), 'rows': rows, 'desfn': desfn}


def _decrypt_module(repo, modname, enc_names):
    path = repo / 'scared' / modname / 'selection_functions' / 'decrypt.py'
    tree = ast.parse(path.read_text())
    body = tree.body
    if not body or ast.dump(body[0]) != ast.dump(ast.parse('from . import encrypt').body[0]):
        _err(f'{path}: first statement is not `from . import encrypt`')
    aliases = []
    seen = set()
    for st in body[1:]:
        if not (isinstance(st, ast.Assign) and len(st.targets) == 1):
            _err(f'{path}: unexpected statement {ast.dump(st)[:200]}')
        t = st.targets[0]
        if isinstance(t, ast.Name):
            if not (_is_attr(st.value, 'encrypt') and st.value.attr in enc_names):
                _err(f'{path}: {t.id} is not an alias of a public class of encrypt')
            if t.id in seen or t.id.startswith('_'):
                _err(f'{path}: {t.id} assigned twice or private')
            seen.add(t.id)
            aliases.append((t.id, st.value.attr))
        elif isinstance(t, ast.Attribute) and t.attr == '__doc__' and isinstance(t.value, ast.Name) and t.value.id in seen:
            if not (isinstance(st.value, ast.Constant) and isinstance(st.value.value, str)):
                _err(f'{path}: __doc__ of {t.value.id} is not a string literal')
        else:
            _err(f'{path}: unexpected assignment target {ast.dump(t)[:200]}')
    return aliases


def translate(repo):
    steps = _enum_steps(repo)
    out = {'steps': steps}
    for modname in ('aes', 'des'):
        enc = _encrypt_module(repo, modname, steps)
        enc['aliases'] = _decrypt_module(repo, modname, {r['name'] for r in enc['rows']})
        out[modname] = enc
    return out


# ------------------------------------------------------------------------------------------------ self check
def _np_eval(e, data, guesses, np, prim):
    k = e[0]
    if k == 'data':
        return data
    if k == 'loop':
        res = np.empty((len(guesses),) + data.shape, dtype='uint8')
        for i, g in enumerate(guesses):
            res[i] = np.bitwise_xor(data.astype('uint8'), g)
        return res
    if k == 'swap':
        return _np_eval(e[3], data, guesses, np, prim).swapaxes(e[1], e[2])
    if k == 'prim':
        return prim(e[1])(_np_eval(e[2], data, guesses, np, prim))
    if k == 'xor':
        return np.bitwise_xor(_np_eval(e[1], data, guesses, np, prim), _np_eval(e[2], data, guesses, np, prim))
    raise C.TranslateError(f'self-check: unknown expression {e}')


def self_check(repo, out):
    import importlib
    import types
    import numpy as np
    rs = np.random.RandomState(7)
    for modname in ('aes', 'des'):
        enc = importlib.import_module(f'scared.{modname}.selection_functions.encrypt')
        dec = importlib.import_module(f'scared.{modname}.selection_functions.decrypt')
        base = importlib.import_module(f'scared.{modname}.base')
        for m in (enc, dec, base):
            if not str(m.__file__).startswith(str(repo)):
                raise C.TranslateError(f'self-check: {m.__name__} was imported from {m.__file__}, not from {repo}')
        o = out[modname]

        def public(m):
            return sorted(n for n in vars(m) if not n.startswith('_') and not isinstance(getattr(m, n), types.ModuleType))
        if public(enc) != sorted(r['name'] for r in o['rows']):
            raise C.TranslateError(f'self-check: public names of {enc.__name__} are {public(enc)}')
        if public(dec) != sorted(a for a, _ in o['aliases']):
            raise C.TranslateError(f'self-check: public names of {dec.__name__} are {public(dec)}')
        for a, b in o['aliases']:
            if getattr(dec, a) is not getattr(enc, b):
                raise C.TranslateError(f'self-check: {dec.__name__}.{a} is not encrypt.{b}')
        for r in o['rows']:
            sf = getattr(enc, r['name'])()
            ok = (sf._function is getattr(enc, r['fn']) and sf.expected_key_function is getattr(enc, r['keyfn'])
                  and sf.guesses.dtype == np.uint8 and sf.guesses.tolist() == list(range(r['nguesses']))
                  and sf.words is Ellipsis and sf.target_tag == r['target_tag'] and sf.key_tag == r['key_tag']
                  and sf.target_name == 'data' and sf.key_name == 'key')
            if not ok:
                raise C.TranslateError(f'self-check: the live {enc.__name__}.{r["name"]}() differs from what was parsed')
            sf2 = getattr(enc, r['name'])(**{r['tagparam']: 'tag_x', 'key_tag': 'key_y', 'words': 1, 'guesses': np.array([3, 1], dtype='uint8')})
            if not (sf2.target_tag == 'tag_x' and sf2.key_tag == 'key_y' and sf2.words == 1 and sf2.guesses.tolist() == [3, 1]):
                raise C.TranslateError(f'self-check: {enc.__name__}.{r["name"]} does not pass its arguments through')
        klen = 16 if modname == 'aes' else 8
        for kl in ((16, 24, 32) if modname == 'aes' else (8,)):
            key = rs.randint(0, 256, (kl,)).astype('uint8')
            for name, idx in o['keyfns']:
                if getattr(enc, name)(key).tolist() != base.key_schedule(key)[idx].tolist():
                    raise C.TranslateError(f'self-check: live {name} is not key_schedule(key)[{idx}]')
        del klen
        if modname == 'aes':
            data = rs.randint(0, 256, (3, 16)).astype('uint8')
            guesses = np.array([0, 255, 17, 200, 5], dtype='uint8')
            for name, e in o['helpers']:
                got = _np_eval(e, data, guesses, np, lambda p: getattr(base, p))
                live = getattr(enc, name)(data=data, guesses=guesses)
                if got.shape != live.shape or got.tolist() != live.tolist():
                    raise C.TranslateError(f'self-check: expression parsed for {name} does not evaluate like the live function')
        else:
            data = rs.randint(0, 256, (3, 8)).astype('uint8')
            guesses = np.array([0, 63, 17, 40, 5], dtype='uint8')
            d = o['desfn']
            cipher = base.decrypt if d['decrypt'] else base.encrypt
            for name, (rnd, step) in o['helpers']:
                res = np.empty((len(guesses),) + data.shape, dtype='uint8')
                for i, g in enumerate(guesses):
                    res[i] = cipher(data, np.full((d['keylen'],), g, dtype='uint8'), at_round=rnd, after_step=step)

                def ev(e):
                    if e[0] == 'loop':
                        return res
                    if e[0] == 'swap':
                        return ev(e[3]).swapaxes(e[1], e[2])
                    raise C.TranslateError(f'self-check: unexpected expression {e} in _des_function')
                got = ev(d['expr'])
                live = getattr(enc, name)(data=data, guesses=guesses)
                if got.shape != live.shape or got.tolist() != live.tolist():
                    raise C.TranslateError(f'self-check: what was parsed for {name} does not evaluate like the live function')
            if {m.name: int(m) for m in base.Steps} != out['steps']:
                raise C.TranslateError('self-check: enum Steps differs from the live enum')


# ------------------------------------------------------------------------------------------------ emit
def _coq_str(s):
    if '"' in s or '\\' in s or '\n' in s:
        raise C.TranslateError(f'string {s!r} cannot be printed as a Coq string')
    return f'"{s}"'


def _coq_expr(e, leaf):
    k = e[0]
    if k == 'data':
        return 'SeData'
    if k == 'loop':
        return f'(SeGuessLoop {leaf})'
    if k == 'swap':
        return f'(SeSwap {e[1]} {e[2]} {_coq_expr(e[3], leaf)})'
    if k == 'prim':
        return f'(SePrim {PRIMS[e[1]]} {_coq_expr(e[2], leaf)})'
    if k == 'xor':
        return f'(SeXor {_coq_expr(e[1], leaf)} {_coq_expr(e[2], leaf)})'
    raise C.TranslateError(f'unknown expression {e}')


def _coq_kidx(i):
    return f'(KFromStart {i})' if i >= 0 else f'(KFromEnd {-i})'


def _coq_row(r):
    return ('{| r_name := %s; r_fn := %s; r_keyfn := %s; r_nguesses := %d; r_words_none := %s; r_target_tag := %s; r_key_tag := %s |}' % (
        _coq_str(r['name']), _coq_str(r['fn']), _coq_str(r['keyfn']), r['nguesses'], C.coq_bool(r['words_none']),
        _coq_str(r['target_tag']), _coq_str(r['key_tag'])))


def emit(out):
    L = []
    L.append('(* GENERATED from /repo/scared/{aes,des}/selection_functions/{encrypt,decrypt}.py by tools/translate/tr_selfun.py -- do not edit *)')
    L.append('From Coq Require Import NArith List String. Import ListNotations. Open Scope string_scope. Open Scope nat_scope.')
    L.append('(* array primitives a computing helper may call *)')
    L.append('Inductive sf_prim := SpSubBytes | SpInvSubBytes | SpShiftRows | SpInvShiftRows.')
    L.append('(* body of the guess loop  `for i, g in enumerate(guesses): res[i] = body(data, g)`:')
    L.append('   BXor = _np.bitwise_xor(data, g);  BDes dec n = des.encrypt / des.decrypt (data, n words all equal to g, at_round, after_step) *)')
    L.append('Inductive sf_body := BXor | BDes (dec : bool) (keylen : nat).')
    L.append('(* the array expressions of the helpers: data (traces, words); the guess loop (guesses, traces, words); swapaxes; a primitive on')
    L.append('   the last axis; _np.bitwise_xor with numpy broadcasting *)')
    L.append('Inductive sf_expr := SeData | SeGuessLoop (b : sf_body) | SeSwap (i j : nat) (e : sf_expr) | SePrim (p : sf_prim) (e : sf_expr) | SeXor (a b : sf_expr).')
    L.append('(* key_schedule(key)[i]:  KFromStart i = [i],  KFromEnd i = [-i] *)')
    L.append('Inductive sf_kidx := KFromStart (i : nat) | KFromEnd (i : nat).')
    L.append('Record sf_row := { r_name : string; r_fn : string; r_keyfn : string; r_nguesses : nat; r_words_none : bool; r_target_tag : string; r_key_tag : string }.')
    a = out['aes']
    L.append('(* ---- scared.aes.selection_functions *)')
    L.append('Definition aes_helpers : list (string * sf_expr) := ' + C.coq_list(a['helpers'], lambda p: f'({_coq_str(p[0])}, {_coq_expr(p[1], "BXor")})') + '.')
    L.append('Definition aes_keyfns : list (string * sf_kidx) := ' + C.coq_list(a['keyfns'], lambda p: f'({_coq_str(p[0])}, {_coq_kidx(p[1])})') + '.')
    L.append('Definition aes_encrypt_rows : list sf_row := [\n  ' + ';\n  '.join(_coq_row(r) for r in a['rows']) + '].')
    L.append('(* decrypt namespace: name := encrypt.<other> *)')
    L.append('Definition aes_decrypt_aliases : list (string * string) := ' + C.coq_list(a['aliases'], lambda p: f'({_coq_str(p[0])}, {_coq_str(p[1])})') + '.')
    d = out['des']
    L.append('(* ---- scared.des.selection_functions *)')
    leaf = f'(BDes {C.coq_bool(d["desfn"]["decrypt"])} {d["desfn"]["keylen"]})'
    L.append('(* _des_function(data, guesses, at_round, after_step) *)')
    L.append(f'Definition des_function_expr : sf_expr := {_coq_expr(d["desfn"]["expr"], leaf)}.')
    L.append('(* helper -> (at_round, after_step) handed to _des_function *)')
    L.append('Definition des_helpers : list (string * (nat * nat)) := ' + C.coq_list(d['helpers'], lambda p: f'({_coq_str(p[0])}, ({p[1][0]}, {p[1][1]}))') + '.')
    L.append('Definition des_keyfns : list (string * sf_kidx) := ' + C.coq_list(d['keyfns'], lambda p: f'({_coq_str(p[0])}, {_coq_kidx(p[1])})') + '.')
    L.append('Definition des_encrypt_rows : list sf_row := [\n  ' + ';\n  '.join(_coq_row(r) for r in d['rows']) + '].')
    L.append('Definition des_decrypt_aliases : list (string * string) := ' + C.coq_list(d['aliases'], lambda p: f'({_coq_str(p[0])}, {_coq_str(p[1])})') + '.')
    return '\n'.join(L) + '\n'
