"""Fail-closed ast tabulator for property C11: the WRITE TARGETS of the bodies of the five prange kernels.

    partitioned.PartitionedDistinguisherMixin._accumulate_core_1      (prange over samples)
    template._TemplateBuildDistinguisherMixin._accumulate_core_1      (prange over samples)
    template._TemplateBuildDistinguisherMixin._accumulate_core_2      (prange over classes)
    mia.MIADistinguisherMixin._accumulate_core                        (prange over samples)
    ttest.TTestThreadAccumulator._update_core                         (prange over samples)

Each function must be `@staticmethod @njit(parallel=True...)` with exactly one `for <v> in _nb.prange(...)` loop at the top level of
its body (after simple assignments).  The loop body is walked; every statement that stores into a subscript `A[i1, ..., ik] = / op= e`
is recorded as

    KW array shared position guard0
        array     the name A
        shared    A is a parameter of the function or is bound OUTSIDE the prange loop (anything bound inside the body is private to
                  the iteration: numba allocates it per iteration)
        position  Some j when index j of the subscript is exactly the induction variable, None otherwise
        guard0    the statement is nested in `if <v> == 0:`

every subscript LOAD `A[...]` of an array that is also stored to in the body is recorded as KR array (a read of a cell another
iteration may write), and every augmented assignment to a plain name bound outside the loop as KRed name (a numba reduction).
Anything outside the whitelisted statement shapes raises TranslateError (the check then keeps the last good table and relies on the
C-tie).  -> coq/theories/Generated/KernelWrites.v; Model/Kernels.v states the disjointness obligation over the table.
"""
import ast
from . import common as C

OUTFILE = 'KernelWrites.v'

KERNELS = [
    ('partitioned_1', 'distinguishers/partitioned.py', 'PartitionedDistinguisherMixin', '_accumulate_core_1'),
    ('template_1', 'distinguishers/template.py', '_TemplateBuildDistinguisherMixin', '_accumulate_core_1'),
    ('template_2', 'distinguishers/template.py', '_TemplateBuildDistinguisherMixin', '_accumulate_core_2'),
    ('mia', 'distinguishers/mia.py', 'MIADistinguisherMixin', '_accumulate_core'),
    ('ttest', 'ttest.py', 'TTestThreadAccumulator', '_update_core'),
]


def _find(tree, cls, fn):
    for node in tree.body:
        if isinstance(node, ast.ClassDef) and node.name == cls:
            for m in node.body:
                if isinstance(m, ast.FunctionDef) and m.name == fn:
                    return m
    raise C.TranslateError(f'{cls}.{fn} not found')


def _is_parallel_njit(fn):
    ok = False
    for d in fn.decorator_list:
        if isinstance(d, ast.Call) and isinstance(d.func, ast.Attribute) and d.func.attr == 'njit':
            for k in d.keywords:
                if k.arg == 'parallel' and isinstance(k.value, ast.Constant) and k.value.value is True:
                    ok = True
    return ok


def _is_prange(it):
    return isinstance(it, ast.Call) and isinstance(it.func, ast.Attribute) and it.func.attr == 'prange'


def _bound_names(stmts):
    """Names bound by plain assignments / for targets in a statement list (recursively)."""
    out = set()
    for s in stmts:
        for n in ast.walk(s):
            if isinstance(n, ast.Name) and isinstance(n.ctx, ast.Store):
                out.add(n.id)
    return out


def _is_ivar_eq0(test, ivar):
    return (isinstance(test, ast.Compare) and isinstance(test.left, ast.Name) and test.left.id == ivar and len(test.ops) == 1
            and isinstance(test.ops[0], ast.Eq) and isinstance(test.comparators[0], ast.Constant) and test.comparators[0].value == 0)


def _indices(sub):
    sl = sub.slice
    if isinstance(sl, ast.Tuple):
        return list(sl.elts)
    return [sl]


class _Walker:
    def __init__(self, ivar, params, outer):
        self.ivar = ivar
        self.params = params
        self.outer = outer          # names bound before the loop (outside the body)
        self.inner = set()
        self.alias = set()          # names bound inside the body to a view of a shared array
        self.scalars = set()
        self.writes = []            # (array, shared, position, guard0)
        self.reductions = []
        self.stored_arrays = set()
        self.loads = []             # (array) subscript loads, filtered afterwards

    def shared(self, name):
        return name in self.params or name in self.alias or (name in self.outer and name not in self.inner)

    def aliases_shared(self, e):
        while True:
            if isinstance(e, ast.Attribute) and e.attr == 'T':
                e = e.value
            elif isinstance(e, ast.Call) and isinstance(e.func, ast.Attribute) and e.func.attr in ('reshape', 'transpose', 'swapaxes', 'view', 'ravel'):
                e = e.func.value
            else:
                break
        if isinstance(e, ast.Subscript) and isinstance(e.value, ast.Name):
            return self.shared(e.value.id)
        if isinstance(e, ast.Name):
            return self.shared(e.id) and e.id not in self.scalars
        return False

    def target(self, t, guard0, value=None):
        if isinstance(t, ast.Subscript):
            if not isinstance(t.value, ast.Name):
                raise C.TranslateError('store through a non-name subscript base')
            pos = None
            for j, ix in enumerate(_indices(t)):
                if isinstance(ix, ast.Name) and ix.id == self.ivar:
                    pos = j if pos is None else pos
            self.writes.append((t.value.id, self.shared(t.value.id), pos, guard0))
            self.stored_arrays.add(t.value.id)
            for ix in _indices(t):
                self.expr(ix)
        elif isinstance(t, ast.Name):
            if value is not None and self.aliases_shared(value):
                self.alias.add(t.id)          # a view of a shared array (conservative: any subscript of it, through .T / reshape / transpose)
            else:
                self.inner.add(t.id)
        elif isinstance(t, ast.Tuple):
            for e in t.elts:
                self.target(e, guard0)
        else:
            raise C.TranslateError(f'unsupported store target {type(t).__name__}')

    def expr(self, e):
        for n in ast.walk(e):
            if isinstance(n, ast.Subscript) and isinstance(n.ctx, ast.Load) and isinstance(n.value, ast.Name):
                self.loads.append(n.value.id)
            if isinstance(n, (ast.Lambda, ast.ListComp, ast.GeneratorExp, ast.NamedExpr, ast.Yield, ast.Await)):
                raise C.TranslateError(f'unsupported expression {type(n).__name__} in a prange body')

    def stmts(self, body, guard0):
        for s in body:
            if isinstance(s, ast.Assign):
                self.expr(s.value)
                for t in s.targets:
                    self.target(t, guard0, s.value)
            elif isinstance(s, ast.AugAssign):
                self.expr(s.value)
                if isinstance(s.target, ast.Name):
                    if self.shared(s.target.id):
                        self.reductions.append(s.target.id)
                    # a local accumulator of the iteration
                else:
                    self.target(s.target, guard0)
            elif isinstance(s, ast.For):
                if _is_prange(s.iter):
                    raise C.TranslateError('nested prange')
                self.expr(s.iter)
                self.target(s.target, guard0)
                self.stmts(s.body, guard0)
                if s.orelse:
                    raise C.TranslateError('for/else')
            elif isinstance(s, ast.While):
                self.expr(s.test)
                self.stmts(s.body, guard0)
                if s.orelse:
                    raise C.TranslateError('while/else')
            elif isinstance(s, ast.If):
                self.expr(s.test)
                self.stmts(s.body, guard0 or _is_ivar_eq0(s.test, self.ivar))
                self.stmts(s.orelse, guard0)
            elif isinstance(s, (ast.Continue, ast.Pass, ast.Break)):
                pass
            elif isinstance(s, ast.Expr) and isinstance(s.value, ast.Constant):
                pass                                    # a docstring / bare constant
            else:
                raise C.TranslateError(f'unsupported statement {type(s).__name__} in a prange body')


def translate(repo):
    out = []
    for name, rel, cls, fn in KERNELS:
        src = (repo / 'scared' / rel).read_text()
        f = _find(ast.parse(src), cls, fn)
        if not _is_parallel_njit(f):
            raise C.TranslateError(f'{cls}.{fn} is not njit(parallel=True)')
        params = [a.arg for a in f.args.args]
        loops = [s for s in f.body if isinstance(s, ast.For) and _is_prange(s.iter)]
        if len(loops) != 1:
            raise C.TranslateError(f'{cls}.{fn}: expected exactly one top-level prange loop, found {len(loops)}')
        loop = loops[0]
        for n in ast.walk(f):
            if isinstance(n, ast.For) and _is_prange(n.iter) and n is not loop:
                raise C.TranslateError(f'{cls}.{fn}: a second prange loop')
        if not isinstance(loop.target, ast.Name):
            raise C.TranslateError('prange target is not a name')
        before = [s for s in f.body if s is not loop]
        for s in before:
            if not (isinstance(s, (ast.Assign, ast.AugAssign)) or (isinstance(s, ast.Expr) and isinstance(s.value, ast.Constant))):
                raise C.TranslateError(f'{cls}.{fn}: unsupported statement {type(s).__name__} outside the prange loop')
        w = _Walker(loop.target.id, set(params), _bound_names(before))
        # names bound inside the body are private ONLY if they are not also bound outside
        w.inner = set()
        w.stmts(loop.body, False)
        reads = sorted({a for a in w.loads if a in w.stored_arrays and w.shared(a)})
        out.append({'name': name, 'ivar': loop.target.id, 'writes': w.writes, 'reads': reads, 'reductions': sorted(set(w.reductions))})
    return out


def self_check(repo, out):
    """The functions parsed are the ones the live classes carry (same source lines)."""
    import importlib
    import inspect
    mods = {'distinguishers/partitioned.py': 'scared.distinguishers.partitioned', 'distinguishers/template.py': 'scared.distinguishers.template',
            'distinguishers/mia.py': 'scared.distinguishers.mia', 'ttest.py': 'scared.ttest'}
    for name, rel, cls, fn in KERNELS:
        m = importlib.import_module(mods[rel])
        obj = getattr(getattr(m, cls), fn)
        py = getattr(obj, 'py_func', None)
        if py is None:
            raise C.TranslateError(f'{cls}.{fn} is not a numba dispatcher on the live class')
        if inspect.getsourcefile(py) != str(repo / 'scared' / rel):
            raise C.TranslateError(f'{cls}.{fn}: live object comes from {inspect.getsourcefile(py)}')
        if not obj.targetoptions.get('parallel'):
            raise C.TranslateError(f'{cls}.{fn}: live dispatcher is not parallel')


def _coq_string(s):
    return '"' + s.replace('"', '""') + '"'


def emit(out):
    lines = ['(* GENERATED by tools/translate/tr_kernels.py from scared/distinguishers/{partitioned,template,mia}.py and scared/ttest.py — do not edit. *)',
             'From Coq Require Import List String.', 'Import ListNotations.', 'Open Scope string_scope.', '',
             '(* KW array shared position guard0 | KR array (subscript read of an array the body stores to) | KRed name (scalar reduction) *)',
             'Inductive kevent := KW (array : string) (shared : bool) (position : option nat) (guard0 : bool) | KR (array : string) | KRed (name : string).',
             '', 'Definition kernel_writes : list (string * list kevent) := [']
    rows = []
    for k in out:
        evs = ['KW %s %s %s %s' % (_coq_string(a), C.coq_bool(sh), 'None' if pos is None else '(Some %d)' % pos, C.coq_bool(g0)) for a, sh, pos, g0 in k['writes']]
        evs += ['KR %s' % _coq_string(a) for a in k['reads']]
        evs += ['KRed %s' % _coq_string(a) for a in k['reductions']]
        rows.append('  (%s, [%s])' % (_coq_string(k['name']), '; '.join(evs)))
    lines.append(';\n'.join(rows))
    lines.append('].')
    return '\n'.join(lines) + '\n'
