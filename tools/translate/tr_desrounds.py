"""Tabulation T-tie (DESIGN.md 2.4): what scared.des.base._ParametricCipher really prepares, on the whole finite domain.

Nothing is parsed here.  The real `encrypt` / `decrypt` are called
  * for every key form (8/16/24 master bytes, 128/256/384 expanded bytes; both modes for the expanded forms, one mode for
    each master form) and every (at_des, at_round, after_step) in range, with `_prepare_des_iterations` wrapped so that the list (passes) of lists (rounds)
    of lists (Steps members / None) it hands to the cipher loop is recorded; the result must depend on
    (at_des, at_round, after_step) only (all key forms and modes agree), must be reproduced by a second tabulation, and the
    class-level templates must be the same objects with the same content afterwards (a stop-point surgery that writes into a
    shared template shows up in either);
  * for every key form, mode and at_des with `_prepare_keys` wrapped and position-encoding keys: for the expanded forms key
    byte number p holds p % 64 in one call and p // 64 in a second one, so the recorded 4-D array tells which input byte
    feeds each (pass, round, word) -- required to be eight consecutive bytes 128 k + 8 r + w, emitted as (k, r); for the master forms the three 8-byte keys are distinct and each recorded (pass, round)
    row is identified with the unique (key number, schedule round) of `key_schedule` having that value.
While tabulating, `_parametric_cipher_step` is replaced by the identity (only the control structure runs); if that method
does not exist the real steps run (slower, same result).  An unknown object, an exception on an in-range stop point or an
ambiguous identification raises TranslateError (fail closed).
"""
from . import common as C
from .tr_des import STEP_CTOR, TEMPLATES

OUTFILE = 'DesRounds.v'

FORMS = (8, 16, 24, 128, 256, 384)
MASTER_KEYS = [[0x13, 0x34, 0x57, 0x79, 0x9B, 0xBC, 0xDF, 0xF1],
               [0x0E, 0x32, 0x92, 0x32, 0xEA, 0x6D, 0x0D, 0x73],
               [0x7C, 0xA1, 0x10, 0x45, 0x4A, 0x1A, 0x6E, 0x57]]


def n_des(form):
    return 1 if form in (8, 128) else 3


class Patched:
    def __init__(self, B, record_iter=None, record_keys=None):
        self.P = B._ParametricCipher
        self.saved = {}
        self.record_iter, self.record_keys = record_iter, record_keys

    def __enter__(self):
        P = self.P
        for name in ('_prepare_des_iterations', '_prepare_keys', '_parametric_cipher_step'):
            if name in P.__dict__:
                self.saved[name] = P.__dict__[name]
        for need in ('_prepare_des_iterations', '_prepare_keys'):
            if need not in self.saved:
                raise C.TranslateError(f'_ParametricCipher has no method {need}')
        real_iter, real_keys = self.saved['_prepare_des_iterations'], self.saved['_prepare_keys']
        ri, rk = self.record_iter, self.record_keys

        def w_iter(self_, *a, **kw):
            r = real_iter(self_, *a, **kw)
            if ri is not None:
                ri.append(r)
            return r

        def w_keys(self_, *a, **kw):
            r = real_keys(self_, *a, **kw)
            if rk is not None:
                rk.append(r)
            return r

        P._prepare_des_iterations = w_iter
        P._prepare_keys = w_keys
        if '_parametric_cipher_step' in self.saved:
            P._parametric_cipher_step = lambda self_, out_state, **kw: out_state
        return self

    def __exit__(self, *exc):
        for name, f in self.saved.items():
            setattr(self.P, name, f)


def _names(B, iters, where):
    by_obj = {id(getattr(B.Steps, n)): n for n in STEP_CTOR}
    if not isinstance(iters, list):
        raise C.TranslateError(f'{where}: _prepare_des_iterations did not return a list')
    out = []
    for p in iters:
        if not isinstance(p, list):
            raise C.TranslateError(f'{where}: a pass is not a list')
        rounds = []
        for r in p:
            if not isinstance(r, list):
                raise C.TranslateError(f'{where}: a round is not a list')
            row = []
            for op in r:
                if op is None:
                    row.append(None)
                elif id(op) in by_obj:
                    row.append(by_obj[id(op)])
                else:
                    raise C.TranslateError(f'{where}: unknown operation {op!r}')
            rounds.append(tuple(row))
        out.append(tuple(rounds))
    return tuple(out)


def tabulate_iterations(B, forms):
    import numpy as np
    table = {}
    rec = []
    blk = np.arange(8, dtype='uint8')
    with Patched(B, record_iter=rec):
        for form in forms:
            key = np.zeros(form, dtype='uint8')
            for mode, fn in (('enc', B.encrypt), ('dec', B.decrypt)):
                if (form, mode) in ((8, 'dec'), (16, 'enc'), (24, 'dec')):
                    continue        # the master forms pay three key schedules per call: one mode each is enough here
                for ad in range(n_des(form)):
                    for r in range(16):
                        for s in range(10):
                            where = f'{mode} key bytes={form} at_des={ad} at_round={r} after_step={s}'
                            del rec[:]
                            try:
                                fn(blk, key, at_round=r, after_step=s, at_des=ad)
                            except Exception as e:
                                raise C.TranslateError(f'{where} raised {type(e).__name__}: {e}')
                            if len(rec) != 1:
                                raise C.TranslateError(f'{where}: _prepare_des_iterations called {len(rec)} times')
                            names = _names(B, rec[0], where)
                            k = (ad, r, s)
                            if k in table and table[k] != names:
                                raise C.TranslateError(f'{where}: the prepared iterations depend on more than (at_des, at_round, after_step)')
                            table[k] = names
    return table


def tabulate_keys(B):
    import numpy as np
    blk = np.arange(8, dtype='uint8')
    master, expanded = {}, {}
    rec = []
    with Patched(B, record_keys=rec):
        def call(fn, key, ad, where):
            del rec[:]
            try:
                fn(blk, np.array(key, dtype='uint8'), at_round=0, after_step=0, at_des=ad)
            except Exception as e:
                raise C.TranslateError(f'{where} raised {type(e).__name__}: {e}')
            if len(rec) != 1:
                raise C.TranslateError(f'{where}: _prepare_keys called {len(rec)} times')
            a = np.asarray(rec[0])
            if a.dtype != np.uint8 or a.shape != (ad + 1, 1, 16, 8):
                raise C.TranslateError(f'{where}: _prepare_keys returned dtype {a.dtype} shape {a.shape}')
            return a[:, 0].astype(int).tolist()

        sched = {}
        for k, mk in enumerate(MASTER_KEYS):
            ks = B.key_schedule(np.array(mk, dtype='uint8'))
            if ks.shape != (16, 8):
                raise C.TranslateError('key_schedule shape')
            for r in range(16):
                row = tuple(int(v) for v in ks[r])
                if row in sched:
                    raise C.TranslateError('the tabulation keys do not have 48 distinct round keys')
                sched[row] = (k, r)
        for form in FORMS:
            for mode, fn in (('enc', B.encrypt), ('dec', B.decrypt)):
                for ad in range(n_des(form)):
                    where = f'{mode} key bytes={form} at_des={ad} (_prepare_keys)'
                    if form <= 24:
                        key = sum(MASTER_KEYS[:form // 8], [])
                        got = call(fn, key, ad, where)
                        sel = []
                        for p in got:
                            rows = []
                            for row in p:
                                if tuple(row) not in sched:
                                    raise C.TranslateError(f'{where}: a prepared round key is not a round key of one of the given keys')
                                rows.append(sched[tuple(row)])
                            sel.append(rows)
                        master[(form, mode, ad)] = sel
                    else:
                        lo = call(fn, [p % 64 for p in range(form)], ad, where)
                        hi = call(fn, [p // 64 for p in range(form)], ad, where)
                        sel = []
                        for p in range(ad + 1):
                            rows = []
                            for r in range(16):
                                pos = [hi[p][r][w] * 64 + lo[p][r][w] for w in range(8)]
                                k, rr = pos[0] // 128, (pos[0] % 128) // 8
                                if pos != [128 * k + 8 * rr + w for w in range(8)] or not (0 <= pos[0] and pos[7] < form):
                                    raise C.TranslateError(f'{where}: pass {p} round {r} is not fed by eight consecutive aligned input bytes: {pos}')
                                rows.append((k, rr))
                            sel.append(rows)
                        expanded[(form, mode, ad)] = sel
    return master, expanded


def _snapshot(B):
    P = B._ParametricCipher
    snap = {}
    for t in TEMPLATES:
        if not hasattr(P, t):
            raise C.TranslateError(f'_ParametricCipher has no template {t}')
        obj = getattr(P, t)
        snap[t] = (id(obj), list(obj))
    return snap


def translate(repo):
    import scared.des.base as B
    if not str(B.__file__).startswith(str(repo)):
        raise C.TranslateError(f'scared.des.base was imported from {B.__file__}, not from {repo}')
    before = _snapshot(B)
    try:
        t1 = tabulate_iterations(B, FORMS)
        t2 = tabulate_iterations(B, (384,))
        after = _snapshot(B)
    finally:
        # leave the module as it was imported: the correspondence harness runs in this process afterwards and must be able
        # to name the call that modifies a shared template
        for t in TEMPLATES:
            obj = getattr(B._ParametricCipher, t)
            if isinstance(obj, list):
                obj[:] = before[t][1]
    for t in TEMPLATES:
        if before[t][0] != after[t][0] or len(before[t][1]) != len(after[t][1]) or any(a is not b for a, b in zip(before[t][1], after[t][1])):
            raise C.TranslateError(f'the class-level template {t} was modified by a call (stop-point surgery writes into a shared list)')
    if t1 != t2:
        bad = sorted(k for k in t1 if t1[k] != t2.get(k))[:3]
        raise C.TranslateError(f'two tabulations of _prepare_des_iterations differ, e.g. at (at_des, at_round, after_step) = {bad}')
    master, expanded = tabulate_keys(B)
    return {'iter': t1, 'master': master, 'expanded': expanded}


def self_check(repo, out):
    if sorted(out['iter']) != [(d, r, s) for d in range(3) for r in range(16) for s in range(10)]:
        raise C.TranslateError(f'expected 480 stop points, tabulated {len(out["iter"])}')
    want = sorted((f, m, d) for f in FORMS for m in ('dec', 'enc') for d in range(n_des(f)))
    if sorted(list(out['master']) + list(out['expanded'])) != want:
        raise C.TranslateError('key selection: unexpected domain')
    for (d, r, s), passes in out['iter'].items():
        if len(passes) != d + 1 or any(len(p) > 16 for p in passes):
            raise C.TranslateError(f'stop point {(d, r, s)}: {len(passes)} passes / more than 16 rounds')


def step_lit(m):
    return 'None' if m is None else f'Some {STEP_CTOR[m]}'


def emit(out):
    rounds, passes = {}, {}
    for k in sorted(out['iter']):
        for p in out['iter'][k]:
            for r in p:
                rounds.setdefault(r, len(rounds))
            passes.setdefault(p, len(passes))
    L = []
    L.append('(* GENERATED by tools/translate/tr_desrounds.py: scared.des.base._ParametricCipher._prepare_des_iterations and')
    L.append('   _prepare_keys tabulated on their whole domains by running the real encrypt/decrypt -- do not edit *)')
    L.append('From Coq Require Import List. Import ListNotations.')
    L.append('From ScaredV Require Import Generated.DesTables.')
    L.append('(* the distinct rounds (lists of operations) that occur *)')
    L.append('Definition round_defs : list (list (option step)) := [\n  '
             + ';\n  '.join(C.coq_list(r, step_lit) for r in rounds) + '\n].')
    L.append('(* the distinct passes: each a list of indices into round_defs, in the order the rounds are run *)')
    L.append('Definition pass_defs : list (list nat) := [\n  '
             + ';\n  '.join(C.coq_list([rounds[r] for r in p], str) for p in passes) + '\n]%nat.')
    L.append('(* ((at_des, at_round, after_step), the passes as indices into pass_defs) *)')
    L.append('Definition iter_table : list ((nat * nat * nat) * list nat) := [\n  '
             + ';\n  '.join('((%d, %d, %d), %s)' % (k[0], k[1], k[2], C.coq_list([passes[p] for p in out['iter'][k]], str))
                           for k in sorted(out['iter'])) + '\n]%nat.')
    L.append('(* master-key forms: ((key bytes, decrypt?, at_des), per pass, per round: (number of the 8-byte key, round of its schedule)) *)')
    rows = []
    for (form, mode, ad) in sorted(out['master']):
        sel = out['master'][(form, mode, ad)]
        rows.append('((%d, %s, %d), %s)' % (form, C.coq_bool(mode == 'dec'), ad,
                                           C.coq_list(sel, lambda p: C.coq_list(p, lambda kr: f'({kr[0]}, {kr[1]})'))))
    L.append('Definition key_sel_master : list ((nat * bool * nat) * list (list (nat * nat))) := [\n  ' + ';\n  '.join(rows) + '\n]%nat.')
    L.append('(* expanded-key forms: ((key bytes, decrypt?, at_des), per pass, per round: (k, r) meaning that word w of the round key is')
    L.append('   input byte 128 * k + 8 * r + w) *)')
    rows = []
    for (form, mode, ad) in sorted(out['expanded']):
        sel = out['expanded'][(form, mode, ad)]
        rows.append('((%d, %s, %d), %s)' % (form, C.coq_bool(mode == 'dec'), ad,
                                           C.coq_list(sel, lambda p: C.coq_list(p, lambda kr: f'({kr[0]}, {kr[1]})'))))
    L.append('Definition key_sel_expanded : list ((nat * bool * nat) * list (list (nat * nat))) := [\n  ' + ';\n  '.join(rows) + '\n]%nat.')
    return '\n'.join(L) + '\n'
