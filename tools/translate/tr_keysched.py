"""Fail-closed ast translator: /repo/scared/aes/base.py + /repo/scared/des/base.py -> Generated/KeySchedTables.v  (property C10).

Every function the key-schedule model (Model/KeySchedule.v) is written against is compared, statement by statement, with
the template below (the shape the hand model mirrors).  A template is ordinary Python in which a name `HOLE_x` stands for a
literal that is *read* from the source and emitted as a Coq constant: an int, or a (nested) list display of ints.  Error
messages and docstrings are ignored.  Any other difference raises TranslateError: the check then keeps the last good
generated file, says so in the evidence, and the property rests on the correspondence check (which compares the code with the
FIPS specs, not with the model).

Read that way:
  aes: key_schedule, inv_key_schedule, key_expansion, _expand_forward, _expand_backward
       -> accepted key lengths, bytes per column, RCON index offset (forward), the AES-256 extra-SubWord rule (key length, modulus)
          in each direction, round-key width, inv_key_schedule's columns per round / kept bytes / target column / default round;
       the dict _cols_out (key length -> number of columns), the tables SBOX (256) and RCON (n x 4);
  des: key_schedule, get_master_key, _find_possible_keys, _convert_hypothesis_bits_into_keys
       -> the bit masks and word weights of key_schedule, the last round index, ci_di (unknown-bit mask), nb_shift;
       the literals ROUND_KEY_BITS_INDEXES (16 x 8 x 6), PC1 (56), PC2 (48).
self_check compares the literals with the live objects imported from the same tree (module attributes; for the two lists that
live inside _find_possible_keys, the constants of its code object).
"""
import ast
import copy

from . import common as C

OUTFILE = 'KeySchedTables.v'

AES_TEMPLATES = '''
def key_schedule(key):
    keys = key_expansion(key, col_in=0)
    if key.shape[:-1]:
        final_shape = (keys.shape[0], int(keys.shape[1] / HOLE_aes_rk_bytes), HOLE_aes_rk_bytes)
    else:
        final_shape = (int(keys.shape[1] / HOLE_aes_rk_bytes), HOLE_aes_rk_bytes)
    return keys.reshape(final_shape)


def inv_key_schedule(key, round_in=HOLE_inv_default_round):
    masters = key_expansion(key, col_in=round_in * HOLE_inv_cols_per_round, col_out=HOLE_inv_col_out).swapaxes(0, -1)[:HOLE_inv_keep].swapaxes(0, -1)
    return key_schedule(masters)


def key_expansion(key_cols, col_in=0, col_out=None):
    _is_bytes_of_len(key_cols, length=HOLE_key_lengths)
    bytes_key_length = key_cols.shape[-1]
    number_of_keys = key_cols.shape[0] if key_cols.shape[:-1] else 1
    cols_in = int(bytes_key_length / HOLE_bytes_per_col)

    max_col_out = _cols_out[bytes_key_length]
    col_out = max_col_out if col_out is None else col_out

    if col_in < 0 or col_out < 0:
        raise ValueError('')
    if col_out > max_col_out:
        raise ValueError('')

    if col_in < col_out:
        return _expand_forward(key_cols, bytes_key_length, cols_in, number_of_keys, col_in, col_out)
    else:
        return _expand_backward(key_cols, bytes_key_length, cols_in, number_of_keys, col_in, col_out)


def _expand_forward(key_cols, bytes_key_length, cols_in, number_of_keys, col_in, col_out):

    cols_range = range(col_in, col_out)
    n_cols = col_out - col_in

    key = key_cols.reshape((-1, cols_in, HOLE_bytes_per_col))
    expanded_key = _np.empty((number_of_keys, col_out, HOLE_bytes_per_col), dtype='uint8')
    final_shape = (number_of_keys, (n_cols * HOLE_bytes_per_col))
    for index, col in enumerate(cols_range):
        if index < cols_in:
            expanded_key[:, col] = key[:, index, :]
        elif col % cols_in == 0:
            expanded_key[:, col] = SBOX[_np.roll(expanded_key[:, col - 1], shift=-1, axis=-1)]
            expanded_key[:, col] = _np.bitwise_xor(expanded_key[:, col], RCON[int(col / cols_in) - HOLE_fwd_rcon_sub])
            expanded_key[:, col] = _np.bitwise_xor(expanded_key[:, col], expanded_key[:, col - cols_in])
        elif bytes_key_length == HOLE_fwd_extra_klen and col % HOLE_fwd_extra_mod == 0:
            expanded_key[:, col] = _np.bitwise_xor(
                SBOX[expanded_key[:, col - 1]],
                expanded_key[:, col - cols_in]
            )
        else:
            expanded_key[:, col] = _np.bitwise_xor(expanded_key[:, col - 1], expanded_key[:, col - cols_in])
    return expanded_key[:, col_in:].reshape(final_shape)


def _expand_backward(key_cols, bytes_key_length, cols_in, number_of_keys, col_in, col_out):
    cols_range = range(col_in + cols_in - 1, col_out - 1, -1)
    n_cols = col_in - col_out + cols_in

    key = key_cols.reshape((-1, cols_in, HOLE_bytes_per_col))
    expanded_key = _np.empty((number_of_keys, col_in + cols_in, HOLE_bytes_per_col), dtype='uint8')
    final_shape = (number_of_keys, (n_cols * HOLE_bytes_per_col))
    for index, col in enumerate(cols_range):
        if index < cols_in:
            expanded_key[:, col] = key[:, cols_in - index - 1, :]
        elif col % cols_in == 0:
            expanded_key[:, col] = _np.bitwise_xor(expanded_key[:, col + cols_in], SBOX[_np.roll(expanded_key[:, col + cols_in - 1], shift=-1, axis=-1)])
            expanded_key[:, col] = _np.bitwise_xor(expanded_key[:, col], RCON[int(col / cols_in)])
        elif bytes_key_length == HOLE_bwd_extra_klen and col % HOLE_bwd_extra_mod == 0:
            expanded_key[:, col] = _np.bitwise_xor(
                SBOX[expanded_key[:, col + cols_in - 1]],
                expanded_key[:, col + cols_in])
        else:
            expanded_key[:, col] = _np.bitwise_xor(expanded_key[:, col + cols_in], expanded_key[:, col + cols_in - 1])
    return expanded_key[:, col_out:].reshape(final_shape)
'''

DES_TEMPLATES = '''
def key_schedule(key, interrupt_after_round=HOLE_des_last_round):
    _is_bytes_of_len(key)
    if not isinstance(interrupt_after_round, int):
        raise TypeError('')
    if interrupt_after_round < 0 or interrupt_after_round > HOLE_des_last_round:
        raise ValueError('')

    dimensions = key.shape[:-1]
    key = key.reshape((-1, key.shape[-1]))
    key_bits = _np.empty((key.shape[0], 64), dtype=_np.uint8)
    for current_key_byte in _np.arange(8):
        key_bits[:, current_key_byte * 8 + 0] = ((key[:, current_key_byte] & HOLE_mask0) != 0x00)
        key_bits[:, current_key_byte * 8 + 1] = ((key[:, current_key_byte] & HOLE_mask1) != 0x00)
        key_bits[:, current_key_byte * 8 + 2] = ((key[:, current_key_byte] & HOLE_mask2) != 0x00)
        key_bits[:, current_key_byte * 8 + 3] = ((key[:, current_key_byte] & HOLE_mask3) != 0x00)
        key_bits[:, current_key_byte * 8 + 4] = ((key[:, current_key_byte] & HOLE_mask4) != 0x00)
        key_bits[:, current_key_byte * 8 + 5] = ((key[:, current_key_byte] & HOLE_mask5) != 0x00)
        key_bits[:, current_key_byte * 8 + 6] = ((key[:, current_key_byte] & HOLE_mask6) != 0x00)
        key_bits[:, current_key_byte * 8 + 7] = ((key[:, current_key_byte] & HOLE_mask7) != 0x00)
    output_key = _np.zeros((key.shape[0], 8 * (interrupt_after_round + 1)), dtype=_np.uint8)
    for current_round in _np.arange(16):
        for current_word in _np.arange(8):
            output_key[:, current_round * 8 + current_word] = \\
                HOLE_weight0 * key_bits[:, ROUND_KEY_BITS_INDEXES[current_round][current_word][0]] + \\
                HOLE_weight1 * key_bits[:, ROUND_KEY_BITS_INDEXES[current_round][current_word][1]] + \\
                HOLE_weight2 * key_bits[:, ROUND_KEY_BITS_INDEXES[current_round][current_word][2]] + \\
                HOLE_weight3 * key_bits[:, ROUND_KEY_BITS_INDEXES[current_round][current_word][3]] + \\
                HOLE_weight4 * key_bits[:, ROUND_KEY_BITS_INDEXES[current_round][current_word][4]] + \\
                HOLE_weight5 * key_bits[:, ROUND_KEY_BITS_INDEXES[current_round][current_word][5]]
        if current_round == interrupt_after_round:
            break
    if dimensions:
        final_shape = (-1, (interrupt_after_round + 1), 8)
    else:
        final_shape = ((interrupt_after_round + 1), 8)
    return output_key.reshape(final_shape)


def get_master_key(round_key, nb_round, plaintext, expected_ciphertext):
    _is_bytes_of_len(round_key, length=[8])
    _is_bytes_of_len(plaintext, length=[8])
    _is_bytes_of_len(expected_ciphertext, length=[8])
    if not (round_key < 64).all():
        raise ValueError('')
    if not isinstance(nb_round, int):
        raise TypeError('')
    if nb_round < 0 or nb_round > 15:
        raise ValueError('')

    guess_keys = _find_possible_keys(round_key, nb_round)
    for guess in guess_keys:
        computed_ciphertext = encrypt(plaintext, guess)
        if _np.array_equal(expected_ciphertext, computed_ciphertext):
            return guess
    return None


def _find_possible_keys(round_key, nb_round):
    ci_di = _np.array(HOLE_ci_di, dtype='uint8')
    for index in range(48):
        word = int(index / 6)
        bit = 1 << (5 - index % 6)
        if round_key[word] & bit != 0:
            ci_di[PC2[index] - 1] = 1
    ci_di = ci_di.reshape(2, 28)
    nb_shift = HOLE_nb_shift
    ci_di = _np.roll(ci_di, + nb_shift[nb_round], 1)
    ci_di = ci_di.reshape(56)
    master_key = [0] * 64
    for index in range(len(PC1)):
        master_key[PC1[index] - 1] = ci_di[index]
    guessed_keys = _convert_hypothesis_bits_into_keys(master_key)
    return _np.array([[(guess >> (8 * hit)) & 0xFF for hit in range(7, -1, -1)] for guess in guessed_keys], dtype='uint8')


def _convert_hypothesis_bits_into_keys(array):
    len_array = len(array)
    if len_array == 1:
        return [array[0]]
    else:
        bit = array[0]
        keys_for_value_0 = _convert_hypothesis_bits_into_keys(array[1:])
        if not bit:
            return keys_for_value_0
        keys_for_value_1 = [hit + (1 << (len_array - 1)) for hit in keys_for_value_0]
        if bit == 255:
            return keys_for_value_1 + keys_for_value_0
        else:
            return keys_for_value_1
'''


# ------------------------------------------------------------------------------------------------ template matching

class _Norm(ast.NodeTransformer):
    """Error messages carry no behaviour the model depends on: inside a `raise`, every str constant / f-string becomes ''."""

    def visit_Raise(self, node):
        class _S(ast.NodeTransformer):
            def visit_JoinedStr(self, n):
                return ast.Constant(value='')

            def visit_Constant(self, n):
                return ast.Constant(value='') if isinstance(n.value, str) else n
        return _S().visit(node)


def _strip_doc(fn):
    fn = copy.deepcopy(fn)
    b = fn.body
    if b and isinstance(b[0], ast.Expr) and isinstance(b[0].value, ast.Constant) and isinstance(b[0].value.value, str):
        fn.body = b[1:]
    return fn


def _literal(node, where):
    """int literal or (nested) list display of int literals -> python value"""
    if isinstance(node, ast.Constant) and isinstance(node.value, int) and not isinstance(node.value, bool):
        return node.value
    if isinstance(node, ast.List):
        return [_literal(e, where) for e in node.elts]
    raise C.TranslateError(f'{where}: expected an int literal or a list display of int literals, got {ast.dump(node)[:100]}')


def _match(tmpl, node, holes, where):
    if isinstance(tmpl, ast.Name) and tmpl.id.startswith('HOLE_'):
        v = _literal(node, f'{where}: {tmpl.id}')
        name = tmpl.id[len('HOLE_'):]
        if name in holes and holes[name] != v:
            raise C.TranslateError(f'{where}: the occurrences of {name} differ ({holes[name]!r} / {v!r})')
        holes[name] = v
        return
    if type(tmpl) is not type(node):
        raise C.TranslateError(f'{where}: line {getattr(node, "lineno", "?")}: expected {type(tmpl).__name__}, found {type(node).__name__}')
    for field in tmpl._fields:
        a, b = getattr(tmpl, field, None), getattr(node, field, None)
        if field in ('kind', 'type_comment', 'ctx'):
            continue
        _match_value(a, b, holes, where, node)


def _match_value(a, b, holes, where, parent):
    if isinstance(a, ast.AST):
        if not isinstance(b, ast.AST):
            raise C.TranslateError(f'{where}: line {getattr(parent, "lineno", "?")}: missing sub-term')
        _match(a, b, holes, where)
    elif isinstance(a, list):
        if not isinstance(b, list) or len(a) != len(b):
            raise C.TranslateError(f'{where}: line {getattr(parent, "lineno", "?")}: expected {len(a)} elements, found '
                                   f'{len(b) if isinstance(b, list) else b!r}')
        for x, y in zip(a, b):
            _match_value(x, y, holes, where, parent)
    else:
        if a != b:
            raise C.TranslateError(f'{where}: line {getattr(parent, "lineno", "?")}: expected {a!r}, found {b!r}')


def _functions(tree):
    out = {}
    for n in tree.body:
        if isinstance(n, ast.FunctionDef):
            if n.name in out:
                raise C.TranslateError(f'function {n.name} defined twice')
            out[n.name] = n
    return out


def _match_module(src_tree, template_src, modname, holes):
    have = _functions(src_tree)
    for t in ast.parse(template_src).body:
        if t.name not in have:
            raise C.TranslateError(f'{modname}.{t.name} not found')
        fn = _Norm().visit(_strip_doc(have[t.name]))
        _match(_Norm().visit(t), fn, holes, f'{modname}.{t.name}')


def _top_assign(tree, name):
    found = [n for n in tree.body if isinstance(n, ast.Assign) and len(n.targets) == 1
             and isinstance(n.targets[0], ast.Name) and n.targets[0].id == name]
    if len(found) != 1:
        raise C.TranslateError(f'expected exactly one top-level assignment to {name}, found {len(found)}')
    return found[0].value


def _np_uint8_array(node, name):
    ok = (isinstance(node, ast.Call) and isinstance(node.func, ast.Attribute) and node.func.attr == 'array'
          and isinstance(node.func.value, ast.Name) and node.func.value.id == '_np'
          and len(node.args) == 1 and isinstance(node.args[0], ast.List) and len(node.keywords) == 1
          and node.keywords[0].arg == 'dtype'
          and ((isinstance(node.keywords[0].value, ast.Attribute) and node.keywords[0].value.attr == 'uint8')
               or (isinstance(node.keywords[0].value, ast.Constant) and node.keywords[0].value.value == 'uint8')))
    if not ok:
        raise C.TranslateError(f'{name} is not _np.array([...], dtype=uint8)')
    return node.args[0]


def _shape(v, dims, lo, hi, name):
    if not dims:
        if not (isinstance(v, int) and lo <= v <= hi):
            raise C.TranslateError(f'{name}: value {v!r} outside [{lo}, {hi}]')
        return
    if not isinstance(v, list) or len(v) != dims[0]:
        raise C.TranslateError(f'{name}: expected {dims[0]} entries, got {len(v) if isinstance(v, list) else v!r}')
    for e in v:
        _shape(e, dims[1:], lo, hi, name)


INT_HOLES = ['aes_rk_bytes', 'inv_default_round', 'inv_cols_per_round', 'inv_col_out', 'inv_keep', 'bytes_per_col',
             'fwd_rcon_sub', 'fwd_extra_klen', 'fwd_extra_mod', 'bwd_extra_klen', 'bwd_extra_mod', 'des_last_round']


def translate(repo):
    out = {}
    holes = {}
    aes_tree = ast.parse((repo / 'scared' / 'aes' / 'base.py').read_text())
    des_tree = ast.parse((repo / 'scared' / 'des' / 'base.py').read_text())
    _match_module(aes_tree, AES_TEMPLATES, 'aes', holes)
    _match_module(des_tree, DES_TEMPLATES, 'des', holes)
    for h in INT_HOLES:
        _shape(holes[h], [], 0, 4096, h)
    _shape(holes['key_lengths'], [len(holes['key_lengths'])], 1, 4096, 'key_lengths')
    out['holes'] = holes
    out['masks'] = [holes[f'mask{i}'] for i in range(8)]
    out['weights'] = [holes[f'weight{i}'] for i in range(6)]
    _shape(out['masks'], [8], 0, 255, 'key bit masks')
    _shape(out['weights'], [6], 0, 255, 'word weights')
    _shape(holes['ci_di'], [56], 0, 255, 'ci_di')
    _shape(holes['nb_shift'], [16], 0, 4096, 'nb_shift')
    d = _top_assign(aes_tree, '_cols_out')
    if not isinstance(d, ast.Dict):
        raise C.TranslateError('_cols_out is not a dict display')
    out['cols_out'] = [(_literal(k, '_cols_out'), _literal(v, '_cols_out')) for k, v in zip(d.keys, d.values)]
    for k, v in out['cols_out']:
        _shape(k, [], 1, 4096, '_cols_out key')
        _shape(v, [], 1, 4096, '_cols_out value')
    out['SBOX'] = _literal(_np_uint8_array(_top_assign(aes_tree, 'SBOX'), 'SBOX'), 'SBOX')
    out['RCON'] = _literal(_np_uint8_array(_top_assign(aes_tree, 'RCON'), 'RCON'), 'RCON')
    _shape(out['SBOX'], [256], 0, 255, 'SBOX')
    _shape(out['RCON'], [len(out['RCON']), 4], 0, 255, 'RCON')
    out['rkbi'] = _literal(_np_uint8_array(_top_assign(des_tree, 'ROUND_KEY_BITS_INDEXES'), 'ROUND_KEY_BITS_INDEXES'), 'ROUND_KEY_BITS_INDEXES')
    _shape(out['rkbi'], [16, 8, 6], 0, 255, 'ROUND_KEY_BITS_INDEXES')
    out['PC1'] = _literal(_top_assign(des_tree, 'PC1'), 'PC1')
    out['PC2'] = _literal(_top_assign(des_tree, 'PC2'), 'PC2')
    _shape(out['PC1'], [56], 0, 4096, 'PC1')
    _shape(out['PC2'], [48], 0, 4096, 'PC2')
    return out


def self_check(repo, out):
    import scared.aes.base as A
    import scared.des.base as D
    for m in (A, D):
        if not str(m.__file__).startswith(str(repo)):
            raise C.TranslateError(f'self-check: {m.__name__} was imported from {m.__file__}, not from {repo}')
    if dict(out['cols_out']) != dict(A._cols_out) or len(out['cols_out']) != len(A._cols_out):
        raise C.TranslateError('self-check: parsed _cols_out differs from the live dict')
    if A.SBOX.tolist() != out['SBOX'] or A.RCON.tolist() != out['RCON'] or str(A.SBOX.dtype) != 'uint8' or str(A.RCON.dtype) != 'uint8':
        raise C.TranslateError('self-check: parsed SBOX / RCON differ from the live arrays')
    if D.ROUND_KEY_BITS_INDEXES.tolist() != out['rkbi']:
        raise C.TranslateError('self-check: parsed ROUND_KEY_BITS_INDEXES differs from the live array')
    if list(D.PC1) != out['PC1'] or list(D.PC2) != out['PC2']:
        raise C.TranslateError('self-check: parsed PC1 / PC2 differ from the live lists')
    consts = D._find_possible_keys.__code__.co_consts
    for name in ('nb_shift', 'ci_di'):
        if tuple(out['holes'][name]) not in consts:
            raise C.TranslateError(f'self-check: the parsed {name} is not among the constants of the live _find_possible_keys')
    import inspect
    if inspect.signature(A.inv_key_schedule).parameters['round_in'].default != out['holes']['inv_default_round']:
        raise C.TranslateError('self-check: default round_in of inv_key_schedule')
    if inspect.signature(D.key_schedule).parameters['interrupt_after_round'].default != out['holes']['des_last_round']:
        raise C.TranslateError('self-check: default interrupt_after_round of des.key_schedule')


def emit(out):
    h = out['holes']
    L = []
    L.append('(* GENERATED from /repo/scared/aes/base.py and /repo/scared/des/base.py by tools/translate/tr_keysched.py -- do not edit *)')
    L.append('From Coq Require Import NArith List. Import ListNotations. Open Scope N_scope.')
    L.append('(* ---- aes.key_expansion / _expand_forward / _expand_backward / key_schedule / inv_key_schedule *)')
    L.append('(* the two tables the expansion reads (own copy: the check of C10 does not depend on Generated/AesTables.v) *)')
    L.append('Definition KS_SBOX : list N := ' + C.coq_list(out['SBOX'], str) + '.')
    L.append('Definition KS_RCON : list (list N) := ' + C.coq_list2(out['RCON'], str) + '.')
    L.append('(* _cols_out: key length in bytes -> number of 4-byte columns of the expanded key *)')
    L.append('Definition AES_COLS_OUT : list (nat * nat) := ' + C.coq_list(out['cols_out'], lambda p: f'({p[0]}, {p[1]})%nat') + '.')
    L.append('Definition AES_KEY_LENGTHS : list nat := ' + C.coq_list(h['key_lengths'], str) + '%nat.')
    L.append(f'Definition AES_BYTES_PER_COL : nat := {h["bytes_per_col"]}%nat.')
    L.append('(* forward: RCON[int(col / cols_in) - AES_FWD_RCON_SUB]; backward: RCON[int(col / cols_in)] *)')
    L.append(f'Definition AES_FWD_RCON_SUB : nat := {h["fwd_rcon_sub"]}%nat.')
    L.append('(* the extra SubWord: bytes_key_length == KLEN and col % MOD == 0, in each direction *)')
    L.append(f'Definition AES_FWD_EXTRA_KLEN : nat := {h["fwd_extra_klen"]}%nat.')
    L.append(f'Definition AES_FWD_EXTRA_MOD : nat := {h["fwd_extra_mod"]}%nat.')
    L.append(f'Definition AES_BWD_EXTRA_KLEN : nat := {h["bwd_extra_klen"]}%nat.')
    L.append(f'Definition AES_BWD_EXTRA_MOD : nat := {h["bwd_extra_mod"]}%nat.')
    L.append(f'Definition AES_RK_BYTES : nat := {h["aes_rk_bytes"]}%nat.')
    L.append('(* inv_key_schedule: col_in = round_in * COLS_PER_ROUND, col_out = COL_OUT, keep the first KEEP bytes; default round_in *)')
    L.append(f'Definition AES_INV_COLS_PER_ROUND : nat := {h["inv_cols_per_round"]}%nat.')
    L.append(f'Definition AES_INV_COL_OUT : nat := {h["inv_col_out"]}%nat.')
    L.append(f'Definition AES_INV_KEEP : nat := {h["inv_keep"]}%nat.')
    L.append(f'Definition AES_INV_DEFAULT_ROUND : nat := {h["inv_default_round"]}%nat.')
    L.append('(* ---- des.key_schedule / _find_possible_keys *)')
    L.append('(* ROUND_KEY_BITS_INDEXES[round][word][bit]: 0-based index (0 = most significant bit of key byte 0) of the key bit *)')
    L.append('Definition DES_RKBI : list (list (list nat)) := '
             + C.coq_list(out['rkbi'], lambda r: C.coq_list2(r, str)) + '%nat.')
    L.append('Definition DES_PC1 : list nat := ' + C.coq_list(out['PC1'], str) + '%nat.')
    L.append('Definition DES_PC2 : list nat := ' + C.coq_list(out['PC2'], str) + '%nat.')
    L.append('(* key_bits[8 * byte + j] = (key[byte] & DES_BIT_MASKS[j]) != 0;  word = sum_j DES_WORD_WEIGHTS[j] * key_bits[index_j] *)')
    L.append('Definition DES_BIT_MASKS : list N := ' + C.coq_list(out['masks'], str) + '.')
    L.append('Definition DES_WORD_WEIGHTS : list N := ' + C.coq_list(out['weights'], str) + '.')
    L.append(f'Definition DES_LAST_ROUND : nat := {h["des_last_round"]}%nat.')
    L.append('(* _find_possible_keys: C_n D_n before PC-2 (255 = unknown bit), cumulated left shifts per round *)')
    L.append('Definition DES_CI_DI : list N := ' + C.coq_list(h['ci_di'], str) + '.')
    L.append('Definition DES_NB_SHIFT : list nat := ' + C.coq_list(h['nb_shift'], str) + '%nat.')
    return '\n'.join(L) + '\n'
