"""Fail-closed ast translator: /repo/scared/aes/base.py -> Generated/AesTables.v.

Read from the source text (never by importing it):
  * the literal tables SBOX INV_SBOX RCON SHIFT_ROWS INV_SHIFT_ROWS XTIME_2/3/9/11/13/14,
  * the dicts _cols_out and _key_length, the enums Steps / InverseSteps,
  * the six round templates _ENC_* / _DEC_* as lists of an op enum (the alias `inv_add_round_key = add_round_key` is resolved),
  * which templates `encrypt` / `decrypt` hand to `_parametric_cipher`, and with which mode,
  * the coefficient row of mix_column / inv_mix_column ([XTIME_2[d], d, d, XTIME_3[d]] -> [2; 1; 1; 3]); the rest of these two
    function bodies must be *exactly* the shape the hand model was written against (template comparison of the ast).
Anything else raises TranslateError.  self_check re-compares every literal with the live numpy object.
"""
import ast
import copy

from . import common as C

OUTFILE = 'AesTables.v'

TABLES_1D = ['SBOX', 'INV_SBOX', 'SHIFT_ROWS', 'INV_SHIFT_ROWS', 'XTIME_2', 'XTIME_3', 'XTIME_9', 'XTIME_11', 'XTIME_13', 'XTIME_14']
TABLE_LEN = {'SBOX': 256, 'INV_SBOX': 256, 'SHIFT_ROWS': 16, 'INV_SHIFT_ROWS': 16}
TEMPLATES = ['_ENC_FIRST_ROUND', '_ENC_ROUND', '_ENC_LAST_ROUND', '_DEC_FIRST_ROUND', '_DEC_ROUND', '_DEC_LAST_ROUND']
XTIME_KS = (2, 3, 9, 11, 13, 14)

# function name in base.py -> constructor of the generated enum
OPS = {
    '_identity': 'OpId',
    'sub_bytes': 'OpSubBytes',
    'shift_rows': 'OpShiftRows',
    'mix_columns': 'OpMixColumns',
    'add_round_key': 'OpAddRoundKey',
    'inv_sub_bytes': 'OpInvSubBytes',
    'inv_shift_rows': 'OpInvShiftRows',
    'inv_mix_columns': 'OpInvMixColumns',
}

# the shapes of mix_column / inv_mix_column the hand model (Model/Aes.v, mix_column_gen) was written against;
# the list handed to _np.array is the hole
MIX_COLUMN_SHAPE = '''
def mix_column(vectors):
    _is_bytes_of_len(vectors, length=[4])
    dims = vectors.shape
    data = vectors.reshape((-1, 4))
    out = _np.zeros(data.shape, dtype='uint8')
    for row in range(4):
        tmp = _np.array([], dtype=_np.uint8).T
        tmp = _np.roll(tmp, shift=row, axis=-1)
        out = _np.bitwise_xor(out, tmp)
    return out.reshape(dims)
'''
INV_MIX_COLUMN_SHAPE = '''
def inv_mix_column(vectors):
    _is_bytes_of_len(vectors, length=[4])
    dims = vectors.shape
    data = vectors.reshape((-1, 4))
    out = _np.zeros(data.shape, dtype=_np.uint8)
    for row in range(4):
        tmp = _np.array([], dtype=_np.uint8).T
        tmp = _np.roll(tmp, shift=row, axis=-1)
        out = _np.bitwise_xor(out, tmp)
    return out.reshape(dims)
'''


def _const_int(node):
    if isinstance(node, ast.Constant) and isinstance(node.value, int) and not isinstance(node.value, bool):
        return node.value
    raise C.TranslateError(f'expected int literal, got {ast.dump(node)}')


def _top_assign(tree, name):
    found = [n for n in tree.body if isinstance(n, ast.Assign) and len(n.targets) == 1
             and isinstance(n.targets[0], ast.Name) and n.targets[0].id == name]
    if len(found) != 1:
        raise C.TranslateError(f'expected exactly one top-level assignment to {name}, found {len(found)}')
    return found[0].value


def _is_uint8(node):
    if isinstance(node, ast.Attribute) and isinstance(node.value, ast.Name) and node.value.id == '_np' and node.attr == 'uint8':
        return True
    return isinstance(node, ast.Constant) and node.value == 'uint8'


def _np_array_literal(node, name):
    """_np.array(<list literal>, dtype=_np.uint8) -> the ast.List"""
    ok = (isinstance(node, ast.Call) and isinstance(node.func, ast.Attribute) and node.func.attr == 'array'
          and isinstance(node.func.value, ast.Name) and node.func.value.id == '_np'
          and len(node.args) == 1 and isinstance(node.args[0], ast.List)
          and len(node.keywords) == 1 and node.keywords[0].arg == 'dtype' and _is_uint8(node.keywords[0].value))
    if not ok:
        raise C.TranslateError(f'{name} is not _np.array([...], dtype=_np.uint8)')
    return node.args[0]


def _func(tree, name):
    found = [n for n in tree.body if isinstance(n, ast.FunctionDef) and n.name == name]
    if len(found) != 1:
        raise C.TranslateError(f'expected exactly one function {name}, found {len(found)}')
    return found[0]


def _strip_doc(fn):
    fn = copy.deepcopy(fn)
    b = fn.body
    if b and isinstance(b[0], ast.Expr) and isinstance(b[0].value, ast.Constant) and isinstance(b[0].value.value, str):
        fn.body = b[1:]
    return fn


def _enum(tree, name):
    cls = [n for n in tree.body if isinstance(n, ast.ClassDef) and n.name == name]
    if len(cls) != 1:
        raise C.TranslateError(f'class {name} not found')
    cls = cls[0]
    if not (len(cls.bases) == 1 and isinstance(cls.bases[0], ast.Attribute) and cls.bases[0].attr == 'IntEnum'):
        raise C.TranslateError(f'class {name} is not an enum.IntEnum')
    members = []
    for st in _strip_doc(cls).body:
        if not (isinstance(st, ast.Assign) and len(st.targets) == 1 and isinstance(st.targets[0], ast.Name)):
            raise C.TranslateError(f'class {name}: unexpected statement {ast.dump(st)}')
        members.append((st.targets[0].id, _const_int(st.value)))
    return members


def _mix_row(fn, shape_src):
    """Check the function against its template and return the coefficient row."""
    fn = _strip_doc(fn)
    loops = [n for n in fn.body if isinstance(n, ast.For)]
    if len(loops) != 1 or not loops[0].body:
        raise C.TranslateError(f'{fn.name}: expected one for loop')
    st = loops[0].body[0]
    try:
        lst = st.value.value.args[0]          # tmp = _np.array(<lst>, ...).T
    except Exception:
        raise C.TranslateError(f'{fn.name}: first loop statement is not tmp = _np.array([...], ...).T')
    if not isinstance(lst, ast.List):
        raise C.TranslateError(f'{fn.name}: _np.array argument is not a list literal')
    row = []
    data_row = ast.dump(ast.parse('data[:, row]', mode='eval').body)
    for e in lst.elts:
        if ast.dump(e) == data_row:
            row.append(1)
        elif (isinstance(e, ast.Subscript) and isinstance(e.value, ast.Name) and e.value.id.startswith('XTIME_')
              and ast.dump(e.slice) == data_row):
            k = e.value.id[len('XTIME_'):]
            if not (k.isdigit() and int(k) in XTIME_KS):
                raise C.TranslateError(f'{fn.name}: unknown table {e.value.id}')
            row.append(int(k))
        else:
            raise C.TranslateError(f'{fn.name}: unexpected element {ast.dump(e)}')
    if len(row) != 4:
        raise C.TranslateError(f'{fn.name}: expected 4 elements, got {len(row)}')
    lst.elts = []
    want = ast.dump(ast.parse(shape_src).body[0])
    if ast.dump(fn) != want:
        raise C.TranslateError(f'{fn.name}: body is not the shape the model was written against')
    return row


def _cipher_entry(tree, name, alias):
    """encrypt / decrypt: operations = [A, B, C]; return _parametric_cipher(..., operations=operations, [mode=...]) -> (templates, mode)"""
    fn = _strip_doc(_func(tree, name))
    if len(fn.body) != 2:
        raise C.TranslateError(f'{name}: expected two statements')
    a, r = fn.body
    if not (isinstance(a, ast.Assign) and len(a.targets) == 1 and isinstance(a.targets[0], ast.Name) and a.targets[0].id == 'operations'
            and isinstance(a.value, ast.List) and all(isinstance(e, ast.Name) for e in a.value.elts)):
        raise C.TranslateError(f'{name}: first statement is not operations = [names]')
    tmpl = [e.id for e in a.value.elts]
    if len(tmpl) != 3 or any(t not in TEMPLATES for t in tmpl):
        raise C.TranslateError(f'{name}: unexpected templates {tmpl}')
    if not (isinstance(r, ast.Return) and isinstance(r.value, ast.Call) and isinstance(r.value.func, ast.Name)
            and r.value.func.id == '_parametric_cipher' and not r.value.args):
        raise C.TranslateError(f'{name}: does not return _parametric_cipher(keywords)')
    kw = {k.arg: k.value for k in r.value.keywords}
    first = fn.args.args[0].arg
    want = {'state': first, 'key': 'key', 'operations': 'operations', 'at_round': 'at_round', 'after_step': 'after_step'}
    for k, v in want.items():
        if not (k in kw and isinstance(kw[k], ast.Name) and kw[k].id == v):
            raise C.TranslateError(f'{name}: keyword {k} is not passed through')
    mode = 'encrypt'
    if 'mode' in kw:
        if not (isinstance(kw['mode'], ast.Constant) and kw['mode'].value in ('encrypt', 'decrypt')):
            raise C.TranslateError(f'{name}: unexpected mode')
        mode = kw['mode'].value
    if set(kw) - set(want) - {'mode'}:
        raise C.TranslateError(f'{name}: unexpected keywords {sorted(set(kw) - set(want))}')
    # defaults of at_round / after_step
    names = [a_.arg for a_ in fn.args.args]
    if names[1:] != ['key', 'at_round', 'after_step'] or len(fn.args.defaults) != 2:
        raise C.TranslateError(f'{name}: unexpected signature')
    d_round, d_step = fn.args.defaults
    if not (isinstance(d_round, ast.Constant) and d_round.value is None):
        raise C.TranslateError(f'{name}: at_round default is not None')
    if not (isinstance(d_step, ast.Attribute) and isinstance(d_step.value, ast.Name)):
        raise C.TranslateError(f'{name}: after_step default is not an enum member')
    return tmpl, mode, (d_step.value.id, d_step.attr)


def translate(repo):
    src = (repo / 'scared' / 'aes' / 'base.py').read_text()
    tree = ast.parse(src)
    out = {}
    for name in TABLES_1D:
        lst = _np_array_literal(_top_assign(tree, name), name)
        vals = [_const_int(e) for e in lst.elts]
        want = TABLE_LEN.get(name, 256)
        if len(vals) != want or any(not (0 <= v <= 255) for v in vals):
            raise C.TranslateError(f'{name}: expected {want} byte values, got {len(vals)}')
        out[name] = vals
    lst = _np_array_literal(_top_assign(tree, 'RCON'), 'RCON')
    rcon = []
    for e in lst.elts:
        if not isinstance(e, ast.List):
            raise C.TranslateError('RCON row is not a list literal')
        row = [_const_int(x) for x in e.elts]
        if len(row) != 4 or any(not (0 <= v <= 255) for v in row):
            raise C.TranslateError('RCON row is not 4 bytes')
        rcon.append(row)
    out['RCON'] = rcon
    for name in ('_cols_out', '_key_length'):
        d = _top_assign(tree, name)
        if not isinstance(d, ast.Dict):
            raise C.TranslateError(f'{name} is not a dict literal')
        out[name] = [(_const_int(k), _const_int(v)) for k, v in zip(d.keys, d.values)]
    out['Steps'] = _enum(tree, 'Steps')
    out['InverseSteps'] = _enum(tree, 'InverseSteps')
    # alias
    al = _top_assign(tree, 'inv_add_round_key')
    if not (isinstance(al, ast.Name) and al.id == 'add_round_key'):
        raise C.TranslateError('inv_add_round_key is not an alias of add_round_key')
    alias = {'inv_add_round_key': 'add_round_key'}
    # every op must be a top-level function
    for fname in OPS:
        _func(tree, fname)
    # _identity really is the identity
    idf = _strip_doc(_func(tree, '_identity'))
    if ast.dump(idf) != ast.dump(ast.parse('def _identity(state):\n    return state\n').body[0]):
        raise C.TranslateError('_identity is not `return state`')
    for name in TEMPLATES:
        v = _top_assign(tree, name)
        if not (isinstance(v, ast.List) and all(isinstance(e, ast.Name) for e in v.elts)):
            raise C.TranslateError(f'{name} is not a list of names')
        names = [alias.get(e.id, e.id) for e in v.elts]
        for n in names:
            if n not in OPS:
                raise C.TranslateError(f'{name}: unknown operation {n}')
        out[name] = names
    out['encrypt'] = _cipher_entry(tree, 'encrypt', alias)
    out['decrypt'] = _cipher_entry(tree, 'decrypt', alias)
    out['mix_row'] = _mix_row(_func(tree, 'mix_column'), MIX_COLUMN_SHAPE)
    out['inv_mix_row'] = _mix_row(_func(tree, 'inv_mix_column'), INV_MIX_COLUMN_SHAPE)
    return out


def self_check(repo, out):
    """Compare everything parsed with the live objects imported from the same tree."""
    import numpy as np
    import scared.aes.base as B
    if not str(B.__file__).startswith(str(repo)):
        raise C.TranslateError(f'self-check: scared.aes.base was imported from {B.__file__}, not from {repo}')
    for name in TABLES_1D + ['RCON']:
        live = getattr(B, name)
        if live.dtype != np.uint8 or live.tolist() != out[name]:
            raise C.TranslateError(f'self-check: parsed {name} differs from the live array')
    if dict(out['_cols_out']) != dict(B._cols_out) or dict(out['_key_length']) != dict(B._key_length):
        raise C.TranslateError('self-check: _cols_out / _key_length differ from the live dicts')
    for en in ('Steps', 'InverseSteps'):
        if out[en] != [(m.name, int(m)) for m in getattr(B, en)]:
            raise C.TranslateError(f'self-check: enum {en} differs from the live enum')
    for name in TEMPLATES:
        live = getattr(B, name)
        for fn, parsed in zip(live, out[name]):
            if fn is not getattr(B, parsed):
                raise C.TranslateError(f'self-check: {name} holds {fn!r}, parsed {parsed}')
        if len(live) != len(out[name]):
            raise C.TranslateError(f'self-check: {name} length')
    if B.inv_add_round_key is not B.add_round_key:
        raise C.TranslateError('self-check: inv_add_round_key is not add_round_key')


def _ops(names):
    return C.coq_list(names, lambda n: OPS[n])


def emit(out):
    L = []
    L.append('(* GENERATED from /repo/scared/aes/base.py by tools/translate/tr_aes.py -- do not edit *)')
    L.append('From Coq Require Import NArith List. Import ListNotations. Open Scope N_scope.')
    L.append('Inductive aes_op := OpId | OpSubBytes | OpShiftRows | OpMixColumns | OpAddRoundKey | OpInvSubBytes | OpInvShiftRows | OpInvMixColumns.')
    for name in TABLES_1D:
        L.append(f'Definition {name} : list N := ' + C.coq_list(out[name], str) + '.')
    L.append('Definition RCON : list (list N) := ' + C.coq_list2(out['RCON'], str) + '.')
    L.append('(* key length in bytes -> number of 4-byte columns of the expanded key *)')
    L.append('Definition cols_out : list (nat * nat) := ' + C.coq_list(out['_cols_out'], lambda p: f'({p[0]}, {p[1]})%nat') + '.')
    L.append('(* number of round keys -> key length in bytes *)')
    L.append('Definition key_length : list (nat * nat) := ' + C.coq_list(out['_key_length'], lambda p: f'({p[0]}, {p[1]})%nat') + '.')
    for en in ('Steps', 'InverseSteps'):
        for n, v in out[en]:
            L.append(f'Definition {en}_{n} : nat := {v}%nat.')
    for name in TEMPLATES:
        L.append(f'Definition {name[1:]} : list aes_op := {_ops(out[name])}.')
    for fn in ('encrypt', 'decrypt'):
        tmpl, mode, (den, dmem) = out[fn]
        L.append(f'(* {fn}: operations = [first, round, last]; flips the round keys iff mode = decrypt; default after_step *)')
        L.append(f'Definition {fn}_operations : list (list aes_op) := ' + C.coq_list(tmpl, lambda t: t[1:]) + '.')
        L.append(f'Definition {fn}_flips_keys : bool := {C.coq_bool(mode == "decrypt")}.')
        L.append(f'Definition {fn}_default_step : nat := {den}_{dmem}.')
    L.append('(* mix_column / inv_mix_column: the row [XTIME_a[d], XTIME_b[d], ...] that is rolled by the byte index (1 = the byte itself) *)')
    L.append('Definition MIX_ROW : list N := ' + C.coq_list(out['mix_row'], str) + '.')
    L.append('Definition INV_MIX_ROW : list N := ' + C.coq_list(out['inv_mix_row'], str) + '.')
    return '\n'.join(L) + '\n'
