"""Fail-closed ast translator + tabulator for property C12: scared/distinguishers/partitioned.py -> Generated/ClassConsts.v.

Parsed (explicit whitelist of node shapes, TranslateError on anything else):
  _PartitionnedDistinguisherBaseMixin._initialize
      if self.partitions is None:
          if maxdata > HI: raise ValueError(...)          -> auto_refuse_above, its operator
          if mindata < LO: raise ValueError(...)          -> auto_refuse_below, its operator
          ls = [int, ...]                                 -> auto_ls
          for r in ls:
              if maxdata <op> r: break                    -> auto_break_op
          self.partitions = _np.arange(r, dtype='int32')
  _build_lut
      lut = _np.zeros(2**17, dtype='int32') - 1           -> lut_size, lut_fill
      for i in _np.arange(len(partitions)): lut[partitions[i]] = i      (the shape itself is the tie: value -> position)
  PartitionedDistinguisherMixin._accumulate
      if len(self.partitions) > 9: core_1 else ...        -> kernel_switch, kernel_switch_op

Tabulated BY RUNNING the real `_initialize` (DESIGN.md 2.4, second kind of T-tie): for every first-batch maximum 0..255 the class set
chosen when partitions=None, with `_define_lut_func` stubbed so that no JIT compilation happens; the class set must be
arange(size) and only (maximum, size) is emitted.  The refusals at 256 and at a negative minimum are recorded as well.

Self-check: the parsed rule (ls, operator, bounds) evaluated in Python reproduces the tabulation on the whole domain;
`_build_lut.py_func` (the undecorated function) returns a table of the parsed size filled with the parsed value whose
entries are the positions of the declared values; every class-based distinguisher resolves `_initialize` to the parsed function.
"""
import ast
import importlib
import sys

from . import common as C

OUTFILE = 'ClassConsts.v'
SRC = 'scared/distinguishers/partitioned.py'

OPS = {ast.Lt: 'CmpLt', ast.LtE: 'CmpLe', ast.Gt: 'CmpGt', ast.GtE: 'CmpGe'}
PYOPS = {'CmpLt': lambda a, b: a < b, 'CmpLe': lambda a, b: a <= b, 'CmpGt': lambda a, b: a > b, 'CmpGe': lambda a, b: a >= b}


def _fail(what, node=None):
    raise C.TranslateError(what + ('' if node is None else ': ' + ast.dump(node)[:200]))


def _int(node):
    if isinstance(node, ast.Constant) and isinstance(node.value, int) and not isinstance(node.value, bool):
        return node.value
    if isinstance(node, ast.UnaryOp) and isinstance(node.op, ast.USub):
        return -_int(node.operand)
    if isinstance(node, ast.BinOp) and isinstance(node.op, ast.Pow):
        b, e = _int(node.left), _int(node.right)
        if not (0 <= e <= 64):
            _fail('exponent out of range', node)
        return b ** e
    _fail('expected an integer literal', node)


def _name(node, ident):
    return isinstance(node, ast.Name) and node.id == ident


def _self_attr(node, attr):
    return isinstance(node, ast.Attribute) and node.attr == attr and _name(node.value, 'self')


def _compare(node, left_ok):
    """<left> <op> <int>  ->  (op tag, int)"""
    if not (isinstance(node, ast.Compare) and len(node.ops) == 1 and len(node.comparators) == 1 and left_ok(node.left)):
        _fail('expected a simple comparison', node)
    op = OPS.get(type(node.ops[0]))
    if op is None:
        _fail('comparison operator not in < <= > >=', node)
    return op, node.comparators[0]


def _nodoc(body):
    if body and isinstance(body[0], ast.Expr) and isinstance(body[0].value, ast.Constant) and isinstance(body[0].value.value, str):
        return body[1:]
    return body


def _find_class(tree, name):
    for n in tree.body:
        if isinstance(n, ast.ClassDef) and n.name == name:
            return n
    _fail(f'class {name} not found')


def _find_func(body, name):
    for n in body:
        if isinstance(n, ast.FunctionDef) and n.name == name:
            return n
    _fail(f'function {name} not found')


def _raise_value_error(stmts):
    return (len(stmts) == 1 and isinstance(stmts[0], ast.Raise) and isinstance(stmts[0].exc, ast.Call)
            and _name(stmts[0].exc.func, 'ValueError'))


def _np_call(node, fn):
    return (isinstance(node, ast.Call) and isinstance(node.func, ast.Attribute) and node.func.attr == fn
            and _name(node.func.value, '_np'))


def _parse_initialize(fn, out):
    body = _nodoc(fn.body)
    if [a.arg for a in fn.args.args] != ['self', 'traces', 'data']:
        _fail('_initialize signature')
    # maxdata = _np.nanmax(data); mindata = _np.nanmin(data)
    ok = (len(body) >= 3
          and isinstance(body[0], ast.Assign) and _name(body[0].targets[0], 'maxdata') and _np_call(body[0].value, 'nanmax')
          and len(body[0].value.args) == 1 and _name(body[0].value.args[0], 'data')
          and isinstance(body[1], ast.Assign) and _name(body[1].targets[0], 'mindata') and _np_call(body[1].value, 'nanmin')
          and len(body[1].value.args) == 1 and _name(body[1].value.args[0], 'data'))
    if not ok:
        _fail('_initialize: maxdata / mindata assignments', body[0])
    iff = body[2]
    if not (isinstance(iff, ast.If) and not iff.orelse and isinstance(iff.test, ast.Compare) and _self_attr(iff.test.left, 'partitions')
            and len(iff.test.ops) == 1 and isinstance(iff.test.ops[0], ast.Is)
            and isinstance(iff.test.comparators[0], ast.Constant) and iff.test.comparators[0].value is None):
        _fail('_initialize: `if self.partitions is None`', iff)
    b = iff.body
    if len(b) != 5:
        _fail('_initialize: automatic class set block has not 5 statements')
    # refusals
    for k, (var, key) in enumerate((('maxdata', 'above'), ('mindata', 'below'))):
        s = b[k]
        if not (isinstance(s, ast.If) and not s.orelse and _raise_value_error(s.body)):
            _fail('_initialize: refusal shape', s)
        op, bound = _compare(s.test, lambda n, v=var: _name(n, v))
        out[f'refuse_{key}_op'] = op
        out[f'refuse_{key}'] = _int(bound)
    # ls = [...]
    s = b[2]
    if not (isinstance(s, ast.Assign) and len(s.targets) == 1 and _name(s.targets[0], 'ls') and isinstance(s.value, ast.List)):
        _fail('_initialize: ls = [...]', s)
    out['ls'] = [_int(e) for e in s.value.elts]
    if not out['ls']:
        _fail('_initialize: empty threshold list')
    # for r in ls: if maxdata <op> r: break
    s = b[3]
    if not (isinstance(s, ast.For) and not s.orelse and _name(s.target, 'r') and _name(s.iter, 'ls') and len(s.body) == 1):
        _fail('_initialize: for r in ls', s)
    t = s.body[0]
    if not (isinstance(t, ast.If) and not t.orelse and len(t.body) == 1 and isinstance(t.body[0], ast.Break)):
        _fail('_initialize: if ...: break', t)
    op, rhs = _compare(t.test, lambda n: _name(n, 'maxdata'))
    if not _name(rhs, 'r'):
        _fail('_initialize: comparison is not with r', t.test)
    out['break_op'] = op
    # self.partitions = _np.arange(r, dtype='int32')
    s = b[4]
    if not (isinstance(s, ast.Assign) and len(s.targets) == 1 and _self_attr(s.targets[0], 'partitions') and _np_call(s.value, 'arange')
            and len(s.value.args) == 1 and _name(s.value.args[0], 'r')):
        _fail('_initialize: self.partitions = _np.arange(r, ...)', s)
    # the rest: lengths, LUT, accumulators -- must call _define_lut_func(self.partitions)
    rest = body[3:]
    found = False
    for s in rest:
        if (isinstance(s, ast.Assign) and _self_attr(s.targets[0], '_data_to_partition_index') and isinstance(s.value, ast.Call)
                and _name(s.value.func, '_define_lut_func') and len(s.value.args) == 1 and _self_attr(s.value.args[0], 'partitions')):
            found = True
    if not found:
        _fail('_initialize: self._data_to_partition_index = _define_lut_func(self.partitions) not found')


def _parse_build_lut(fn, out):
    body = _nodoc(fn.body)
    if [a.arg for a in fn.args.args] != ['partitions'] or len(body) != 3:
        _fail('_build_lut signature / length')
    # lut = _np.zeros(SIZE, dtype='int32') - 1
    s = body[0]
    if not (isinstance(s, ast.Assign) and _name(s.targets[0], 'lut') and isinstance(s.value, ast.BinOp) and isinstance(s.value.op, (ast.Sub, ast.Add))
            and _np_call(s.value.left, 'zeros') and len(s.value.left.args) == 1):
        _fail('_build_lut: lut = _np.zeros(size) - 1', s)
    out['lut_size'] = _int(s.value.left.args[0])
    fill = _int(s.value.right)
    out['lut_fill'] = -fill if isinstance(s.value.op, ast.Sub) else fill
    # for i in _np.arange(len(partitions)): lut[partitions[i]] = i
    s = body[1]
    it_ok = (isinstance(s, ast.For) and not s.orelse and _name(s.target, 'i') and len(s.body) == 1
             and ((_np_call(s.iter, 'arange') and len(s.iter.args) == 1 and isinstance(s.iter.args[0], ast.Call)
                   and _name(s.iter.args[0].func, 'len') and _name(s.iter.args[0].args[0], 'partitions'))
                  or (isinstance(s.iter, ast.Call) and _name(s.iter.func, 'range') and len(s.iter.args) == 1
                      and isinstance(s.iter.args[0], ast.Call) and _name(s.iter.args[0].func, 'len') and _name(s.iter.args[0].args[0], 'partitions'))))
    if not it_ok:
        _fail('_build_lut: loop header', s)
    a = s.body[0]
    ok = (isinstance(a, ast.Assign) and len(a.targets) == 1 and isinstance(a.targets[0], ast.Subscript) and _name(a.targets[0].value, 'lut')
          and isinstance(a.targets[0].slice, ast.Subscript) and _name(a.targets[0].slice.value, 'partitions') and _name(a.targets[0].slice.slice, 'i')
          and _name(a.value, 'i'))
    if not ok:
        _fail('_build_lut: the table is not filled by `lut[partitions[i]] = i`', a)
    if not (isinstance(body[2], ast.Return) and _name(body[2].value, 'lut')):
        _fail('_build_lut: return lut', body[2])


def _parse_accumulate(fn, out):
    body = _nodoc(fn.body)
    if len(body) != 1 or not isinstance(body[0], ast.If):
        _fail('_accumulate: expected a single if/else')
    iff = body[0]
    op, bound = _compare(iff.test, lambda n: isinstance(n, ast.Call) and _name(n.func, 'len') and len(n.args) == 1 and _self_attr(n.args[0], 'partitions'))
    out['kernel_switch_op'] = op
    out['kernel_switch'] = _int(bound)
    # the `then` branch must call kernel 1 only
    t = iff.body
    if not (len(t) == 1 and isinstance(t[0], ast.Expr) and isinstance(t[0].value, ast.Call) and _self_attr(t[0].value.func, '_accumulate_core_1')):
        _fail('_accumulate: the branch above the switch is not kernel 1', t[0])


def translate(repo):
    tree = ast.parse((repo / SRC).read_text())
    out = {}
    base = _find_class(tree, '_PartitionnedDistinguisherBaseMixin')
    _parse_initialize(_find_func(base.body, '_initialize'), out)
    _parse_build_lut(_find_func(tree.body, '_build_lut'), out)
    mix = _find_class(tree, 'PartitionedDistinguisherMixin')
    _parse_accumulate(_find_func(mix.body, '_accumulate'), out)
    out.update(_tabulate(repo))
    return out


# ------------------------------------------------------------------------------------------------ tabulation by running
def _import_scared(repo):
    repo = str(repo)
    if repo not in sys.path:
        sys.path.insert(0, repo)
    scared = importlib.import_module('scared')
    import os
    got = os.path.realpath(os.path.dirname(os.path.dirname(scared.__file__)))
    if got != os.path.realpath(repo):
        raise C.TranslateError(f'scared was imported from {got}, not from {repo}')
    return scared


def _tabulate(repo):
    import numpy as np
    scared = _import_scared(repo)
    pmod = importlib.import_module('scared.distinguishers.partitioned')
    init = pmod._PartitionnedDistinguisherBaseMixin._initialize
    tmpl = importlib.import_module('scared.analysis.template')
    users = [scared.ANOVADistinguisher, scared.NICVDistinguisher, scared.SNRDistinguisher, scared.MIADistinguisher,
             scared.ANOVAAttack, scared.NICVAttack, scared.SNRAttack, scared.MIAAttack, tmpl._TemplateBuildAnalysis]
    for cls in users:
        if getattr(cls, '_initialize', None) is not init:
            raise C.TranslateError(f'{cls.__name__} does not resolve _initialize to _PartitionnedDistinguisherBaseMixin._initialize')
    saved = pmod._define_lut_func
    calls = []

    def stub(partitions):
        calls.append(np.asarray(partitions).tolist())
        return None
    table = []
    refused = {}
    try:
        pmod._define_lut_func = stub
        tr = np.zeros((2, 1), dtype='uint8')
        for mx in range(256):
            d = scared.ANOVADistinguisher()
            n = len(calls)
            d._initialize(tr, np.array([[mx], [0]], dtype='uint16'))
            parts = np.asarray(d.partitions)
            if parts.dtype.kind not in 'iu' or parts.tolist() != list(range(len(parts))):
                raise C.TranslateError(f'automatic class set for maximum {mx} is not arange(size): {parts.tolist()[:12]}...')
            if len(calls) != n + 1 or calls[-1] != parts.tolist():
                raise C.TranslateError('_initialize did not hand the class set to _define_lut_func')
            table.append((mx, len(parts)))
        for key, data in (('above', np.array([[256], [0]], dtype='uint16')), ('below', np.array([[3], [-1]], dtype='int16'))):
            d = scared.ANOVADistinguisher()
            try:
                d._initialize(tr, data)
                refused[key] = False
            except ValueError:
                refused[key] = True
    finally:
        pmod._define_lut_func = saved
    return {'table': table, 'refused_above': refused['above'], 'refused_below': refused['below']}


def rule_size(ls, op, mx):
    """The loop `for r in ls: if maxdata <op> r: break` -> r."""
    r = None
    for r in ls:
        if PYOPS[op](mx, r):
            break
    return r


def self_check(repo, out):
    import numpy as np
    for mx, size in out['table']:
        if rule_size(out['ls'], out['break_op'], mx) != size:
            raise C.TranslateError(f'parsed rule gives {rule_size(out["ls"], out["break_op"], mx)} classes for maximum {mx}, the code {size}')
    if [m for m, _ in out['table']] != list(range(256)):
        raise C.TranslateError('tabulation does not cover 0..255')
    if out['refused_above'] != PYOPS[out['refuse_above_op']](256, out['refuse_above']):
        raise C.TranslateError('refusal of maximum 256 disagrees with the parsed test')
    if out['refused_below'] != PYOPS[out['refuse_below_op']](-1, out['refuse_below']):
        raise C.TranslateError('refusal of minimum -1 disagrees with the parsed test')
    pmod = importlib.import_module('scared.distinguishers.partitioned')
    f = getattr(pmod._build_lut, 'py_func', None)
    if f is None:
        raise C.TranslateError('_build_lut has no py_func (not a numba dispatcher)')
    parts = [5, 0, out['lut_size'] - 1, 300]
    lut = np.asarray(f(np.array(parts, dtype='int64')))
    if lut.shape != (out['lut_size'],):
        raise C.TranslateError(f'live LUT has shape {lut.shape}, parsed size {out["lut_size"]}')
    exp = np.full(out['lut_size'], out['lut_fill'], dtype='int64')
    for i, p in enumerate(parts):
        exp[p] = i
    if not np.array_equal(lut.astype('int64'), exp):
        raise C.TranslateError('live _build_lut disagrees with `lut[partitions[i]] = i` over a table filled with the parsed value')


def emit(out):
    z = C.coq_z
    lines = [
        '(* GENERATED by tools/translate/tr_classes.py from scared/distinguishers/partitioned.py -- do not edit.',
        '   Constants read from the source (ast, fail-closed) and the automatic class-set size for every first-batch maximum',
        '   0..255 obtained by running the real _initialize (with _define_lut_func stubbed). *)',
        'From Coq Require Import ZArith List.',
        'Import ListNotations.',
        'Open Scope Z_scope.',
        '',
        'Inductive cmp_op := CmpLt | CmpLe | CmpGt | CmpGe.',
        '',
        '(* ls = [...]; for r in ls: if maxdata <auto_break_op> r: break; partitions = arange(r) *)',
        f'Definition auto_ls : list Z := {C.coq_list(out["ls"], z)}.',
        f'Definition auto_break_op : cmp_op := {out["break_op"]}.',
        '(* if maxdata <op> bound: raise ValueError ; if mindata <op> bound: raise ValueError *)',
        f'Definition auto_refuse_above_op : cmp_op := {out["refuse_above_op"]}.',
        f'Definition auto_refuse_above : Z := {z(out["refuse_above"])}.',
        f'Definition auto_refuse_below_op : cmp_op := {out["refuse_below_op"]}.',
        f'Definition auto_refuse_below : Z := {z(out["refuse_below"])}.',
        '(* _build_lut: lut = zeros(lut_size) + lut_fill; lut[partitions[i]] = i *)',
        f'Definition lut_size : Z := {z(out["lut_size"])}.',
        f'Definition lut_fill : Z := {z(out["lut_fill"])}.',
        '(* _accumulate: if len(partitions) <kernel_switch_op> kernel_switch: kernel 1 only *)',
        f'Definition kernel_switch_op : cmp_op := {out["kernel_switch_op"]}.',
        f'Definition kernel_switch : Z := {z(out["kernel_switch"])}.',
        '(* (first-batch maximum, len(partitions)) for partitions=None; the class set is arange(len) *)',
        'Definition auto_table : list (Z * Z) :=',
        '  [' + ';\n   '.join('; '.join(f'({m}, {s})' for m, s in out['table'][i:i + 16]) for i in range(0, 256, 16)) + '].',
        f'Definition auto_refused_256 : bool := {C.coq_bool(out["refused_above"])}.',
        f'Definition auto_refused_negative : bool := {C.coq_bool(out["refused_below"])}.',
        '',
    ]
    return '\n'.join(lines)
