"""Fail-closed ast tabulator for property C16: the ORDER of raising points vs. state changes in update().

For every method that takes part in DistinguisherMixin.update (update itself, _check, and each family's _initialize /
_initialize_accumulators / _check / _update / _accumulate / kernels) and for _BaseAnalysis.process / run, the body is walked
in source order and reduced to a list of events:

    GRaise            a `raise` statement
    GBind a           self.a = ...                      (rebinding an attribute: undone by the rollback of update)
    GAug a            self.a += ...                     (in place when a is an array: NOT undone by the rollback)
    GStore a          self.a[...] = / += ... , self.a.<mutator>(...)      (in place)
    GParamStore p     p[...] = / += ..., p += ...  for a function parameter p (kernels write their arguments in place)
    GCall m           self.m(...), super().m(...), one of the bare names function / _define_lut_func / _build_lut, or
                      `asarray` for _np.asarray(<parameter>)
    GConv x           x.astype(...)                     (a library call that raises on unsuitable dtypes)
    GSnapshot         dict(self.__dict__)

-> coq/theories/Generated/UpdateOrder.v (`source_order`), plus `source_resolution`: for every concrete distinguisher / analysis
class of the families of C16, the defining class of each hook as resolved by the LIVE class (tabulation by running).
Model/Update.v compares `source_order` with the skeleton of its hand-written effect lists (order_tied) and proves, over the
effect lists, that every raising point precedes the first in-place write.  Anything outside the whitelisted node shapes raises
TranslateError (the check then keeps the last good table and relies on the C-tie).
"""
import ast
from . import common as C

OUTFILE = 'UpdateOrder.v'

MODULE_ALIASES = {'_np', 'logger', '_time', 'psutil', '_os', '_nb', '_logging', 'logging', '_container', '_sf', 'models', 'distinguishers'}
SAFE_NAME_CALLS = {'zip', 'isinstance', 'len', 'range', 'int', 'getattr', 'hasattr', 'type', 'enumerate', 'zip', 'float', 'str', 'tuple',
                   'list', 'abs', 'min', 'max', 'super'}
EVENT_NAME_CALLS = {'function', '_define_lut_func', '_build_lut'}
MUTATORS = {'append', 'pop', 'extend', 'insert', 'remove', 'sort', 'reverse', 'fill', 'resize', 'put', 'itemset', 'setdefault', 'clear',
            'update', 'setfield', 'partition', 'byteswap', 'setflags'}

# (file, class, method)
SCOPE = [
    ('distinguishers/base.py', 'DistinguisherMixin', 'update'),
    ('distinguishers/base.py', 'DistinguisherMixin', '_check'),
    ('distinguishers/cpa.py', 'CPADistinguisherMixin', '_initialize'),
    ('distinguishers/cpa.py', 'CPADistinguisherMixin', '_update'),
    ('distinguishers/dpa.py', 'DPADistinguisherMixin', '_initialize'),
    ('distinguishers/dpa.py', 'DPADistinguisherMixin', '_update'),
    ('distinguishers/partitioned.py', '_PartitionnedDistinguisherBaseMixin', '_initialize'),
    ('distinguishers/partitioned.py', '_PartitionnedDistinguisherBaseMixin', '_update'),
    ('distinguishers/partitioned.py', 'PartitionedDistinguisherMixin', '_initialize_accumulators'),
    ('distinguishers/partitioned.py', 'PartitionedDistinguisherMixin', '_accumulate'),
    ('distinguishers/partitioned.py', 'PartitionedDistinguisherMixin', '_accumulate_core_1'),
    ('distinguishers/partitioned.py', 'PartitionedDistinguisherMixin', '_accumulate_core_2'),
    ('distinguishers/mia.py', 'MIADistinguisherMixin', '_initialize_accumulators'),
    ('distinguishers/mia.py', 'MIADistinguisherMixin', '_accumulate'),
    ('distinguishers/mia.py', 'MIADistinguisherMixin', '_accumulate_core'),
    ('distinguishers/template.py', '_TemplateBuildDistinguisherMixin', '_initialize_accumulators'),
    ('distinguishers/template.py', '_TemplateBuildDistinguisherMixin', '_accumulate'),
    ('distinguishers/template.py', '_TemplateBuildDistinguisherMixin', '_accumulate_core_1'),
    ('distinguishers/template.py', '_TemplateBuildDistinguisherMixin', '_accumulate_core_2'),
    ('distinguishers/template.py', '_TemplateBuildDistinguisherMixin', '_check'),
    ('distinguishers/template.py', '_BaseTemplateAttackDistinguisherMixin', '_initialize'),
    ('distinguishers/template.py', '_BaseTemplateAttackDistinguisherMixin', '_update'),
    ('analysis/base.py', '_BaseAnalysis', 'process'),
    ('analysis/base.py', '_BaseAnalysis', 'run'),
]

HOOKS = ['update', '_initialize', '_initialize_accumulators', '_check', '_update', '_accumulate', 'process', 'run']

# family -> concrete classes (looked up in the live `scared` package) whose hooks are resolved
FAMILIES = [
    ('cpa', ['CPADistinguisher', 'CPAAttack', 'CPAReverse']),
    ('cpa_alt', ['CPAAlternativeDistinguisher']),
    ('dpa', ['DPADistinguisher', 'DPAAttack', 'DPAReverse']),
    ('anova', ['ANOVADistinguisher', 'ANOVAAttack', 'ANOVAReverse']),
    ('nicv', ['NICVDistinguisher', 'NICVAttack', 'NICVReverse']),
    ('snr', ['SNRDistinguisher', 'SNRAttack', 'SNRReverse']),
    ('mia', ['MIADistinguisher', 'MIAAttack', 'MIAReverse']),
    ('template_build', ['analysis.template._TemplateBuildAnalysis']),
    ('template_match', ['TemplateAttack']),
    ('template_dpa_match', ['TemplateDPAAttack']),
]


class _Walker:
    def __init__(self, fn, key):
        self.key = key
        self.params = {a.arg for a in fn.args.args + fn.args.kwonlyargs} - {'self'}
        if fn.args.vararg or fn.args.kwarg:
            raise C.TranslateError(f'{key}: *args/**kwargs not supported')
        self.events = []
        self.libfuncs = set()      # names bound, by a comprehension, to functions of a library module (zip((_np.minimum, _np.maximum) * 2, ...))

    def _lib_tuple(self, node):
        if isinstance(node, ast.BinOp) and isinstance(node.op, ast.Mult) and isinstance(node.right, ast.Constant):
            node = node.left
        return isinstance(node, ast.Tuple) and len(node.elts) > 0 and all(
            isinstance(e, ast.Attribute) and isinstance(e.value, ast.Name) and e.value.id in MODULE_ALIASES for e in node.elts)

    def _comprehension_libfuncs(self, comp):
        it = comp.iter
        if (isinstance(it, ast.Call) and isinstance(it.func, ast.Name) and it.func.id == 'zip' and it.args and self._lib_tuple(it.args[0])
                and isinstance(comp.target, ast.Tuple) and isinstance(comp.target.elts[0], ast.Name)):
            return {comp.target.elts[0].id}
        return set()

    def fail(self, node, what):
        raise C.TranslateError(f'{self.key}: line {getattr(node, "lineno", "?")}: {what}: {ast.dump(node)[:160]}')

    # ---- roots of attribute / subscript / call chains
    def root(self, node):
        """(root name or None, first attribute after the root or None)"""
        first = None
        while True:
            if isinstance(node, ast.Attribute):
                first = node.attr
                node = node.value
            elif isinstance(node, ast.Subscript):
                node = node.value
            elif isinstance(node, ast.Call):
                node = node.func
            elif isinstance(node, ast.Name):
                return node.id, first
            else:
                return None, None

    def first_attr_of_self(self, node):
        """For a chain rooted at `self`, the attribute directly on self."""
        cur = node
        attr = None
        while True:
            if isinstance(cur, ast.Attribute):
                if isinstance(cur.value, ast.Name) and cur.value.id == 'self':
                    return cur.attr
                cur = cur.value
            elif isinstance(cur, ast.Subscript):
                cur = cur.value
            elif isinstance(cur, ast.Call):
                cur = cur.func
            else:
                return attr

    # ---- expressions
    def expr(self, node):
        if node is None:
            return
        if isinstance(node, (ast.Lambda, ast.Yield, ast.YieldFrom, ast.Await, ast.NamedExpr)):
            self.fail(node, 'unsupported expression')
        if isinstance(node, ast.Call):
            self.call(node)
            return
        if isinstance(node, (ast.GeneratorExp, ast.ListComp, ast.SetComp)):
            added = set()
            for comp in node.generators:
                self.expr(comp.iter)
                for c in comp.ifs:
                    self.expr(c)
                added |= self._comprehension_libfuncs(comp) - self.libfuncs
            self.libfuncs |= added
            self.expr(node.elt)
            self.libfuncs -= added
            return
        for child in ast.iter_child_nodes(node):
            if isinstance(child, ast.expr):
                self.expr(child)
            elif isinstance(child, ast.comprehension):
                self.expr(child.iter)
                for c in child.ifs:
                    self.expr(c)
            elif isinstance(child, (ast.expr_context, ast.operator, ast.unaryop, ast.cmpop, ast.boolop)):
                pass
            elif isinstance(child, ast.keyword):
                self.expr(child.value)
            elif isinstance(child, ast.FormattedValue):
                self.expr(child.value)
            else:
                self.fail(child, 'unsupported expression child')

    def call(self, node):
        f = node.func
        # receiver first, then the arguments, then the call itself
        if isinstance(f, ast.Attribute):
            self.expr(f.value)
        elif not isinstance(f, ast.Name):
            self.fail(node, 'call of a computed function')
        for a in node.args:
            if isinstance(a, ast.Starred):
                self.expr(a.value)
            else:
                self.expr(a)
        for k in node.keywords:
            self.expr(k.value)
        if isinstance(f, ast.Name):
            if f.id == 'dict' and len(node.args) == 1 and isinstance(node.args[0], ast.Attribute) and node.args[0].attr == '__dict__' \
                    and isinstance(node.args[0].value, ast.Name) and node.args[0].value.id == 'self':
                self.events.append(('GSnapshot', None))
            elif f.id in EVENT_NAME_CALLS:
                self.events.append(('GCall', f.id))
            elif f.id in SAFE_NAME_CALLS or f.id in self.params or f.id in self.libfuncs:     # a parameter called as a function: dtype conversion in kernels
                pass
            else:
                self.fail(node, f'call of the unknown name {f.id}')
            return
        # attribute calls
        v = f.value
        if isinstance(v, ast.Name) and v.id == 'self':
            self.events.append(('GCall', f.attr))
            return
        if isinstance(v, ast.Call) and isinstance(v.func, ast.Name) and v.func.id == 'super':
            self.events.append(('GCall', 'super.' + f.attr))
            return
        if f.attr == 'astype':
            self.events.append(('GConv', v.id if isinstance(v, ast.Name) else '?'))
            return
        rootname, _ = self.root(v)
        if rootname in MODULE_ALIASES:
            # _np.asarray(<parameter>): the argument is replaced by its plain-array content (ndarray subclasses reduce differently)
            if f.attr == 'asarray' and len(node.args) == 1 and isinstance(node.args[0], ast.Name) and node.args[0].id in self.params:
                self.events.append(('GCall', 'asarray'))
            return
        if f.attr in MUTATORS:
            if rootname == 'self':
                a = self.first_attr_of_self(v)
                if a == '__dict__' and f.attr in ('clear', 'update'):
                    self.events.append(('GCall', '__dict__.' + f.attr))
                else:
                    self.events.append(('GStore', a))
            elif rootname in self.params:
                self.events.append(('GParamStore', rootname))
            # mutators on local values: no event
        # other methods of values (sum, reshape, swapaxes, get, keys ...): no event

    # ---- assignment targets
    def target(self, t, aug=False):
        if isinstance(t, ast.Name):
            if aug and t.id in self.params:
                self.events.append(('GParamStore', t.id))
            elif not aug:
                self.params.discard(t.id)          # rebinding a parameter name: from here on it is a local
            return
        if isinstance(t, (ast.Tuple, ast.List)):
            if aug:
                self.fail(t, 'augmented tuple target')
            for e in t.elts:
                self.target(e)
            return
        if isinstance(t, ast.Attribute) and isinstance(t.value, ast.Name) and t.value.id == 'self':
            self.events.append(('GAug' if aug else 'GBind', t.attr))
            return
        if isinstance(t, (ast.Attribute, ast.Subscript)):
            if isinstance(t, ast.Subscript):
                self.expr(t.slice)
            rootname, _ = self.root(t)
            if rootname == 'self':
                self.events.append(('GStore', self.first_attr_of_self(t)))
            elif rootname in self.params:
                self.events.append(('GParamStore', rootname))
            elif rootname is None:
                self.fail(t, 'store through a computed object')
            return
        self.fail(t, 'unsupported assignment target')

    # ---- statements
    def block(self, stmts):
        for s in stmts:
            self.stmt(s)

    def stmt(self, s):
        if isinstance(s, ast.Expr):
            if isinstance(s.value, ast.Constant) and isinstance(s.value.value, str):
                return
            self.expr(s.value)
        elif isinstance(s, ast.Assign):
            self.expr(s.value)
            for t in s.targets:
                self.target(t)
        elif isinstance(s, ast.AugAssign):
            self.expr(s.value)
            self.target(s.target, aug=True)
        elif isinstance(s, ast.If) or isinstance(s, ast.While):
            self.expr(s.test)
            self.block(s.body)
            self.block(s.orelse)
        elif isinstance(s, ast.For):
            self.expr(s.iter)
            self.target(s.target)
            self.block(s.body)
            self.block(s.orelse)
        elif isinstance(s, ast.Try):
            self.block(s.body)
            for h in s.handlers:
                self.block(h.body)
            self.block(s.orelse)
            self.block(s.finalbody)
        elif isinstance(s, ast.Raise):
            if isinstance(s.exc, ast.Call):            # the exception constructor itself is not an event; its arguments are walked
                if isinstance(s.exc.func, ast.Attribute):
                    self.expr(s.exc.func.value)
                for a in s.exc.args:
                    self.expr(a)
                for k in s.exc.keywords:
                    self.expr(k.value)
            else:
                self.expr(s.exc)
            self.expr(s.cause)
            self.events.append(('GRaise', None))
        elif isinstance(s, ast.Return):
            self.expr(s.value)
        elif isinstance(s, (ast.Pass, ast.Continue, ast.Break)):
            pass
        else:
            self.fail(s, 'unsupported statement')


def _find_method(tree, cls, meth, key):
    for n in tree.body:
        if isinstance(n, ast.ClassDef) and n.name == cls:
            found = [m for m in n.body if isinstance(m, ast.FunctionDef) and m.name == meth]
            if len(found) != 1:
                raise C.TranslateError(f'{key}: expected exactly one definition, found {len(found)}')
            return found[0], [m.name for m in n.body if isinstance(m, ast.FunctionDef)]
    raise C.TranslateError(f'{key}: class not found')


def translate(repo):
    trees = {}
    table = []
    defined = {}
    for rel, cls, meth in SCOPE:
        if rel not in trees:
            trees[rel] = ast.parse((repo / 'scared' / rel).read_text())
        key = f'{cls}.{meth}'
        fn, names = _find_method(trees[rel], cls, meth, key)
        defined[cls] = names
        w = _Walker(fn, key)
        w.block(fn.body)
        table.append((key, w.events))
    return {'order': table, 'defined': defined}


def _lookup(scared, name):
    obj = scared
    for part in name.split('.'):
        obj = getattr(obj, part)
    return obj


def self_check(repo, out):
    """Resolve the hooks on the live classes; every resolved method of a family must be one whose body was tabulated."""
    import scared
    keys = {k for k, _ in out['order']}
    res = []
    for fam, classes in FAMILIES:
        for cname in classes:
            cls = _lookup(scared, cname)
            row = []
            for h in HOOKS:
                m = getattr(cls, h, None)
                if m is None:
                    continue
                q = m.__qualname__
                if h in ('process', 'run') and not hasattr(cls, 'process'):
                    continue
                row.append((h, q))
                if q not in keys and q not in ('DistinguisherMixin._initialize', 'DistinguisherMixin._update'):
                    raise C.TranslateError(f'{cname}.{h} resolves to {q}, whose body is not tabulated (new override?)')
            res.append((fam, cname.split('.')[-1], row))
    # the classes of SCOPE must not have gained an update-side method that is not tabulated
    watched = {'update', '_initialize', '_initialize_accumulators', '_check', '_update', '_accumulate', '_accumulate_core',
               '_accumulate_core_1', '_accumulate_core_2'}
    for cls, names in out['defined'].items():
        if cls == '_BaseAnalysis':
            continue
        for n in names:
            if n in watched and f'{cls}.{n}' not in keys and f'{cls}.{n}' not in ('DistinguisherMixin._initialize', 'DistinguisherMixin._update'):
                raise C.TranslateError(f'{cls}.{n} is defined in the source but not tabulated')
    out['resolution'] = res


def _ev(e):
    k, a = e
    if a is None:
        return k
    return f'{k} "{a}"'


def emit(out):
    L = []
    L.append('(* GENERATED from /repo/scared/distinguishers/*.py and analysis/base.py by tools/translate/tr_update.py -- do not edit *)')
    L.append('From Coq Require Import String List. Import ListNotations. Open Scope string_scope.')
    L.append('Inductive gev := GRaise | GBind (a : string) | GAug (a : string) | GStore (a : string) | GParamStore (p : string)')
    L.append('  | GCall (m : string) | GConv (x : string) | GSnapshot.')
    L.append('(* method -> events in source order *)')
    L.append('Definition source_order : list (string * list gev) := [')
    L.append(';\n'.join(f'  ("{k}", {C.coq_list(evs, _ev)})' for k, evs in out['order']))
    L.append('].')
    L.append('(* family, concrete class, hook -> defining method as resolved by the live class *)')
    L.append('Definition source_resolution : list (string * string * list (string * string)) := [')
    L.append(';\n'.join('  ("%s", "%s", %s)' % (fam, cn, C.coq_list(row, lambda p: f'("{p[0]}", "{p[1]}")')) for fam, cn, row in out['resolution']))
    L.append('].')
    return '\n'.join(L) + '\n'
