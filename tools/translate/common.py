"""Shared helpers for the translators and the case writers: Coq literal printers."""


class TranslateError(Exception):
    """Raised (fail-closed) when the source does not have one of the whitelisted shapes."""


def coq_n(v):
    v = int(v)
    if v < 0:
        raise TranslateError(f'negative value {v} for N')
    return f'{v}%N'


def coq_z(v):
    v = int(v)
    return f'({v})%Z' if v < 0 else f'{v}%Z'


def coq_nat(v):
    v = int(v)
    if v < 0 or v > 5000:
        raise TranslateError(f'nat literal out of range: {v}')
    return f'{v}%nat'


def coq_bool(b):
    return 'true' if b else 'false'


def coq_list(xs, f=str):
    return '[' + '; '.join(f(x) for x in xs) + ']'


def coq_list2(xss, f=str):
    return coq_list(xss, lambda xs: coq_list(xs, f))


def coq_option(v, f=str):
    return 'None' if v is None else f'(Some {f(v)})'


def coq_pair(a, b):
    return f'({a}, {b})'
