"""Fail-closed symbolic execution of the five bit-sliced DES permutations of /repo/scared/des/base.py -> Generated/DesBits.v.

`initial_permutation final_permutation expansive_permutation permutation_p inv_permutation_p` are written as mask / shift / add
statements on uint8 columns.  The body of each is executed symbolically from its `ast` (loops over `_np.arange(k)` / `range(k)`
unrolled, scalar index arithmetic evaluated, `out[:, k] <<= c`, `out[:, k] += e`, `out[:, k] = e` tracked per output column) and
one deep-embedded expression (`Lib/Bexpr.v`: bexpr) per output column is emitted.  Every operation of `bexpr` wraps modulo 256,
which is numpy's meaning for uint8 columns with constants in 0..255 and, for the int64 accumulator of inv_permutation_p, the
meaning after the final `.astype(uint8)` (only `+=` is applied to the accumulator).  Any other statement or expression shape
raises TranslateError.  self_check evaluates the emitted expressions on every single-byte input and on random inputs and
compares with the live functions imported from the same tree.
"""
import ast

from . import common as C
from .tr_des import func, strip_doc, const_int

OUTFILE = 'DesBits.v'

FUNCS = [('initial_permutation', 'gen_ip'), ('final_permutation', 'gen_fp'), ('expansive_permutation', 'gen_e'),
         ('permutation_p', 'gen_p'), ('inv_permutation_p', 'gen_invp')]


def _dump(n):
    return ast.dump(n)[:160]


class Sym:
    """Symbolic executor for one function."""

    def __init__(self, fn):
        self.fn = fn
        self.name = fn.name
        if [a.arg for a in fn.args.args] != ['state'] or fn.args.defaults or fn.args.vararg or fn.args.kwarg or fn.args.kwonlyargs:
            raise C.TranslateError(f'{self.name}: unexpected signature')
        self.nin = None          # declared by _is_bytes_of_len
        self.data_cols = None
        self.nout = None
        self.acc = None          # 'uint8' | 'int64'
        self.cols = None         # per output column: expression or None (unassigned, _np.empty)
        self.env = {}            # scalar variables
        self.returned = False
        self.astype = False

    def fail(self, msg):
        raise C.TranslateError(f'{self.name}: {msg}')

    # ---- scalar (index) expressions
    def scalar(self, n):
        if isinstance(n, ast.Constant) and isinstance(n.value, int) and not isinstance(n.value, bool):
            return n.value
        if isinstance(n, ast.Name) and n.id in self.env:
            return self.env[n.id]
        if isinstance(n, ast.BinOp):
            a, b = self.scalar(n.left), self.scalar(n.right)
            if isinstance(n.op, ast.Add):
                return a + b
            if isinstance(n.op, ast.Sub):
                return a - b
            if isinstance(n.op, ast.Mult):
                return a * b
            if isinstance(n.op, ast.Mod) and b != 0:
                return a % b
            if isinstance(n.op, ast.FloorDiv) and b != 0:
                return a // b
            if isinstance(n.op, ast.Div) and b != 0:
                return a / b
            self.fail(f'scalar operator {_dump(n.op)}')
        if isinstance(n, ast.Call) and isinstance(n.func, ast.Name) and n.func.id == 'int' and len(n.args) == 1 and not n.keywords:
            return int(self.scalar(n.args[0]))
        self.fail(f'scalar expression {_dump(n)}')

    def index(self, n, bound):
        v = self.scalar(n)
        if not isinstance(v, int) or not (0 <= v < bound):
            self.fail(f'column index {v!r} outside [0, {bound})')
        return v

    def column(self, n, arr):
        """arr[:, <scalar>] -> column number"""
        ok = (isinstance(n, ast.Subscript) and isinstance(n.value, ast.Name) and n.value.id == arr
              and isinstance(n.slice, ast.Tuple) and len(n.slice.elts) == 2
              and isinstance(n.slice.elts[0], ast.Slice) and n.slice.elts[0].lower is None and n.slice.elts[0].upper is None
              and n.slice.elts[0].step is None)
        if not ok:
            return None
        bound = self.data_cols if arr == 'data' else self.nout
        if bound is None:
            self.fail(f'{arr} used before it is defined')
        return self.index(n.slice.elts[1], bound)

    # ---- array expressions over the columns of data
    def byte_const(self, n, hi):
        v = const_int(n)
        if not (0 <= v <= hi):
            self.fail(f'constant {v} outside [0, {hi}]')
        return v

    def expr(self, n):
        j = self.column(n, 'data') if isinstance(n, ast.Subscript) else None
        if j is not None:
            return ('In', j)
        if isinstance(n, ast.BinOp):
            if isinstance(n.op, ast.RShift):
                e = self.expr(n.left)
                if self.has_nz(e):
                    self.fail('>> applied to a comparison')
                return ('Shr', e, self.byte_const(n.right, 7))
            if isinstance(n.op, ast.LShift):
                return ('Shl', self.expr(n.left), self.byte_const(n.right, 7))
            if isinstance(n.op, ast.BitAnd):
                e = self.expr(n.left)
                if self.has_nz(e):
                    self.fail('& applied to a comparison')
                return ('And', e, self.byte_const(n.right, 255))
            self.fail(f'array operator {_dump(n.op)}')
        if isinstance(n, ast.Compare):
            if (len(n.ops) == 1 and isinstance(n.ops[0], ast.NotEq) and len(n.comparators) == 1
                    and isinstance(n.comparators[0], ast.Constant) and n.comparators[0].value == 0
                    and not isinstance(n.comparators[0].value, bool)):
                return ('Nz', self.expr(n.left))
            self.fail(f'comparison {_dump(n)}')
        self.fail(f'array expression {_dump(n)}')

    @staticmethod
    def has_nz(e):
        if e[0] == 'Nz':
            return True
        if e[0] in ('Shl', 'Shr', 'And'):
            return Sym.has_nz(e[1])
        if e[0] == 'Add':
            return Sym.has_nz(e[1]) or Sym.has_nz(e[2])
        return False

    # ---- statements
    def is_call(self, n, text):
        return ast.dump(n) == ast.dump(ast.parse(text, mode='eval').body)

    def alloc(self, v):
        """_np.zeros((data.shape[0], n), dtype=T) / _np.empty(...)"""
        ok = (isinstance(v, ast.Call) and isinstance(v.func, ast.Attribute) and isinstance(v.func.value, ast.Name)
              and v.func.value.id == '_np' and v.func.attr in ('zeros', 'empty') and len(v.args) == 1
              and isinstance(v.args[0], ast.Tuple) and len(v.args[0].elts) == 2
              and self.is_call(v.args[0].elts[0], 'data.shape[0]')
              and len(v.keywords) == 1 and v.keywords[0].arg == 'dtype')
        if not ok:
            self.fail(f'unexpected allocation {_dump(v)}')
        dt = v.keywords[0].value
        if isinstance(dt, ast.Attribute) and isinstance(dt.value, ast.Name) and dt.value.id == '_np' and dt.attr in ('uint8', 'int64'):
            acc = dt.attr
        elif isinstance(dt, ast.Constant) and dt.value in ('uint8', 'int64'):
            acc = dt.value
        else:
            self.fail(f'unexpected dtype {_dump(dt)}')
        n = const_int(v.args[0].elts[1])
        if not (1 <= n <= 8):
            self.fail(f'{n} output columns')
        return v.func.attr, n, acc

    def run(self, body):
        for st in body:
            if self.returned:
                self.fail('statement after return')
            self.stmt(st)

    def stmt(self, st):
        if isinstance(st, ast.Expr):
            # _is_bytes_of_len(state) / _is_bytes_of_len(state, length=[k])
            v = st.value
            ok = (isinstance(v, ast.Call) and isinstance(v.func, ast.Name) and v.func.id == '_is_bytes_of_len'
                  and len(v.args) == 1 and isinstance(v.args[0], ast.Name) and v.args[0].id == 'state')
            if not ok or self.nin is not None:
                self.fail(f'unexpected expression statement {_dump(v)}')
            if not v.keywords:
                self.nin = 8
            elif (len(v.keywords) == 1 and v.keywords[0].arg == 'length' and isinstance(v.keywords[0].value, ast.List)
                  and len(v.keywords[0].value.elts) == 1):
                self.nin = const_int(v.keywords[0].value.elts[0])
            else:
                self.fail('unexpected _is_bytes_of_len arguments')
            return
        if isinstance(st, ast.Assign):
            if len(st.targets) != 1:
                self.fail('multiple assignment targets')
            t = st.targets[0]
            if isinstance(t, ast.Name):
                if t.id == 'dimensions':
                    if not self.is_call(st.value, 'state.shape'):
                        self.fail('dimensions is not state.shape')
                    return
                if t.id == 'data':
                    v = st.value
                    ok = (isinstance(v, ast.Call) and self.is_call(v.func, 'state.reshape') and len(v.args) == 1 and not v.keywords
                          and isinstance(v.args[0], ast.Tuple) and len(v.args[0].elts) == 2
                          and self.is_call(v.args[0].elts[0], '-1'))
                    if not ok or self.data_cols is not None:
                        self.fail('data is not state.reshape((-1, k))')
                    self.data_cols = const_int(v.args[0].elts[1])
                    if self.nin is None or self.data_cols != self.nin:
                        self.fail(f'data has {self.data_cols} columns but the accepted length is {self.nin}')
                    return
                if t.id == 'out':
                    if self.cols is not None or self.data_cols is None:
                        self.fail('out allocated twice or before data')
                    kind, n, acc = self.alloc(st.value)
                    self.nout, self.acc = n, acc
                    self.cols = [('Const', 0) if kind == 'zeros' else None for _ in range(n)]
                    return
                if t.id in ('state', 'dimensions', 'data', 'out', '_np'):
                    self.fail(f'assignment to {t.id}')
                self.env[t.id] = self.scalar(st.value)
                return
            k = self.column(t, 'out')
            if k is None:
                self.fail(f'unexpected assignment target {_dump(t)}')
            if self.acc != 'uint8':
                self.fail('plain column assignment into a non-uint8 accumulator')
            self.cols[k] = self.expr(st.value)
            return
        if isinstance(st, ast.AugAssign):
            k = self.column(st.target, 'out')
            if k is None:
                self.fail(f'unexpected augmented target {_dump(st.target)}')
            if self.cols[k] is None:
                self.fail(f'out[:, {k}] updated before it is assigned (allocated with empty)')
            if isinstance(st.op, ast.LShift):
                if self.acc != 'uint8':
                    self.fail('<<= on a non-uint8 accumulator')
                self.cols[k] = ('Shl', self.cols[k], self.byte_const(st.value, 7))
            elif isinstance(st.op, ast.Add):
                self.cols[k] = ('Add', self.cols[k], self.expr(st.value))
            else:
                self.fail(f'augmented operator {_dump(st.op)}')
            return
        if isinstance(st, ast.For):
            it = st.iter
            ok = (isinstance(st.target, ast.Name) and not st.orelse and isinstance(it, ast.Call) and len(it.args) == 1 and not it.keywords
                  and ((isinstance(it.func, ast.Name) and it.func.id == 'range')
                       or self.is_call(it.func, '_np.arange')))
            if not ok:
                self.fail(f'unexpected loop header {_dump(it)}')
            n = const_int(it.args[0])
            if not (0 <= n <= 64):
                self.fail(f'loop count {n}')
            if st.target.id in ('state', 'dimensions', 'data', 'out', '_np'):
                self.fail('loop variable shadows an array')
            for v in range(n):
                self.env[st.target.id] = v
                self.run(st.body)
            return
        if isinstance(st, ast.Return):
            v = st.value
            if isinstance(v, ast.Call) and isinstance(v.func, ast.Attribute) and v.func.attr == 'astype':
                if not (len(v.args) == 1 and not v.keywords and self.is_call(v.args[0], '_np.uint8')):
                    self.fail('astype target is not _np.uint8')
                self.astype = True
                v = v.func.value
            if not (isinstance(v, ast.Call) and self.is_call(v.func, 'out.reshape') and len(v.args) == 1 and not v.keywords):
                self.fail(f'unexpected return {_dump(st.value)}')
            a = v.args[0]
            if self.is_call(a, 'dimensions'):
                if self.nout != self.nin:
                    self.fail('returns out.reshape(dimensions) with a different number of columns')
            elif (isinstance(a, ast.BinOp) and isinstance(a.op, ast.Add) and self.is_call(a.left, 'dimensions[:-1]')
                  and isinstance(a.right, ast.Tuple) and len(a.right.elts) == 1 and const_int(a.right.elts[0]) == self.nout):
                pass
            else:
                self.fail(f'unexpected reshape argument {_dump(a)}')
            if self.acc != 'uint8' and not self.astype:
                self.fail('non-uint8 accumulator returned without astype(uint8)')
            self.returned = True
            return
        self.fail(f'unexpected statement {_dump(st)}')

    def result(self):
        self.run(strip_doc(self.fn.body))
        if not self.returned or self.cols is None or any(c is None for c in self.cols):
            self.fail('no return, or an output column is never assigned')
        return {'nin': self.nin, 'nout': self.nout, 'exprs': self.cols}


def translate(repo):
    src = (repo / 'scared' / 'des' / 'base.py').read_text()
    tree = ast.parse(src)
    return {name: Sym(func(tree.body, name)).result() for name, _ in FUNCS}


def ev(e, d):
    """Python evaluation with exactly the meaning of Bexpr.eval."""
    t = e[0]
    if t == 'In':
        return d[e[1]]
    if t == 'Const':
        return e[1] % 256
    if t == 'Shl':
        return (ev(e[1], d) << e[2]) % 256
    if t == 'Shr':
        return (ev(e[1], d) >> e[2]) % 256
    if t == 'And':
        return (ev(e[1], d) & e[2]) % 256
    if t == 'Add':
        return (ev(e[1], d) + ev(e[2], d)) % 256
    if t == 'Nz':
        return 1 if ev(e[1], d) != 0 else 0
    raise C.TranslateError(f'bad expression tag {t}')


def self_check(repo, out):
    import random
    import numpy as np
    import scared.des.base as B
    if not str(B.__file__).startswith(str(repo)):
        raise C.TranslateError(f'self-check: scared.des.base was imported from {B.__file__}, not from {repo}')
    rng = random.Random(46)
    for name, _ in FUNCS:
        r = out[name]
        nin = r['nin']
        inputs = [[0] * nin, [255] * nin]
        for j in range(nin):
            for x in range(256):
                d = [0] * nin
                d[j] = x
                inputs.append(d)
        inputs += [[rng.randrange(256) for _ in range(nin)] for _ in range(200)]
        live = getattr(B, name)(np.array(inputs, dtype='uint8'))
        if live.dtype != np.uint8 or live.shape != (len(inputs), r['nout']):
            raise C.TranslateError(f'self-check: {name} returns dtype {live.dtype} shape {live.shape}')
        live = live.tolist()
        for d, o in zip(inputs, live):
            mine = [ev(e, d) for e in r['exprs']]
            if mine != o:
                raise C.TranslateError(f'self-check: symbolic execution of {name} disagrees with the live function on {d}: {mine} vs {o}')


def coq_expr(e):
    t = e[0]
    if t == 'In':
        return f'(BIn {e[1]})'
    if t == 'Const':
        return f'(BConst {e[1]})'
    if t in ('Shl', 'Shr', 'And'):
        return '(B%s %s %d)' % (t, coq_expr(e[1]), e[2])
    if t == 'Add':
        return f'(BAdd {coq_expr(e[1])} {coq_expr(e[2])})'
    if t == 'Nz':
        return f'(BNz {coq_expr(e[1])})'
    raise C.TranslateError(f'bad expression tag {t}')


def emit(out):
    L = []
    L.append('(* GENERATED from /repo/scared/des/base.py by tools/translate/tr_desbits.py (symbolic execution) -- do not edit *)')
    L.append('From Coq Require Import NArith List. Import ListNotations.')
    L.append('From ScaredV Require Import Lib.Bexpr.')
    L.append('Open Scope N_scope.')
    for name, gen in FUNCS:
        r = out[name]
        L.append(f'(* {name}: {r["nin"]} input columns, one expression per output column ({r["nout"]}) *)')
        L.append(f'Definition {gen}_nin : nat := {r["nin"]}%nat.')
        L.append(f'Definition {gen} : list bexpr := [\n  ' + ';\n  '.join(coq_expr(e) for e in r['exprs']) + '\n].')
    return '\n'.join(L) + '\n'
