"""C08 — convergence traces are the attack scores on successive prefixes of the traces.

C-tie: the real scared.<X>Attack(convergence_step=k) is run 1-3 times on read_ths_from_ram sets under set_batch_size(bs).
A harness subclass overrides the public compute_results() and logs (processed_traces, number of columns so far) at every
call; inside Coq (c08_check) that log, the number of columns after every run() and the marks left in _batches_processed
are compared exactly with the state machine of Model/Analysis.v; every column of convergence_traces is compared with
the .scores of a FRESH attack (no convergence step, default batch size) run by the real code on exactly the traces
processed up to that point; the last column with the final .scores; final .results/.scores with those of the same
attack without convergence_step.
"""
import os
import random
import warnings

os.environ.setdefault('NUMBA_NUM_THREADS', '1')   # see props/C02.py: parallel numba kernels on tiny sets only contend

import numpy as np  # noqa: E402

from lib.kinds import Kind  # noqa: E402
from lib import core  # noqa: E402
from translate import common as C  # noqa: E402
from props import C02 as base  # noqa: E402

ID = 'C08'
TRANSLATORS = []
MODEL_TARGETS = ['theories/Model/Models.vo', 'theories/Model/Container.vo', 'theories/Model/Analysis.vo']
PROP_TARGET = 'theories/Props/C08.vo'
EXHAUSTIVE = True
TRUSTED_BASE = [
    'Coq 8.16.1 kernel incl. vm_compute (no native_compute)',
    'Print Assumptions: every theorem of Props/C08.v is closed under the global context (no axioms)',
    'correspondence harness tools/props/C08.py: the logging subclass (public compute_results()), float.hex export, the cache of '
    'prefix scores (one fresh attack per (attack configuration, data set, prefix length))',
    'harness: scared.distinguishers.partitioned._define_lut_func is memoised per class set',
    'modelled, not verified: the Python control flow of run()/_batch_loop_compute()/_final_compute() (hand-written state machine, held '
    'by the correspondence check); that each real distinguisher is an additive accumulator is property C01',
]
ASSUMPTIONS = [
    'containers are non-empty (an empty Container raises IndexError in trace_size; in the bookkeeping alone an empty run after a '
    'Remainder column would duplicate it: Props/C08.v empty_run_duplicates_refuted)',
    'convergence_step >= 1 (the setter refuses the rest); int(step / (step // base)) equals the integer quotient (sizes < 2^52)',
    'columns are compared with fresh prefix attacks on inputs whose float sums are exact (small integers), tolerance 64 u',
]

HDR = 'From ScaredV Require Import Model.Models Model.Container Model.Analysis.'
ATTACKS = ['CPA', 'DPA', 'ANOVA', 'NICV', 'SNR', 'MIA']
L = 3          # samples per trace
TMAX = 96      # traces of a master data set


def master(data_seed, cls):
    """A deterministic master data set: every run of a case is a consecutive segment of it."""
    rng = random.Random(f'C08-data-{data_seed}')
    pt = [[rng.randint(0, 15)] for _ in range(TMAX)]
    samples = [[(bin(p[0]).count('1') + j + rng.choice([0, 0, 1, 2])) % 8 for j in range(L)] for p in pt]
    return samples, pt


def config(case):
    """The C02-style description of the analysis of a case (selection function, model, class set, bins)."""
    cls = case['cls']
    c = {'cls': cls, 'guesses': [0, 5, 10][:case.get('G', 3)], 'disc': case['disc'], 'prec': case['prec'], 'partitions': None,
         'bin_edges': None}
    c['model'] = ['monobit', 1] if cls == 'DPA' else ['hw']
    if cls in base.PARTITIONED:
        c['partitions'] = list(range(5))
    if cls == 'MIA':
        c['bin_edges'] = [0, 2, 4, 6, 8]
    return c


def ths_of(samples, pt, width=L, dtype='uint8', poison=None):
    import estraces
    if poison is not None:      # every sample of the poisoned trace is the sentinel the harness preprocess refuses
        samples = [list(r) for r in samples]
        samples[poison] = [base.SENTINEL_SAMPLE] * L
    return estraces.read_ths_from_ram(samples=np.array(samples, dtype=dtype).reshape(len(samples), L)[:, :width],
                                      plaintext=np.array(pt, dtype='uint8').reshape(len(pt), 1))


class ConvKind(Kind):
    name = 'convergence'
    header = HDR
    case_type = 'c08_case'
    check_fn = 'c08_check'         # property level: points increasing / a step apart / last = total, columns = prefix scores, transparency
    corr_fn = 'c08_corr'           # correspondence level: compute_results() log, column positions and count, _batches_processed marks
    explain_fn = 'c08_explain'
    shard = 120
    rule = ('scared.<X>Attack(convergence_step=k).run(Container) 1-3 times under set_batch_size(bs): exhaustive small scope '
            '(quick: boundary block + seed-sampled triples of N<=30 x bs<=12 u {40} x step<=32 u {50} for CPA, every attack class on a smaller sub-grid; thorough: the '
            'full grid for CPA, a larger sub-grid for every class), random sequences of 1-3 runs with different batch sizes, histories with a run() that raises on a later batch (between complete '
            'runs / as first run) for every attack class; step smaller / '
            'equal / larger than bs, larger than N, not dividing N; check_fn (property level): points strictly increasing, a step apart except a final remainder, last point = total, '
            'every column = fresh attack on the prefix, last column = final scores, results unchanged; corr_fn (correspondence level): '
            'compute_results() calls, column positions/count, marks = the state machine; non-trivial = at least two columns')

    def __init__(self):
        self._prefix = {}

    def gen(self, rng, tier):
        thorough = tier != 'quick'

        def mk(cls, step, runs, seed=0):
            # quick: 2 guesses x 2 samples (small Coq literals: elaborating them is what the coqc shards spend their time on)
            return {'cls': cls, 'step': step, 'runs': [list(r) for r in runs], 'data_seed': seed,
                    'G': 3 if thorough else 2, 'W': L if thorough else 2,
                    'disc': rng.choice(list(base.DISCS)), 'prec': (rng.choice(['float32', 'float64']) if cls in ('CPA', 'DPA') else
                             rng.choice(['float64', 'float64', 'uint32']) if cls == 'MIA' else 'float64')}
        if thorough:
            for n in range(1, 31):
                for bs in list(range(1, 13)) + [40]:
                    for st in list(range(1, 33)) + [50]:
                        yield mk('CPA', st, [(n, bs)])
        else:
            # boundary block (deterministic): for each batch size, N < bs, N = bs, N = bs + 1 and 2 bs + 1 (N mod bs = 1),
            # N = 3 bs, N = 29, 30; steps below / equal / above bs, dividing / not dividing N, equal to and above N
            seen = set()
            for bs in (1, 2, 3, 4, 5, 7, 12, 40):
                for n in sorted({1, bs - 1, bs, bs + 1, 2 * bs + 1, 3 * bs, 29, 30}):
                    if not 1 <= n <= 30:
                        continue
                    for st in sorted({1, bs - 1, bs, bs + 1, 2 * bs, n - 1, n, n + 1, 7, 50}):
                        if 1 <= st <= 50 and (n, bs, st) not in seen:
                            seen.add((n, bs, st))
                            yield mk('CPA', st, [(n, bs)])
            # derived batch size NOT dividing the step, N a multiple of the step: the last batch does not close a step although
            # processed_traces % step == 0 (step 7, bs 3, N 14 / 21 / 28: points 9, 18, 27 then a Remainder)
            for k, (st, bs) in enumerate(((7, 3), (5, 2), (7, 2), (9, 2), (10, 3), (11, 3), (13, 5), (9, 4))):
                for n in range(2 * st, 31, st):
                    if (n, bs, st) not in seen:
                        seen.add((n, bs, st))
                        yield mk('CPA', st, [(n, bs)])
                yield mk(ATTACKS[1 + k % 5], st, [(2 * st, bs)], seed=1)
            # a sample of the full grid, drawn from the seed
            for _ in range(330):
                yield mk('CPA', rng.choice(list(range(1, 33)) + [50]), [(rng.randint(1, 30), rng.choice(list(range(1, 13)) + [40]))])
        # every attack class on a smaller sub-grid (step <, =, > bs; step > N; step not dividing N; N mod bs = 1)
        if thorough:
            ns2, bss2, steps2 = [1, 2, 4, 7, 9, 13, 20], [1, 2, 3, 5, 8, 40], [1, 2, 3, 4, 5, 8, 13, 50]
        else:
            ns2, bss2, steps2 = [1, 4, 7, 13], [1, 3, 5, 40], [1, 3, 5, 50]
        for cls in ATTACKS[1:]:
            for n in ns2:
                for bs in bss2:
                    for st in steps2:
                        yield mk(cls, st, [(n, bs)], seed=1)
            if not thorough:
                for _ in range(12):
                    yield mk(cls, rng.choice([2, 4, 6, 8, 9, 16, 25]), [(rng.randint(1, 30), rng.choice([1, 2, 4, 7, 12]))], seed=1)
        # 1-3 successive runs, batch size changing between runs
        nseq = 220 if not thorough else 4000
        for _ in range(nseq):
            cls = rng.choice(ATTACKS)
            k = rng.choice([2, 2, 3])
            runs = [(rng.randint(1, 30), rng.choice([1, 2, 3, 4, 5, 7, 12, 40])) for _ in range(k)]
            c = mk(cls, rng.choice([1, 2, 3, 4, 5, 6, 7, 9, 10, 13, 16, 25, 32, 50]), runs, seed=rng.randint(0, 3))
            if rng.random() < 0.25:        # one of the runs (not the last one) raises on the batch holding a poisoned trace
                i = rng.randrange(k - 1)
                if runs[i][0] >= 2:
                    c['fails'] = [None] * k
                    c['fails'][i] = rng.randint(1, runs[i][0] - 1)
            yield c
        # histories A, B raising on a later batch, C (and B as the first run), for every attack class
        nfail = 10 if not thorough else 60
        for cls in ATTACKS:
            for j in range(nfail):
                st = rng.choice([1, 2, 3, 4, 5, 7, 10])
                bs = rng.choice([1, 2, 3, 4, 5])
                eff = st if bs >= st else st // (st // bs)
                nb = rng.randint(3 * eff + 1, min(30, 5 * eff + 4))
                first = j % 4 == 3
                runs = ([] if first else [(rng.randint(1, 12), rng.choice([bs, bs, 2, 7]))]) + [(nb, bs)] + [(rng.randint(1, 12), rng.choice([bs, 3]))]
                if j % 5 == 4:
                    runs.append((rng.randint(1, 8), bs))
                c = mk(cls, st, runs, seed=rng.randint(0, 3))
                c['fails'] = [None] * len(runs)
                c['fails'][0 if first else 1] = rng.randint(max(1, 2 * eff), nb - 1)
                yield c

    # ---------------------------------------------------------------------------------- oracle on the code: fresh prefix attacks
    def prefix_scores(self, case, p, fed_idx=None):
        """Scores of a FRESH attack on the first p rows fed (fed_idx: their indices in the master set; None = 0 .. p-1)."""
        import scared
        cfg = config(case)
        idx = list(range(p)) if fed_idx is None else list(fed_idx[:p])
        tag = p if idx == list(range(p)) else tuple(idx)
        key = (case['cls'], case['disc'], case['prec'], case['data_seed'], case.get('G', 3), case.get('W', L), tag)
        if key not in self._prefix:
            samples, pt = master(case['data_seed'], case['cls'])
            scared.set_batch_size(None)
            a = base.analysis_class(cfg)(**base.analysis_kwargs(cfg))
            a.run(scared.Container(ths_of([samples[i] for i in idx], [pt[i] for i in idx], case.get('W', L))))
            self._prefix[key] = base.flt(a.scores)
        return self._prefix[key]

    def run(self, case):
        import scared
        base.patch_lut_cache()
        cfg = config(case)
        cls = base.analysis_class(cfg)
        samples, pt = master(case['data_seed'], case['cls'])
        log = []
        fedlog = []
        fails = case.get('fails') or [None] * len(case['runs'])
        pre = [base.poison_preprocess()] if any(f is not None for f in fails) else []

        class Logged(cls):
            def update(self, traces, data):
                fedlog.append(int(np.asarray(traces).shape[0]))
                return super().update(traces=traces, data=data)

            def compute_results(self):
                ct = getattr(self, 'convergence_traces', None)
                log.append([int(self.processed_traces), 0 if ct is None else int(ct.shape[-1])])
                return super().compute_results()

        obs = {}
        try:
            with warnings.catch_warnings():
                warnings.simplefilter('ignore')
                a = Logged(**base.analysis_kwargs(cfg, convergence_step=case['step']))
                plain = cls(**base.analysis_kwargs(cfg))
                start = 0
                ncols = []
                fed_idx = []
                obs['fed'] = []
                obs['failed'] = []
                W_ = case.get('W', L)
                for (n, bs), fail in zip(case['runs'], fails):
                    scared.set_batch_size(int(bs))
                    before = sum(fedlog)
                    try:
                        a.run(scared.Container(ths_of(samples[start:start + n], pt[start:start + n], W_, poison=fail), preprocesses=list(pre)))
                        obs['failed'].append(False)
                    except base.PoisonError:
                        obs['failed'].append(True)
                    fed = sum(fedlog) - before
                    obs['fed'].append(fed)
                    fed_idx += list(range(start, start + min(fed, n)))
                    # the reference without convergence_step gets exactly the rows this run() fed (its own batch size would cut an
                    # interrupted run elsewhere)
                    if 0 < fed <= n and (fail is None or fed <= fail):
                        plain.run(scared.Container(ths_of(samples[start:start + fed], pt[start:start + fed], W_)))
                    start += n
                    ct = a.convergence_traces
                    ncols.append(0 if ct is None else int(ct.shape[-1]))
                scared.set_batch_size(None)
                obs['computes'] = log
                obs['ncols'] = ncols
                obs['marks'] = [int(v) for v in a._batches_processed] if hasattr(a, '_batches_processed') else None
                obs['processed'] = int(a.processed_traces)
                ct = a.convergence_traces
                k = 0 if ct is None else int(ct.shape[-1])
                obs['conv'] = [base.flt(ct[..., j]) for j in range(k)]
                obs['conv_dtype'] = None if ct is None else str(ct.dtype)
                obs['scores'] = base.flt(a.scores)
                obs['results'] = base.flt(a.results)
                obs['plain_scores'] = base.flt(plain.scores)
                obs['plain_results'] = base.flt(plain.results)
                # the point of every column, as observed: a column follows compute call i when the count grew after it
                after = [c[1] for c in log[1:]] + [k]
                points = [c[0] for c, nxt in zip(log, after) if nxt > c[1]]
                obs['points'] = points
                obs['prefix'] = [self.prefix_scores(case, p, fed_idx) if 1 <= p <= len(fed_idx) else [] for p in points]
        finally:
            scared.set_batch_size(None)
        return obs

    def coq(self, case, obs):
        fails = case.get('fails') or [None] * len(case['runs'])
        fed = obs['fed'] if 'raised' not in obs else [0] * len(case['runs'])
        head = 'c8_step := %s; c8_runs := %s; c8_fails := %s; c8_obs_fed := %s; c8_prec := %s' % (
            C.coq_nat(case['step']), C.coq_list(case['runs'], lambda r: '(%s, %s)' % (C.coq_nat(r[0]), C.coq_nat(r[1]))),
            C.coq_list(fails, lambda f: C.coq_option(f, C.coq_nat)), C.coq_list(fed, C.coq_nat),
            'F32' if case['prec'] == 'float32' else 'F64')
        if 'raised' in obs:
            return ('{| %s; c8_width := 0%%nat; c8_obs_computes := []; c8_obs_ncols := []; c8_obs_points := []; c8_obs_marks := None; c8_obs_conv := []; '
                    'c8_obs_scores := []; c8_obs_results := []; c8_prefix_scores := []; c8_plain_scores := []; c8_plain_results := [] |}' % head)
        return ('{| %s; c8_width := %s; c8_obs_computes := %s; c8_obs_ncols := %s; c8_obs_points := %s; c8_obs_marks := %s; c8_obs_conv := %s; '
                'c8_obs_scores := %s; c8_obs_results := %s; c8_prefix_scores := %s; c8_plain_scores := %s; c8_plain_results := %s |}' % (
                    head, C.coq_nat(len(obs['scores'])),
                    C.coq_list(obs['computes'], lambda c: '(%s, %s)' % (C.coq_nat(c[0]), C.coq_nat(c[1]))),
                    C.coq_list(obs['ncols'], C.coq_nat), C.coq_list(obs['points'], C.coq_nat),
                    C.coq_option(obs['marks'], lambda m: C.coq_list(m, C.coq_nat)),
                    C.coq_list(obs['conv'], base.fl), base.fl(obs['scores']), base.fl(obs['results']),
                    C.coq_list(obs['prefix'], base.fl), base.fl(obs['plain_scores']), base.fl(obs['plain_results'])))

    def oracle(self, case, obs):
        if 'raised' in obs:
            return f'run() raised {obs["raised"]}: {obs["msg"]}'
        fails = case.get('fails') or [None] * len(case['runs'])
        for i, f in enumerate(fails):
            if (f is not None) != obs['failed'][i]:
                return f'run() number {i}: the exception of the poisoned batch was {"not " if f is not None else ""}propagated'
        if len(obs['points']) != len(obs['conv']):
            return (f'convergence_traces holds {len(obs["conv"])} columns at the end but {len(obs["points"])} columns were appended during the '
                    'history (columns disappeared, or were appended without a compute_results() call)')
        return None

    def nontrivial(self, case, obs):
        return 'raised' not in obs and len(obs['conv']) >= 2

    def features(self, case, obs):
        n, bs = case['runs'][0]
        st = case['step']
        f = {'class': case['cls'], 'runs': len(case['runs']), 'prec': case['prec'],
             'interrupted_run': 'none' if not any(x is not None for x in (case.get('fails') or [])) else
                                'first' if case['fails'][0] is not None else 'later',
             'step_vs_bs': 'lt' if st < bs else 'eq' if st == bs else 'gt',
             'step_vs_N': 'gt' if st > n else 'divides' if n % st == 0 else 'not_dividing'}
        if 'raised' not in obs:
            f['columns'] = min(len(obs['conv']), 10)
            f['ends_on_point'] = len(obs['marks'] or []) == 1
        return f

    def tags(self, case, obs):
        return ['convergence']

    def sample(self, case, obs):
        o = {k: obs.get(k) for k in ('computes', 'ncols', 'marks', 'points', 'processed')}
        return {'case': case, 'observed': o}

    def shrink(self, case):
        runs = case['runs']
        fails = case.get('fails') or [None] * len(runs)
        if len(runs) > 1:
            for i in range(len(runs)):
                nf = fails[:i] + fails[i + 1:]
                if nf[-1] is not None:          # the history must end with a run() that completes
                    continue
                yield dict(case, runs=runs[:i] + runs[i + 1:], fails=nf)
        for i, (n, bs) in enumerate(runs):
            for n2 in (n // 2, n - 1):
                if 1 <= n2 < n:
                    nf = list(fails)
                    if nf[i] is not None and nf[i] >= n2:
                        if i == len(runs) - 1 or n2 < 2:
                            continue
                        nf[i] = n2 - 1
                    yield dict(case, runs=runs[:i] + [[n2, bs]] + runs[i + 1:], fails=nf)
        if case['step'] > 1:
            yield dict(case, step=case['step'] - 1)


KINDS = [ConvKind()]
