"""C03 — CPA (standard and alternative) = Pearson correlation, DPA = difference of class means; layout; NaN discipline.

C-tie: the real scared.CPADistinguisher / CPAAlternativeDistinguisher / DPADistinguisher are driven through the public
update(traces, data) (one to three batches) and compute().  Inputs are exported exactly (integer numerators over a
power-of-two denominator), the result as exact floats read entry by entry through nested tolist() (no reliance on the
memory layout), together with its shape.  The comparison is inside Coq (Model/Cpa.v: cpa_check) against the SPEC:
Pearson's (sum of cross deviations, sums of squared deviations) and the difference of class means, in exact rationals,
sqrt-free, with a tolerance scaled by the precision and by the conditioning the spec computes.
"""
import itertools
from fractions import Fraction

import numpy as np

from lib.kinds import Kind, HarnessError
from lib import core
from translate import common as C

ID = 'C03'
TRANSLATORS = []
MODEL_TARGETS = ['theories/Model/Cpa.vo']
PROP_TARGET = 'theories/Props/C03.vo'
EXHAUSTIVE = False
TRUSTED_BASE = [
    'Coq 8.16.1 kernel incl. vm_compute (no native_compute)',
    'Print Assumptions: every theorem of Props/C03.v is closed under the global context (no axioms)',
    'correspondence harness tools/props/C03.py: exact export of inputs (integers over a power-of-two denominator, re-checked '
    'against the arrays given to the code), nested tolist() reading of the result, float export by core.float_to_coq',
    'comparison functions of Model/Cpa.v (le_r/close_r: sqrt-free interval test; cpa_tol/dpa_tol: first-order rounding budget '
    '4(n+4)u(kx+ky)); Run/Compare.v',
    'modelled, not verified: numpy astype/sum/dot/sqrt/division/isinf/reshape semantics (hand-written impl-model, held by the '
    'correspondence check on every run)',
]
ASSUMPTIONS = [
    'exact arithmetic in the theorems; "equals" for the float results means: within 4(n+4)u(kx+ky) of the exact Pearson r '
    '(u = 2^-24 / 2^-53, k = sum of squares / sum of squared deviations), resp. 4(n+4)u sum|x| (1/n1+1/n0) for DPA',
    'undefined => NaN is required in every rounding regime (exact sums and rounded sums; repaired code 4ecffab)',
    'a defined entry whose rounding budget is >= 1/8 (float denominators cannot be told from zero) may be any non-infinite value; '
    'such inputs are not generated for the alternative CPA, which has no inf -> NaN step',
    'DPA data are uint8 bit arrays (the only dtype DPADistinguisher._initialize accepts) with values 0/1 in every batch',
    'data arrays have at least one word dimension (data.shape = (n, d1, .., dk), k >= 1)',
    'no float overflow: float32 runs keep |x| <= 2^40',
    'large trace counts (65535 .. 2^24+3) are exercised with 1 sample x 1-2 words and values 0..5 only',
]

HDR = 'From ScaredV Require Import Model.Cpa.'

INT_DTYPES = ['uint8', 'int8', 'uint16', 'int16', 'uint32', 'int32', 'uint64', 'int64']
FLOAT_DTYPES = ['float16', 'float32', 'float64']
PBITS = {'float32': 24, 'float64': 53}
CLS = {'cpa': 'CPADistinguisher', 'cpa_alt': 'CPAAlternativeDistinguisher', 'dpa': 'DPADistinguisher'}
COQ_KIND = {'cpa': 'KCpa', 'cpa_alt': 'KCpaAlt', 'dpa': 'KDpa'}


# ----------------------------------------------------------------------------------------------- helpers (exact, no floats)

def _prod(dims):
    p = 1
    for d in dims:
        p *= d
    return p


def _flat(x):
    """Entries of a nested list in C order (by recursion on the nesting, not on the memory layout)."""
    if isinstance(x, list):
        out = []
        for y in x:
            out.extend(_flat(y))
        return out
    return [x]


def _den(dtype):
    return 8 if dtype.startswith('float') else 1


def _range(dtype):
    """Admissible numerators for a dtype (floats: dyadic k/8 with every square and product exactly representable)."""
    if dtype.startswith('float'):
        return {'float16': (-256, 256), 'float32': (-2 ** 20, 2 ** 20), 'float64': (-2 ** 40, 2 ** 40)}[dtype]
    info = np.iinfo(dtype)
    return int(info.min), int(info.max)


def _array(nested, dtype, den):
    """numpy array of the given dtype holding nested[...] / den (built from the nested lists, no reshape)."""
    if den == 1 and not dtype.startswith('float'):
        return np.array(nested, dtype=dtype)
    return (np.array(nested, dtype='float64') / den).astype(dtype)


def _reorder(a, order):
    """The same logical array in another memory layout (Fortran order / a strided view of a larger buffer)."""
    if order == 'F':
        return np.asfortranarray(a)
    if order == 'strided':
        big = np.zeros(tuple(2 * d for d in a.shape), dtype=a.dtype)
        view = big[tuple(slice(None, None, 2) for _ in a.shape)]
        view[...] = a
        return view
    return a


def _scribble(r, k):
    """What a caller may do to an array it was given: overwrite it in place."""
    if not r.flags.writeable:
        return
    if k % 3 == 0:
        np.nan_to_num(r, copy=False)
        np.abs(r, out=r)
        r += 3.0
    elif k % 3 == 1:
        r[...] = 12345.5
    else:
        r[...] = np.nan


def _check_export(a, rows, den, what):
    got = _flat(a.tolist())
    want = _flat(rows)
    if len(got) != len(want) or any(Fraction(g) != Fraction(w, den) for g, w in zip(got, want)):
        raise HarnessError(f'C03 harness: {what} array does not hold the exported values')


def _columns(case):
    n = len(case['traces'])
    xs = [[Fraction(case['traces'][t][s], case['tden']) for t in range(n)] for s in range(case['S'])]
    ys = [[Fraction(case['data'][t][w], case['dden']) for t in range(n)] for w in range(_prod(case['dims']))]
    return xs, ys


def _ssd(col):
    n = len(col)
    m = sum(col) / n
    return sum((v - m) ** 2 for v in col)


def exact_regime(case):
    n = len(case['traces'])
    mx = max([abs(v) for r in case['traces'] for v in r] + [0])
    my = max([abs(v) for r in case['data'] for v in r] + [0])
    m = max(1, mx, my)
    lim = 2 ** PBITS[case['precision']]
    if case['kind'] == 'cpa':
        return n * m * m < lim
    if case['kind'] == 'cpa_alt':
        return n * n * m * m < lim
    return n * max(1, mx) < lim


def vacuity(case):
    """max over entries of the tolerance 4(n+4)u(kx+ky) (exact rationals); None-entries ignored.  Same formula as Model/Cpa.cpa_tol."""
    n = len(case['traces'])
    xs, ys = _columns(case)
    u = Fraction(1, 2 ** PBITS[case['precision']])
    kx = [sum(v * v for v in c) / d for c in xs for d in [_ssd(c)] if d != 0]
    ky = [sum(v * v for v in c) / d for c in ys for d in [_ssd(c)] if d != 0]
    if not kx or not ky:
        return Fraction(0)
    return 4 * (n + 4) * u * (max(kx) + max(ky))


def degenerate(case):
    xs, ys = _columns(case)
    if case['kind'] == 'dpa':
        return any(len(set(c)) == 1 for c in ys)
    return any(len(set(c)) == 1 for c in xs + ys)


def admissible(case):
    """A DEFINED entry of the alternative CPA has no inf -> NaN step: it may overflow to +-inf when the float denominators
    cannot be told from zero (budget >= 1/64).  That is float cancellation, outside what the property promises; such
    inputs are run in float64 or not generated for that class.  (Undefined entries are NaN in every regime since the
    repair 4ecffab and are generated for all three classes.)"""
    if case['kind'] != 'cpa_alt':
        return True
    ends, pos = [], 0
    for i, b in enumerate(case['splits']):
        pos += b
        if i in case.get('computes', []) or i == len(case['splits']) - 1:
            ends.append(pos)
    for k in ends:                        # every moment at which compute() is called sees only the rows fed so far
        if vacuity(dict(case, traces=case['traces'][:k], data=case['data'][:k])) >= Fraction(1, 64):
            return False
    return True


def settle(case):
    """Return an admissible variant of the case (same class, float64 instead of float32), or None (case not generated)."""
    for c in (case, dict(case, precision='float64'), dict(case, computes=[]), dict(case, computes=[], precision='float64')):
        if admissible(c):
            return c
    return None


# ----------------------------------------------------------------------------------------------- generators

def _cap(case_prec, lo, hi):
    if case_prec == 'float32':
        return max(lo, -2 ** 40), min(hi, 2 ** 40)
    return lo, hi


def _values(rng, dtype, prec, mode, count):
    lo, hi = _cap(prec, *_range(dtype))
    if mode == 'small':
        lo, hi = max(lo, -12), min(hi, 12)
    elif mode == 'byte':
        lo, hi = max(lo, -128), min(hi, 255)
    elif mode == 'extreme':
        pool = sorted({lo, hi, lo + 1, hi - 1, 0, min(hi, 1), max(lo, -1), (lo + hi) // 2})
        return [rng.choice(pool) for _ in range(count)]
    elif mode == 'offset':
        span = hi - lo
        base = lo + span // 2 + rng.randint(0, span // 4)
        w = rng.choice([1, 2, 3, 8])
        return [min(hi, base + rng.randint(0, w)) for _ in range(count)]
    return [rng.randint(lo, hi) for _ in range(count)]


def _dims(rng, maxprod=12):
    while True:
        nd = rng.choice([1, 1, 2, 2, 3])
        dims = [rng.randint(1, 4) for _ in range(nd)]
        if _prod(dims) <= maxprod:
            return dims


def _splits(rng, n):
    k = rng.choice([1, 1, 2, 3])
    cuts = sorted(rng.sample(range(1, n), min(k - 1, n - 1))) if n > 1 else []
    return [b - a for a, b in zip([0] + cuts, cuts + [n])]


def make_case(rng, kind, n=None, S=None, dims=None, tdtype=None, ddtype=None, prec=None, tmode=None, dmode=None):
    n = n or rng.choice([2, 2, 3, 3, 4, 5, 6, 7, 8, 10, 13, 16, 21, 32, 40])
    S = S or rng.randint(1, 6)
    dims = dims or _dims(rng)
    D = _prod(dims)
    prec = prec or rng.choice(['float32', 'float64'])
    tdtype = tdtype or rng.choice(INT_DTYPES + FLOAT_DTYPES)
    tmode = tmode or rng.choice(['small', 'small', 'byte', 'full', 'full', 'extreme'])
    traces = [_values(rng, tdtype, prec, tmode, S) for _ in range(n)]
    if kind == 'dpa':
        ddtype = 'uint8'
        p1 = rng.choice([0.5, 0.5, 0.2, 0.8])
        data = [[1 if rng.random() < p1 else 0 for _ in range(D)] for _ in range(n)]
    else:
        ddtype = ddtype or rng.choice(INT_DTYPES + FLOAT_DTYPES)
        dmode = dmode or rng.choice(['small', 'small', 'byte', 'byte', 'full', 'extreme'])
        data = [_values(rng, ddtype, prec, dmode, D) for _ in range(n)]
    return {'kind': kind, 'precision': prec, 'tdtype': tdtype, 'ddtype': ddtype, 'dims': dims, 'S': S,
            'tden': _den(tdtype), 'traces': traces, 'dden': _den(ddtype), 'data': data, 'splits': _splits(rng, n),
            'order': rng.choice(['C', 'C', 'C', 'F', 'strided']), 'block': f'random/{tmode}'}


def _with_computes(rng, case):
    """Choose after which batches (not the last) compute() is also called: none / all / a random subset."""
    inner = list(range(len(case['splits']) - 1))
    mode = rng.choice(['none', 'all', 'all', 'some'])
    case['computes'] = [] if mode == 'none' else inner if mode == 'all' else [i for i in inner if rng.random() < 0.5]
    return case


def becomes_defined_block(rng, kind, tier):
    """Entries that are undefined at an early compute() (constant sample / constant word / empty bit class among the rows fed
    so far, or a single row) and defined at a later one: compute() after every batch."""
    for i in range(24 if tier == 'quick' else 240):
        n = rng.choice([3, 4, 6, 9, 14])
        c = make_case(rng, kind, n=n, S=rng.randint(1, 3), dims=rng.choice([[2], [3], [2, 2]]), tmode=rng.choice(['small', 'byte']),
                      dmode=rng.choice(['small', 'byte']))
        k = 1 if i % 4 == 0 else rng.randint(1, n - 1)
        rest = n - k
        c['splits'] = [k] + ([rest] if rest < 2 or i % 2 else [rest // 2, rest - rest // 2])
        c['computes'] = list(range(len(c['splits']) - 1))
        D = _prod(c['dims'])
        if kind == 'dpa':
            for w in range(D):                       # first batch: word w all 0 / all 1 / mixed; later rows hold both values
                b = [0, 1, None][(w + i) % 3]
                for t in range(n):
                    c['data'][t][w] = (b if b is not None else rng.randint(0, 1)) if t < k else (t - k + w) % 2
        else:
            js, jw = rng.randrange(c['S']), rng.randrange(D)
            v, u = c['traces'][0][js], c['data'][0][jw]
            for t in range(k):                       # constant sample js and constant word jw during the first batch only
                c['traces'][t][js] = v
                c['data'][t][jw] = u
            lo_t, hi_t = _cap(c['precision'], *_range(c['tdtype']))
            lo_d, hi_d = _cap(c['precision'], *_range(c['ddtype']))
            if k < n:
                c['traces'][k][js] = v + 1 if v + 1 <= hi_t else v - 1
                c['data'][k][jw] = u + 1 if u + 1 <= hi_d else u - 1
        c['block'] = 'becomes_defined'
        yield c


def _set_col(rows, j, vals):
    for r, v in zip(rows, vals):
        r[j] = v


def boundary(rng, kind, tier):
    """Deterministic structure (the cases the property names), rng only for the values."""
    reps = 1 if tier == 'quick' else 4
    small_t = ['uint8', 'int8', 'int16', 'uint32', 'int64', 'float32', 'float64']
    for _ in range(reps):
        # constant sample / constant word / both / everything constant, n not a power of two included, sums exact
        for n, prec, which in itertools.product([2, 3, 5, 6, 7, 11], ['float32', 'float64'],
                                                ['sample', 'word', 'both', 'all']):
            c = make_case(rng, kind, n=n, S=rng.randint(2, 4), dims=rng.choice([[6], [2, 3], [12], [2, 2, 3]]), prec=prec,
                          tdtype=rng.choice(small_t), ddtype=rng.choice(small_t), tmode='small', dmode='small')
            js, jw = rng.randrange(c['S']), rng.randrange(_prod(c['dims']))
            if which in ('sample', 'both'):
                _set_col(c['traces'], js, [rng.randint(1, 12)] * n)
            if kind == 'dpa':
                if which in ('word', 'both'):
                    _set_col(c['data'], jw, [rng.choice([0, 1])] * n)
                if which == 'all':
                    b = rng.choice([0, 1])
                    c['data'] = [[b] * len(r) for r in c['data']]
            else:
                if which in ('word', 'both'):
                    _set_col(c['data'], jw, [rng.randint(0, 12)] * n)
                if which == 'all':
                    c['traces'] = [[7] * c['S'] for _ in range(n)]
            c['block'] = f'constant_{which}'
            yield c
        # n = 2 (every defined correlation is +-1), two equal rows
        for prec, tdt in itertools.product(['float32', 'float64'], ['uint8', 'int16', 'float32', 'int64']):
            c = make_case(rng, kind, n=2, prec=prec, tdtype=tdt, tmode='byte')
            c['block'] = 'n2'
            yield c
            c = make_case(rng, kind, n=rng.choice([2, 3]), prec=prec, tdtype=tdt, tmode='small', dmode='small')
            c['traces'][1] = list(c['traces'][0])
            c['data'][1] = list(c['data'][0])
            c['block'] = 'two_equal_rows'
            yield c
        # perfectly (anti)correlated columns: word = a * sample + b; DPA: bit = [sample above its median]
        for prec, a in itertools.product(['float32', 'float64'], [1, -1, 3, -2]):
            tdt, ddt = rng.choice([('int8', 'int16'), ('int16', 'int32'), ('uint8', 'int64'), ('float32', 'float64'), ('float16', 'float32')])
            c = make_case(rng, kind, n=rng.choice([3, 4, 7, 12]), prec=prec, tdtype=tdt, ddtype=ddt, tmode='small', dmode='small')
            js = rng.randrange(c['S'])
            med = sorted(r[js] for r in c['traces'])[len(c['traces']) // 2]
            for jw in range(_prod(c['dims'])):
                if kind == 'dpa':
                    _set_col(c['data'], jw, [1 if (r[js] >= med) == (a > 0) else 0 for r in c['traces']])
                elif jw % 2 == 0:      # same denominator on both sides: y_num = a * x_num + b * den
                    _set_col(c['data'], jw, [a * r[js] + jw * c['dden'] for r in c['traces']])
            c['block'] = 'r_pm1'
            yield c
        # dtype extremes, every dtype, both precisions (float32: sums are rounded, the tolerance carries it)
        for dt, prec in itertools.product(INT_DTYPES + FLOAT_DTYPES, ['float32', 'float64']):
            c = make_case(rng, kind, n=rng.choice([4, 6, 9]), prec=prec, tdtype=dt, ddtype=dt, tmode='extreme', dmode='extreme')
            c['block'] = 'extreme'
            yield c
            c = make_case(rng, kind, n=rng.choice([5, 8, 17]), prec=prec, tdtype=dt, ddtype=dt, tmode='full', dmode='full')
            c['block'] = 'full_range'
            yield c
        # word shapes 1-D .. 3-D with distinct columns
        for dims in ([1], [5], [1, 1], [3, 4], [4, 3], [2, 1, 3], [2, 3, 2], [3, 2, 2], [1, 4, 1]):
            c = make_case(rng, kind, dims=dims, S=rng.randint(1, 5), tmode='byte', dmode='byte')
            c['block'] = 'shapes'
            yield c
        # large offset + small spread: ill-conditioned, the tolerance must widen by itself
        for dt, prec in itertools.product(['uint8', 'uint16', 'int32', 'float32'], ['float32', 'float64']):
            c = make_case(rng, kind, prec=prec, tdtype=dt, ddtype=dt, tmode='offset', dmode='offset')
            c['block'] = 'offset'
            yield c


ROUNDED_TAG = 'undefined_entry_not_nan_when_sums_are_rounded'


def rounded_block(rng, kind, tier):
    """Integer inputs whose running sums are NOT exactly representable in the precision (ordinary 16/32-bit data with
    float32, 64-bit data with float64), with a constant sample / constant word / empty bit class: nothing cancels exactly in
    the float formulas, the entry must be NaN all the same (defect D14, repaired by 4ecffab: min/max tracking, class counts)."""
    count = (120 if kind == 'dpa' else 40) * (1 if tier == 'quick' else 10)
    for i in range(count):
        prec = rng.choice(['float32', 'float32', 'float64'])
        dt = rng.choice((['int32', 'uint32', 'int64'] if kind == 'dpa' else ['uint16', 'uint16', 'int16', 'int32', 'uint32', 'int64'])
                        if prec == 'float32' else ['int64', 'uint64'])
        n = rng.choice([2, 3, 5, 6, 7, 11, 20, 37])
        c = make_case(rng, kind, n=n, S=6 if kind == 'dpa' else 2, dims=[2], prec=prec, tdtype=dt, ddtype=dt, tmode='full', dmode='full')
        lo, hi = _cap(prec, *_range(dt))
        if kind == 'dpa':
            _set_col(c['data'], 0, [1 if i % 4 else 0] * n)      # empty bit-0 class: (all - ones) / 0; sometimes empty bit-1 class
        elif i % 2 == 0:
            _set_col(c['traces'], 0, [rng.randint(hi // 4, hi)] * n)
        else:
            _set_col(c['data'], 0, [rng.randint(hi // 4, hi)] * n)
        c['block'] = 'rounded_sums_degenerate'
        if degenerate(c) and not exact_regime(c):
            yield c


def collapse_block(rng, kind, tier):
    """Columns that are NOT constant but become constant in the float precision (large offset, differences below the float
    spacing): the statistic is defined, the float denominators are exactly zero.  Any non-infinite value is accepted (the
    budget is vacuous), +-inf is not: this is where the standard CPA needs its inf -> NaN step."""
    if kind != 'cpa':
        return
    for i in range(40 if tier == 'quick' else 400):
        prec = rng.choice(['float32', 'float64'])
        dt, base = ('int32', 2 ** 30) if prec == 'float32' else ('int64', 2 ** 62)
        n = rng.choice([3, 5, 6, 7, 11, 13])
        c = make_case(rng, kind, n=n, S=3, dims=[4], prec=prec, tdtype=dt, ddtype=rng.choice(['uint8', 'int16']), tmode='byte', dmode='byte')
        if i % 2 == 0:
            _set_col(c['traces'], 0, [base + rng.randint(0, 20) for _ in range(n)])
            c['traces'][0][0], c['traces'][1][0] = base, base + 1
        else:
            c['ddtype'] = dt
            _set_col(c['data'], 0, [base + rng.randint(0, 20) for _ in range(n)])
            c['data'][0][0], c['data'][1][0] = base, base + 1
        c['block'] = 'collapse_in_float'
        yield c


class CorrKind(Kind):
    header = HDR
    case_type = 'hist_case'
    check_fn = 'hist_check'
    explain_fn = 'hist_explain'
    shard = 60
    kind = 'cpa'

    def gen(self, rng, tier):
        n = 260 if tier == 'quick' else 3000
        stream = itertools.chain(boundary(rng, self.kind, tier), (make_case(rng, self.kind) for _ in range(n)),
                                 rounded_block(rng, self.kind, tier), collapse_block(rng, self.kind, tier))
        for c in stream:
            c = settle(_with_computes(rng, c))
            if c is not None:
                yield c
        for c in becomes_defined_block(rng, self.kind, tier):
            c = settle(c)
            if c is not None:
                yield c

    def run(self, case):
        import warnings
        import scared
        n = len(case['traces'])
        traces = _array(case['traces'], case['tdtype'], case['tden'])
        data = _array([_nest(r, case['dims']) for r in case['data']], case['ddtype'], case['dden'])
        if list(data.shape) != [n] + case['dims'] or list(traces.shape) != [n, case['S']]:
            raise HarnessError('C03 harness: wrong array shape')
        traces, data = _reorder(traces, case.get('order', 'C')), _reorder(data, case.get('order', 'C'))
        _check_export(traces, case['traces'], case['tden'], 'trace')
        _check_export(data, case['data'], case['dden'], 'data')
        t0, d0 = traces.copy(), data.copy()
        d = getattr(scared, CLS[case['kind']])(precision=case['precision'])
        computes = set(case.get('computes', []))
        seen, pure = [], True
        with warnings.catch_warnings():
            warnings.simplefilter('ignore')
            pos = 0
            for i, b in enumerate(case['splits']):
                d.update(traces[pos:pos + b], data[pos:pos + b])
                pos += b
                if i in computes or i == len(case['splits']) - 1:
                    r = d.compute()
                    seen.append({'rows': pos, 'shape': list(r.shape), 'values': [float(v) for v in _flat(r.tolist())], 'dtype': str(r.dtype)})
                    kept = r.copy()
                    _scribble(r, len(seen))                  # the result belongs to the caller: in-place post-processing ...
                    r2 = d.compute()                         # ... must not show in the next compute()
                    pure = pure and r2.shape == kept.shape and bool(np.array_equal(r2, kept, equal_nan=True))
                    _scribble(r2, len(seen) + 1)             # nor in any later one (checked against the spec)
        last = seen[-1]
        return {'shape': last['shape'], 'values': last['values'], 'dtype': last['dtype'], 'prefix': seen[:-1],
                'processed': int(d.processed_traces), 'compute_twice_same': pure,
                'inputs_unchanged': bool(np.array_equal(traces, t0) and np.array_equal(data, d0))}

    def coq(self, case, obs):
        shape, vals = (obs.get('shape', []), obs.get('values', [])) if 'raised' not in obs else ([], [])
        final = ('{| k_kind := %s; k_prec := %s; k_dims := %s; k_S := %s; k_tden := %d%%positive; k_traces := %s; '
                 'k_dden := %d%%positive; k_data := %s; k_obs_shape := %s; k_obs := %s |}' % (
                     COQ_KIND[case['kind']], 'F32' if case['precision'] == 'float32' else 'F64',
                     C.coq_list(case['dims'], C.coq_nat), C.coq_nat(case['S']), case['tden'], C.coq_list2(case['traces'], C.coq_z),
                     case['dden'], C.coq_list2(case['data'], C.coq_z), C.coq_list(shape, C.coq_nat),
                     C.coq_list(vals, core.float_to_coq)))
        prefix = C.coq_list(obs.get('prefix', []), lambda p: '(%s, (%s, %s))' % (
            C.coq_nat(p['rows']), C.coq_list(p['shape'], C.coq_nat), C.coq_list(p['values'], core.float_to_coq)))
        return '{| h_final := %s; h_prefix := %s |}' % (final, prefix)

    def oracle(self, case, obs):
        if 'raised' in obs:
            return f'{CLS[case["kind"]]} update/compute raised {obs["raised"]}: {obs["msg"]}'
        if not obs['inputs_unchanged']:
            return 'update/compute modified the arrays passed in'
        if obs['processed'] != len(case['traces']):
            return f'processed_traces = {obs["processed"]} after {len(case["traces"])} traces'
        if not obs['compute_twice_same']:
            return ('compute() called again after the caller overwrote the returned array in place gave different values: '
                    'compute is not pure or its result is not caller-owned')
        return None

    def nontrivial(self, case, obs):
        vals = obs.get('values', [])
        return len(case['traces']) >= 2 and any(v == v for v in vals)

    def features(self, case, obs):
        vals = obs.get('values', [])
        nn = sum(1 for v in vals if v != v)
        return {'precision': case['precision'], 'tdtype': case['tdtype'], 'ddtype': case['ddtype'], 'ndim_words': len(case['dims']),
                'block': case.get('block', '?').split('/')[0], 'batches': len(case['splits']),
                'intermediate_computes': len(case.get('computes', [])), 'memory_order': case.get('order', 'C'),
                'nan_entries': 'none' if nn == 0 else ('all' if nn == len(vals) else 'some'),
                'exact_sums': exact_regime(case), 'result_dtype': obs.get('dtype', '?')}

    def tags(self, case, obs):
        if case.get('block') == 'rounded_sums_degenerate':
            return [ROUNDED_TAG, f'{self.name}_{ROUNDED_TAG}']
        return [self.name, f'{self.name}_{case["precision"]}']

    def sample(self, case, obs):
        return {'case': case, 'observed': obs}

    def shrink(self, case):
        for c in self._shrink(case):
            if admissible(c):             # a smaller case must still be one the generators could have produced
                yield c

    def _shrink(self, case):
        n, S, dims = len(case['traces']), case['S'], case['dims']
        D = _prod(dims)
        # a slab along one word axis (keeps the number of word dimensions), then fewer words as a 1-D word shape
        if len(dims) > 1:
            for ax, d in enumerate(dims):
                if d > 1:
                    for keep in (list(range(d // 2)), list(range(d // 2, d))):
                        nd = dims[:ax] + [len(keep)] + dims[ax + 1:]
                        idxs = [i for i, mi in enumerate(itertools.product(*[range(x) for x in dims])) if mi[ax] in keep]
                        yield dict(case, dims=nd, data=[[r[i] for i in idxs] for r in case['data']])
        if D > 1:
            h = D // 2
            for ws in (list(range(h)), list(range(h, D))):
                yield dict(case, dims=[len(ws)], data=[[r[w] for w in ws] for r in case['data']])
        elif len(dims) > 1:
            yield dict(case, dims=[D])
        if S > 1:
            h = S // 2
            for ss in (list(range(h)), list(range(h, S))):
                yield dict(case, S=len(ss), traces=[[r[s] for s in ss] for r in case['traces']])
        # history: fewer intermediate computes, then one batch; rows are dropped inside their batch (history kept)
        comp = case.get('computes', [])
        for i in comp:
            yield dict(case, computes=[j for j in comp if j != i])
        if len(case['splits']) > 1:
            yield dict(case, splits=[n], computes=[])
        if n > 2:
            for i in list(range(n - 1, -1, -1)):
                c = _drop_row(case, i)
                if c is not None:
                    yield c


def _drop_row(case, i):
    """The case without row i: its batch shrinks by one; an emptied batch disappears with the compute() that followed it."""
    n = len(case['traces'])
    if n <= 2:
        return None
    splits, comp = list(case['splits']), list(case.get('computes', []))
    pos = 0
    for b, size in enumerate(splits):
        if pos <= i < pos + size:
            break
        pos += size
    splits[b] -= 1
    if splits[b] == 0:
        del splits[b]
        comp = [j - 1 if j > b else j for j in comp if j != b]
    comp = sorted({j for j in comp if 0 <= j < len(splits) - 1})
    rows = [j for j in range(n) if j != i]
    return dict(case, traces=[case['traces'][j] for j in rows], data=[case['data'][j] for j in rows], splits=splits, computes=comp)


def _nest(flat, dims):
    if len(dims) == 1:
        return list(flat)
    step = _prod(dims[1:])
    return [_nest(flat[i * step:(i + 1) * step], dims[1:]) for i in range(dims[0])]


class CpaKind(CorrKind):
    name = 'cpa'
    kind = 'cpa'
    rule = ('CPADistinguisher(precision).update (1-3 batches) + compute on n = 2..40 traces x 1..6 samples, words of shape 1-D..3-D '
            '(<= 12 words), every integer dtype and dyadic float16/32/64 for traces and data, both precisions; boundary block: '
            'constant sample / constant word / both / all constant (n = 2,3,5,6,7,11, exact sums), n = 2, two equal rows, '
            'r = +-1, dtype extremes and full range, word shapes, large offset + small spread, constant columns with rounded sums '
            '(uint16..int64 in float32, 64-bit in float64), columns that collapse to a constant in the float precision; C / Fortran / '
            'strided memory layouts; compute() also between the batches (none / all / some), each compared with the spec of the rows '
            'fed so far, entries undefined at an early compute and defined later; after every compute the returned array is overwritten '
            'in place and compute() called again; compared with the Pearson spec in exact rationals; non-trivial = at least one defined entry')


class CpaAltKind(CorrKind):
    name = 'cpa_alt'
    kind = 'cpa_alt'
    rule = 'same as cpa for CPAAlternativeDistinguisher (cases where the float denominators cannot be told from zero are run in float64, or not at all)'


class DpaKind(CorrKind):
    name = 'dpa'
    kind = 'dpa'
    rule = ('DPADistinguisher: same trace generators, uint8 bit data with P(1) in {0.2, 0.5, 0.8}; boundary: all-ones / all-zeros bit '
            'column (exact and rounded sums), every column, bit = [sample above its median]; compared with mean(bit=1) - mean(bit=0) '
            'in exact rationals')


# ----------------------------------------------------------------------------------------------- large trace counts

LARGE_N = [65535, 65536, 131071, 131072, 140000, 200000]


def _split_total(rng, total, parts):
    """`parts` positive integers summing to `total` (total >= parts)."""
    cuts = sorted(rng.sample(range(1, total), parts - 1)) if parts > 1 else []
    return [b - a for a, b in zip([0] + cuts, cuts + [total])]


def _interleave(rng, groups):
    """Merge lists of runs keeping the order inside each list (rng decides which list gives the next run)."""
    groups = [list(g) for g in groups if g]
    out = []
    while groups:
        g = rng.choice(groups)
        out.append(g.pop(0))
        if not g:
            groups.remove(g)
    return out


def make_large(rng, kind, n, prec, W, balance=None, constant_word=False):
    """Run-length encoded history: runs [x, [words], count] in feeding order; small integer values so that every float
    sum is exact in float64 (and in float32 up to 200000 traces)."""
    if kind == 'dpa':
        n1 = n // 2 if balance == 'balanced' else max(1, n // 20)
        ones = [[rng.randint(0, 5), [1] + [rng.randint(0, 1) for _ in range(W - 1)], c] for c in _split_total(rng, n1, rng.randint(4, 12))]
        zeros = [[rng.randint(0, 5), [0] + [rng.randint(0, 1) for _ in range(W - 1)], c] for c in _split_total(rng, n - n1, rng.randint(4, 12))]
        runs = _interleave(rng, [ones, zeros])
    else:
        runs = [[rng.randint(0, 5), [rng.randint(0, 3) for _ in range(W)], c] for c in _split_total(rng, n, rng.randint(8, 24))]
        if constant_word:
            for r in runs:
                r[1][W - 1] = 2
    k = rng.choice([1, 2, 3])
    splits = _split_total(rng, n, k) if rng.random() < 0.5 else ([65536, n - 65536] if n > 65536 and k > 1 else [n])
    return {'kind': kind, 'precision': prec, 'W': W, 'runs': runs, 'splits': splits, 'n': n,
            'block': f'{balance or ("constant_word" if constant_word else "random")}'}


class LargeNKind(Kind):
    name = 'large_n'
    header = HDR
    case_type = 'rl_case'
    check_fn = 'rl_check'
    explain_fn = 'rl_explain'
    shard = 8
    rule = ('update (1-3 big batches) + compute of the three classes on n = 65535, 65536, 131071, 131072, 140000, 200000 and 2^24+3 '
            'traces x 1 sample x 1-2 words, rows run-length encoded (value, words, repetitions) and evaluated as weighted sums inside '
            'Coq (Props/C03.run_length_spec_is_the_spec); DPA with exactly n/2 ones and with 5 % ones; small integer values (float sums '
            'exact); float64 and float32; integer counters / products that overflow at large trace counts are visible here only')

    def gen(self, rng, tier):
        reps = 1 if tier == 'quick' else 4
        for rep in range(reps):
            i = 0
            for n in LARGE_N:
                for balance in ('balanced', 'sparse'):
                    i += 1
                    yield make_large(rng, 'dpa', n, 'float64' if (i + rep) % 3 else 'float32', 1 + (i % 2), balance=balance)
                for kind in ('cpa', 'cpa_alt'):
                    i += 1
                    yield make_large(rng, kind, n, 'float64' if (i + rep) % 3 else 'float32', 1 + (i % 2), constant_word=(i % 5 == 0))
            for kind in ('dpa', 'cpa', 'cpa_alt'):
                yield make_large(rng, kind, 2 ** 24 + 3, 'float64', 1, balance='balanced')

    def run(self, case):
        import warnings
        import scared
        runs = case['runs']
        counts = np.array([r[2] for r in runs], dtype='int64')
        n = int(counts.sum())
        if n != case['n'] or sum(case['splits']) != n:
            raise HarnessError('C03 harness: run lengths do not sum to n')
        traces = np.repeat(np.array([[r[0]] for r in runs], dtype='uint8'), counts, axis=0)
        data = np.repeat(np.array([r[1] for r in runs], dtype='uint8'), counts, axis=0)
        pos = 0
        for r in runs:      # the arrays handed to the code are the expansion of the runs (integer comparisons)
            if not ((traces[pos:pos + r[2], 0] == r[0]).all() and (data[pos:pos + r[2]] == np.array(r[1], dtype='uint8')).all()):
                raise HarnessError('C03 harness: expanded array does not match the runs')
            pos += r[2]
        if traces.shape != (n, 1) or data.shape != (n, case['W']):
            raise HarnessError('C03 harness: wrong expanded shape')
        d = getattr(scared, CLS[case['kind']])(precision=case['precision'])
        with warnings.catch_warnings():
            warnings.simplefilter('ignore')
            pos = 0
            for b in case['splits']:
                d.update(traces[pos:pos + b], data[pos:pos + b])
                pos += b
            r = d.compute()
            out = {'shape': list(r.shape), 'values': [float(v) for v in _flat(r.tolist())], 'dtype': str(r.dtype)}
            kept = r.copy()
            _scribble(r, 1)
            r2 = d.compute()
        out.update(processed=int(d.processed_traces), pure=bool(r2.shape == kept.shape and np.array_equal(r2, kept, equal_nan=True)))
        return out

    def coq(self, case, obs):
        shape, vals = (obs.get('shape', []), obs.get('values', [])) if 'raised' not in obs else ([], [])
        runs = C.coq_list(case['runs'], lambda r: '(%s, %s, %d%%positive)' % (C.coq_z(r[0]), C.coq_list(r[1], C.coq_z), r[2]))
        return ('{| r_kind := %s; r_prec := %s; r_W := %s; r_runs := %s; r_obs_shape := %s; r_obs := %s |}' % (
            COQ_KIND[case['kind']], 'F32' if case['precision'] == 'float32' else 'F64', C.coq_nat(case['W']), runs,
            C.coq_list(shape, C.coq_nat), C.coq_list(vals, core.float_to_coq)))

    def oracle(self, case, obs):
        if 'raised' in obs:
            return f'{CLS[case["kind"]]} update/compute raised {obs["raised"]}: {obs["msg"]}'
        if obs['processed'] != case['n']:
            return f'processed_traces = {obs["processed"]} after {case["n"]} traces'
        if not obs['pure']:
            return 'compute() called again after the caller overwrote the returned array in place gave different values'
        return None

    def nontrivial(self, case, obs):
        return any(v == v for v in obs.get('values', []))

    def features(self, case, obs):
        return {'class': case['kind'], 'precision': case['precision'], 'n': case['n'], 'block': case['block'], 'batches': len(case['splits'])}

    def tags(self, case, obs):
        return ['large_n', f'large_n_{case["kind"]}']

    def shrink(self, case):
        runs = case['runs']
        if case['W'] > 1:
            for w in range(case['W']):
                if not (case['kind'] == 'dpa' and False):
                    yield dict(case, W=1, runs=[[r[0], [r[1][w]], r[2]] for r in runs])
        if len(case['splits']) > 1:
            yield dict(case, splits=[case['n']])
        # merge neighbouring runs with the same row, then merge rows (keeps n)
        for i in range(len(runs) - 1):
            merged = runs[:i] + [[runs[i][0], runs[i][1], runs[i][2] + runs[i + 1][2]]] + runs[i + 2:]
            yield dict(case, runs=merged, splits=[case['n']])


# ----------------------------------------------------------------------------------------------- count boundaries on words / samples

WIDE_WORDS = [([63], 2), ([7, 9], 1), ([64], 3), ([4, 4, 4], 1), ([65], 2), ([5, 13], 3), ([100], 1), ([5, 20], 2), ([2, 5, 10], 1),
              ([127], 2), ([128], 1), ([2, 64], 2), ([129], 1), ([3, 43], 2), ([255], 1), ([3, 5, 17], 2), ([256], 2), ([16, 16], 1),
              ([257], 3), ([1, 257], 1), ([300], 1), ([3, 100], 2), ([5, 6, 10], 1), ([1025], 1), ([25, 41], 2), ([5, 5, 41], 1)]
WIDE_SAMPLES = [([2], 63), ([3], 64), ([1], 65), ([2, 2], 257), ([5], 1025), ([65], 65), ([100], 64), ([5, 13], 129)]


def _rle_layout(rng, total, ncols):
    """`total` positions filled with distinct-column indices 0..ncols-1 as runs [(index, repetitions)]; every index occurs,
    the runs are short near both ends (boundaries are where indexing slips)."""
    head = [[i % ncols, 1] for i in range(min(ncols, total))]
    rest = total - len(head)
    runs = list(head)
    tail = []
    for i in range(min(3, rest)):
        tail.append([rng.randrange(ncols), 1])
    rest -= len(tail)
    while rest > 0:
        c = min(rest, rng.choice([1, 2, 5, 17, 40, 64, 200]))
        runs.append([rng.randrange(ncols), c])
        rest -= c
    return runs + tail


def _expand_layout(runs):
    out = []
    for i, c in runs:
        out.extend([i] * c)
    return out


def make_wide(rng, kind, dims, S, prec):
    n = rng.randint(4, 12)
    ks, kw = rng.randint(3, 5), rng.randint(3, 5)
    scols = [[rng.randint(0, 12) for _ in range(n)] for _ in range(ks)]
    if kind == 'dpa':
        wcols = [[rng.randint(0, 1) for _ in range(n)] for _ in range(kw)]
        wcols[rng.randrange(kw)] = [rng.choice([0, 1])] * n            # an empty bit class somewhere
    else:
        wcols = [[rng.randint(0, 12) for _ in range(n)] for _ in range(kw)]
        wcols[rng.randrange(kw)] = [rng.randint(0, 12)] * n            # a constant word somewhere
    scols[rng.randrange(ks)] = [rng.randint(0, 12)] * n               # a constant sample somewhere
    k = rng.choice([1, 2])
    return {'kind': kind, 'precision': prec, 'dims': dims, 'n': n, 'scols': scols, 'wcols': wcols,
            'slayout': _rle_layout(rng, S, ks), 'wlayout': _rle_layout(rng, _prod(dims), kw),
            'splits': [n] if k == 1 else [n // 2, n - n // 2], 'order': rng.choice(['C', 'C', 'F']),
            'picks': [[rng.random(), rng.random()] for _ in range(40)]}


class WideKind(Kind):
    name = 'wide'
    header = HDR
    case_type = 'wide_case'
    check_fn = 'wide_check'
    explain_fn = 'wide_explain'
    shard = 8
    rule = ('the three classes on few traces (n = 4..12, small integers: float sums exact) with total word counts 63, 64, 65, 100, 127, '
            '128, 129, 255, 256, 257, 300, 1025 (1-D and multi-dimensional word shapes with that product) and sample counts 63, 64, 65, '
            '257, 1025, 129; the columns are 3-5 distinct sample columns and 3-5 distinct word columns (one constant each) laid out '
            'run-length encoded; validated inside Coq against the spec: first and last occurrence of every pair of distinct columns, the '
            'last 3 words x last / first / sampled samples, the last 3 samples x last / first / sampled words, 40 sampled entries; every '
            'other entry must be bit-identical (NaN pattern included) to the validated entry built from the same pair of columns')

    def gen(self, rng, tier):
        reps = 1 if tier == 'quick' else 3
        for rep in range(reps):
            i = 0
            for kind in ('cpa', 'cpa_alt', 'dpa'):
                for dims, S in WIDE_WORDS + WIDE_SAMPLES:
                    i += 1
                    yield make_wide(rng, kind, list(dims), S, 'float64' if (i + rep) % 2 else 'float32')

    def run(self, case):
        import warnings
        import scared
        n, dims = case['n'], case['dims']
        sidx, widx = _expand_layout(case['slayout']), _expand_layout(case['wlayout'])
        S, D = len(sidx), len(widx)
        if D != _prod(dims):
            raise HarnessError('C03 harness: word layout does not fill the word shape')
        t_rows = [[case['scols'][sidx[j]][t] for j in range(S)] for t in range(n)]
        d_rows = [[case['wcols'][widx[w]][t] for w in range(D)] for t in range(n)]
        tdt = 'uint8' if case['kind'] == 'dpa' else 'int16'
        traces = _reorder(np.array(t_rows, dtype=tdt), case['order'])
        data = _reorder(np.array([_nest(r, dims) for r in d_rows], dtype='uint8'), case['order'])
        if list(data.shape) != [n] + dims or _flat(data.tolist()) != _flat(d_rows) or _flat(traces.tolist()) != _flat(t_rows):
            raise HarnessError('C03 harness: arrays do not hold the laid-out columns')
        d = getattr(scared, CLS[case['kind']])(precision=case['precision'])
        with warnings.catch_warnings():
            warnings.simplefilter('ignore')
            pos = 0
            for b in case['splits']:
                d.update(traces[pos:pos + b], data[pos:pos + b])
                pos += b
            r = d.compute()
        shape = list(r.shape)
        if shape != dims + [S]:
            return {'shape': shape, 'entries': [], 'mismatch': None, 'processed': int(d.processed_traces)}
        flat = np.asarray(_flat(r.tolist()), dtype='float64').reshape(D, S)     # D rows of S entries, in nested-list (C) order
        # representatives: first / last occurrence of each pair of distinct columns, the last rows / columns, sampled entries
        pos_of = {}
        for w in range(D):
            for s_ in range(S):
                key = (widx[w], sidx[s_])
                if key not in pos_of:
                    pos_of[key] = [(w, s_), (w, s_)]
                else:
                    pos_of[key][1] = (w, s_)
        chosen = []
        for first, last in pos_of.values():
            chosen += [first, last]
        col_sample = sorted({0, S - 1, max(0, S - 2), max(0, S - 3)} | {int(p[1] * S) for p in case['picks'][:8]})
        row_sample = sorted({0, D - 1, max(0, D - 2), max(0, D - 3)} | {int(p[0] * D) for p in case['picks'][:8]})
        for w in range(max(0, D - 3), D):
            chosen += [(w, s_) for s_ in col_sample]
        for s_ in range(max(0, S - 3), S):
            chosen += [(w, s_) for w in row_sample]
        chosen += [(int(p[0] * D), int(p[1] * S)) for p in case['picks']]
        seen, entries = set(), []
        for w, s_ in chosen:
            if (w, s_) not in seen:
                seen.add((w, s_))
                entries.append([w, s_, float(flat[w, s_])])
        # every entry must be bit-identical (NaN = NaN) to the first entry built from the same pair of distinct columns
        mismatch = None
        for w in range(D):
            ref = np.array([flat[pos_of[(widx[w], i)][0]] if (widx[w], i) in pos_of else np.nan for i in sidx])
            row = flat[w]
            bad = ~((row == ref) | (np.isnan(row) & np.isnan(ref)))
            if bad.any():
                s_ = int(np.argmax(bad))
                mismatch = {'word': w, 'sample': s_, 'value': float(row[s_]), 'same_columns_as': list(pos_of[(widx[w], sidx[s_])][0]),
                            'whose_value': float(ref[s_])}
                break
        return {'shape': shape, 'entries': entries, 'mismatch': mismatch, 'processed': int(d.processed_traces), 'dtype': str(r.dtype)}

    def coq(self, case, obs):
        shape, entries = (obs.get('shape', []), obs.get('entries', [])) if 'raised' not in obs else ([], [])
        lay = lambda runs: C.coq_list(runs, lambda r: '(%s, %d%%positive)' % (C.coq_nat(r[0]), r[1]))
        return ('{| w_kind := %s; w_prec := %s; w_dims := %s; w_scols := %s; w_wcols := %s; w_slayout := %s; w_wlayout := %s; '
                'w_obs_shape := %s; w_obs := %s |}' % (
                    COQ_KIND[case['kind']], 'F32' if case['precision'] == 'float32' else 'F64', C.coq_list(case['dims'], C.coq_nat),
                    C.coq_list2(case['scols'], C.coq_z), C.coq_list2(case['wcols'], C.coq_z), lay(case['slayout']), lay(case['wlayout']),
                    C.coq_list(shape, C.coq_nat),
                    C.coq_list(entries, lambda e: '(%s, %s, %s)' % (C.coq_nat(e[0]), C.coq_nat(e[1]), core.float_to_coq(e[2])))))

    def oracle(self, case, obs):
        if 'raised' in obs:
            return f'{CLS[case["kind"]]} update/compute raised {obs["raised"]}: {obs["msg"]}'
        if obs['processed'] != case['n']:
            return f'processed_traces = {obs["processed"]} after {case["n"]} traces'
        if obs['mismatch']:
            m = obs['mismatch']
            return (f'entry (word {m["word"]}, sample {m["sample"]}) = {m["value"]!r} differs from entry {tuple(m["same_columns_as"])} = '
                    f'{m["whose_value"]!r} although both are computed from identical word and sample columns')
        return None

    def nontrivial(self, case, obs):
        return any(e[2] == e[2] for e in obs.get('entries', []))

    def features(self, case, obs):
        return {'class': case['kind'], 'precision': case['precision'], 'words': _prod(case['dims']), 'ndim_words': len(case['dims']),
                'samples': len(_expand_layout(case['slayout'])), 'validated_entries': len(obs.get('entries', []))}

    def tags(self, case, obs):
        return ['wide', f'wide_{case["kind"]}']

    def sample(self, case, obs):
        return {'case': case, 'observed': dict(obs, entries=obs.get('entries', [])[:6])}

    def shrink(self, case):
        if len(case['dims']) > 1:
            yield dict(case, dims=[_prod(case['dims'])])
        if len(case['splits']) > 1:
            yield dict(case, splits=[case['n']])
        for key in ('wlayout', 'slayout'):            # shorter layouts (1-D word shape only), keeping every distinct column
            runs = case[key]
            if key == 'wlayout' and len(case['dims']) > 1:
                continue
            for i, (c, k) in enumerate(runs):
                if k > 1:
                    new = runs[:i] + [[c, k // 2]] + runs[i + 1:]
                    yield dict(case, **{key: new}, **({'dims': [sum(r[1] for r in new)]} if key == 'wlayout' else {}))


KINDS = [CpaKind(), CpaAltKind(), DpaKind(), LargeNKind(), WideKind()]
