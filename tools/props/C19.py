"""C19 — signal helpers equal windowed definitions; peak search keeps isolated maxima.

C-tie: the real scared.signal_processing functions are run on generated inputs and their outputs are compared, inside
Coq, with the SPEC-side definitions of Model/Signal.v (naive statistics of every window, per-window Pearson triple,
squared distance, variance ratio, documented pad / extract placement) and Model/Peaks.v (property clauses of find_peaks
evaluated on the observed result; equality with the repaired scan as a separate correspondence; find_width = brute-force
enumeration of the bracketed maximal runs + the gap construction).

Three families of cases per function:
  * values: arrays x axes x windows / patterns / thresholds ... (single call on a fresh C-contiguous array);
  * memory layout and dtype representation: the SAME logical values given as strided / negative-stride / Fortran /
    transposed / offset-base / column / read-only / zero-stride / big-endian arrays (only the forms the unchanged code
    accepts), all integer widths; argument forms (Python int / float / numpy scalar / tuple / ndarray);
  * call histories: 2-4 calls where the same ndarray object is modified in place between calls, another array holds the
    same values, functions / windows / axes alternate; every call is compared with its spec (the functions are pure:
    the spec of a call depends on the current content only) and earlier results must stay intact.
"""
import itertools
import warnings

import numpy as np

from lib.kinds import Kind
from lib import core
from translate import common as C

ID = 'C19'
TRANSLATORS = []
MODEL_TARGETS = ['theories/Model/Signal.vo', 'theories/Model/Peaks.vo']
PROP_TARGET = 'theories/Props/C19.vo'
EXHAUSTIVE = True
TRUSTED_BASE = [
    'Coq 8.16.1 kernel incl. vm_compute (no native_compute)',
    'Print Assumptions: every theorem of Props/C19.v is closed under the global context (no axioms)',
    'correspondence harness tools/props/C19.py: construction of the memory layouts, nested tolist() read-back, float.hex export, '
    'exact scaling of dyadic values to integers for find_peaks / find_width / pad, in-place refill of buffers between calls',
    'modelled, not verified: numpy cumsum / swapaxes / where / diff / take / tile semantics, scipy.signal.correlate(valid) as the '
    'sliding dot product, numba njit of the scan loop (hand-written impl-models, held by the correspondence check)',
]
ASSUMPTIONS = [
    'real arrays: finite values, no NaN (comparisons with NaN are outside the property)',
    'moving operators / pattern scores are compared on dyadic or integer inputs whose float64 sums are exact; var/std/skew/'
    'kurtosis/correlation/bcdc within a tolerance 64*u*kappa with kappa the magnitude of the terms, computed by the model',
    'a window (or pattern) of zero variance makes skew / kurtosis / correlation undefined: NaN is required for skew and '
    'kurtosis, NaN or +-inf accepted for the correlation (eps/0 in floating point)',
    'find_width arguments satisfy the checks of the code (min_width >= 1, max_width >= 1, 0 < delta < min_width when max_width is None)',
    'extract_around_indexes: before, after >= 0; documented placement proved for in-range indices, numpy.take wrap-around of '
    'negative positions and IndexError modelled and compared as well',
    'argument forms the unchanged code refuses are not generated: numpy integer scalars as window / distance / widths / before / after / '
    'threshold, numpy.float32 scalars as height, big-endian and float16 data for find_peaks (numba), uint64 index arrays',
]

HDR_S = 'From ScaredV Require Import Model.Signal.'
HDR_P = 'From ScaredV Require Import Model.Peaks.'

F = core.float_to_coq

INT_DTYPES = ['int8', 'uint8', 'int16', 'uint16', 'int32', 'uint32', 'int64', 'uint64']
ALL_DTYPES = ['float64', 'float32'] + INT_DTYPES
LAYOUTS = ['strided', 'neg', 'fortran', 'transposed', 'offset', 'column', 'readonly', 'bigendian']      # besides 'c' and 'zerostride'
WRITABLE_LAYOUTS = ['c', 'strided', 'neg', 'fortran', 'offset', 'column']


def _is_int(dtype):
    return dtype.startswith(('int', 'uint'))


def _flatten(x):
    if isinstance(x, list):
        for y in x:
            yield from _flatten(y)
    else:
        yield x


def _flat(a):
    """Values of a result read through nested tolist() (independent of the memory layout of the result), C order."""
    return [float(v) for v in _flatten(np.asarray(a).tolist())]


def _flat_int(a):
    return [int(v) for v in _flatten(np.asarray(a).tolist())]


def _logical(values, den, dtype, shape):
    """The logical array: numerators / den in the given dtype (integral values required for integer dtypes), C-contiguous."""
    if _is_int(dtype):
        if any(v % den for v in values):
            raise ValueError('non-integral value for an integer dtype')
        return np.array([v // den for v in values], dtype=dtype).reshape(shape)
    return (np.array(values, dtype='float64') / den).astype(dtype).reshape(shape)


def _relayout(a, layout):
    """An array with the same values, shape and (logical) dtype as `a` but another memory layout; the cells of the base
    buffer that do not belong to the array hold other values (77, 55, 33), so that reading them shows."""
    nd = a.ndim
    if layout in (None, 'c'):
        r = a.copy()
    elif layout == 'strided':
        b = np.full(tuple(2 * s + 1 for s in a.shape), 77, dtype=a.dtype)
        sl = tuple(slice(1, 1 + 2 * s, 2) for s in a.shape)
        b[sl] = a
        r = b[sl]
    elif layout == 'neg':
        inv = tuple(slice(None, None, -1) for _ in range(nd))
        r = np.ascontiguousarray(a[inv])[inv]
    elif layout == 'fortran':
        r = np.asfortranarray(a)
    elif layout == 'transposed':
        r = np.ascontiguousarray(a.T).T
    elif layout == 'offset':
        b = np.full(tuple(s + 5 for s in a.shape), 55, dtype=a.dtype)
        sl = tuple(slice(3, 3 + s) for s in a.shape)
        b[sl] = a
        r = b[sl]
    elif layout == 'column':
        b = np.full(a.shape + (3,), 33, dtype=a.dtype)
        b[..., 1] = a
        r = b[..., 1]
    elif layout == 'readonly':
        r = a.copy()
        r.flags.writeable = False
    elif layout == 'bigendian':
        r = a.astype(a.dtype.newbyteorder('>'))
    elif layout == 'zerostride':
        r = np.broadcast_to(a[:1] if nd else a, a.shape)
    else:
        raise ValueError(layout)
    if r.shape != a.shape or not np.array_equal(r, a):
        raise ValueError(f'layout {layout} cannot hold these values')
    return r


def _arr(case):
    """Logical input array of a moving/pad/extract case."""
    return _logical(case['values'], case['den'], case['dtype'], case['shape'])


def _rand_values(rng, n, dtype, mode):
    """Numerators and denominator of exactly representable values whose 4th powers sum exactly in float64."""
    if dtype.startswith('float'):
        den = rng.choice([1, 2, 4, 8])
        lo, hi = -64, 64
    elif dtype.startswith('uint'):
        den, lo, hi = 1, 0, 100
    else:
        den, lo, hi = 1, -100, 100
    if mode == 'small':       # many ties, constant windows
        pool = [rng.randint(lo, hi) for _ in range(rng.randint(1, 3))]
        return [rng.choice(pool) for _ in range(n)], den
    if mode == 'ramp':
        a, b = rng.randint(-3, 3), rng.randint(lo // 2, hi // 2)
        return [min(hi, max(lo, a * i + b)) for i in range(n)], den
    return [rng.randint(lo, hi) for _ in range(n)], den


def _perturb(rng, vals, dtype):
    """New content for an in-place modification: one sample poked, a refill, or a sign flip / shift."""
    lo = 0 if dtype.startswith('uint') else -60
    r = rng.random()
    new = list(vals)
    if r < 0.4 and vals:
        i = rng.randrange(len(vals))
        new[i] = vals[i] + rng.choice([8, 16, 24]) if vals[i] < 30 else vals[i] - rng.choice([8, 16, 24])
    elif r < 0.8:
        new = [8 * rng.randint(lo // 8, 7) for _ in vals]
    else:
        new = [(100 - v) if dtype.startswith('uint') else -v for v in vals]
    if new == list(vals) and vals:
        new[0] = vals[0] + 8
    return new


class Base(Kind):
    """A function family: build(case) -> input arrays, invoke(arrays, case, keep) -> observation."""

    def build(self, case):
        raise NotImplementedError

    def invoke(self, arrs, case, keep=None):
        raise NotImplementedError

    def run(self, case):
        arrs = self.build(case)
        before = [a.copy() for a in arrs]
        with warnings.catch_warnings():
            warnings.simplefilter('ignore')
            obs = self.invoke(arrs, case)
        obs['input_unchanged'] = bool(all(np.array_equal(a, b) for a, b in zip(arrs, before)))
        return obs

    def oracle(self, case, obs):
        if 'raised' in obs:
            return f'{self.name} raised {obs["raised"]}: {obs["msg"]}'
        if obs.get('input_unchanged') is False:
            return 'input array modified'
        return self.extra_oracle(case, obs)

    def extra_oracle(self, case, obs):
        return None


class History(Kind):
    """2-4 calls of one function family on named buffers; a buffer that is used again is refilled IN PLACE (same ndarray
    object) with the values of the step.  Every call is printed as an ordinary case of the family (the functions are
    pure: the expected result depends only on the content at call time); earlier results must stay intact."""

    def __init__(self, base, steps_gen, rule):
        self.base = base
        self.steps_gen = steps_gen
        self.name = base.name + '_history'
        self.header = base.header
        self.case_type = f'list ({base.case_type})'
        self.check_fn = f'forallb ({base.check_fn})'
        if getattr(base, 'corr_fn', None):
            self.corr_fn = f'forallb ({base.corr_fn})'
        self.explain_fn = f'map ({base.explain_fn})' if base.explain_fn else None
        self.shard = 40
        self.rule = rule

    def gen(self, rng, tier):
        for steps in self.steps_gen(rng, tier):
            yield {'steps': steps}

    def run(self, case):
        bufs = {}
        keep = []          # (result array, copy at call time, step number, shares memory with an input)
        out = []
        with warnings.catch_warnings():
            warnings.simplefilter('ignore')
            for k, st in enumerate(case['steps']):
                fresh = self.base.build(st['case'])
                if st['buf'] in bufs:
                    arrs = bufs[st['buf']]
                    for old, new in zip(arrs, fresh):
                        old[...] = new                      # in-place modification of the same ndarray object
                else:
                    arrs = bufs[st['buf']] = fresh
                before = [a.copy() for a in arrs]
                kk = []
                o = self.base.invoke(arrs, st['case'], kk)
                o['input_unchanged'] = bool(all(np.array_equal(a, b) for a, b in zip(arrs, before)))
                for r in kk:
                    if isinstance(r, np.ndarray) and not any(np.shares_memory(r, a) for a in arrs):
                        keep.append((r, r.copy(), k))
                out.append(o)
        changed = sorted({k for r, c, k in keep if not np.array_equal(r, c, equal_nan=True)})
        return {'steps': out, 'earlier_results_changed': changed}

    def coq(self, case, obs):
        sobs = obs.get('steps') or [{'raised': obs.get('raised', '?'), 'msg': ''}] * len(case['steps'])
        return C.coq_list([self.base.coq(st['case'], o) for st, o in zip(case['steps'], sobs)])

    def oracle(self, case, obs):
        if 'raised' in obs:
            return f'{self.name} raised {obs["raised"]}: {obs["msg"]}'
        for k, (st, o) in enumerate(zip(case['steps'], obs['steps'])):
            m = self.base.oracle(st['case'], o)
            if m:
                return f'call {k}: {m}'
        if obs['earlier_results_changed']:
            return f'the result returned by call(s) {obs["earlier_results_changed"]} changed after later calls'
        return None

    def nontrivial(self, case, obs):
        return len({st['buf'] for st in case['steps']}) < len(case['steps'])

    def features(self, case, obs):
        return {'calls': len(case['steps']), 'buffers': len({st['buf'] for st in case['steps']})}

    def tags(self, case, obs):
        return [self.name]

    def sample(self, case, obs):
        return {'case': {'steps': case['steps'][:2]}, 'observed': {'steps': [str(o)[:200] for o in obs.get('steps', [])[:2]]}}

    def shrink(self, case):
        st = case['steps']
        if len(st) > 2:
            yield {'steps': st[:-1]}
            yield {'steps': st[1:]}
            for i in range(1, len(st) - 1):
                yield {'steps': st[:i] + st[i + 1:]}


# ------------------------------------------------------------------------------------------------ moving operators
MV_OPS = ['moving_sum', 'moving_mean', 'moving_var', 'moving_std', 'moving_skew', 'moving_kurtosis']
MV_COQ = dict(zip(MV_OPS, ['OpSum', 'OpMean', 'OpVar', 'OpStd', 'OpSkew', 'OpKurt']))


class MovingKind(Base):
    name = 'moving'
    header = HDR_S
    case_type = 'mv_case'
    check_fn = 'mv_check'
    explain_fn = 'mv_expected'
    shard = 40
    rule = ('moving_sum/mean/var/std/skew/kurtosis on 1-D..4-D arrays (float64/float32 and every integer width, dyadic or '
            'integer values, ties, constant lanes, ramps) x EVERY axis (also negative, also a numpy integer) x EVERY window 1..len(axis); '
            'the same values as strided / negative-stride / Fortran / transposed / offset / column / read-only / zero-stride / big-endian '
            'arrays; non-trivial = window >= 2 and at least two distinct values')

    def gen(self, rng, tier):
        shapes = [[1], [2], [3], [5], [8], [1, 1], [1, 4], [4, 1], [2, 3], [3, 2], [3, 3], [2, 2, 2], [2, 3, 4], [4, 1, 3], [1, 2, 1, 3]]
        nrand = 24 if tier == 'quick' else 150
        for _ in range(nrand):
            nd = rng.randint(1, 3)
            shapes.append([rng.randint(1, 6 if nd < 3 else 4) for _ in range(nd)])
        if tier != 'quick':
            shapes += [[12], [17], [3, 9], [9, 2], [2, 5, 3], [2, 2, 2, 3]]
        for k, shape in enumerate(shapes):
            dtype = ALL_DTYPES[k % len(ALL_DTYPES)] if k >= 3 else 'float64'
            mode = ['rand', 'small', 'ramp'][k % 3]
            vals, den = _rand_values(rng, int(np.prod(shape)), dtype, mode)
            nd = len(shape)
            for axis in range(nd):
                for w in range(1, shape[axis] + 1):
                    yield {'shape': shape, 'dtype': dtype, 'values': vals, 'den': den, 'w': w,
                           'axis': axis if rng.random() < 0.6 else axis - nd, 'axis_np': rng.random() < 0.2}
        # memory layouts / dtype representations of the same values
        nl = 2 if tier == 'quick' else 8
        for layout in LAYOUTS + ['zerostride']:
            for k in range(nl):
                nd = rng.randint(1, 3)
                shape = [rng.randint(2, 5) for _ in range(nd)]
                dtype = ['float64', 'float64', 'int16', 'float32', 'uint8', 'int64'][k % 6]
                vals, den = _rand_values(rng, int(np.prod(shape)), dtype, 'rand')
                if layout == 'zerostride':
                    inner = int(np.prod(shape[1:]))
                    vals = vals[:inner] * shape[0]
                axis = rng.randrange(nd)
                for w in sorted({1, 2, shape[axis], rng.randint(1, shape[axis])}):
                    if w <= shape[axis]:
                        yield {'shape': shape, 'dtype': dtype, 'values': vals, 'den': den, 'w': w, 'axis': axis, 'layout': layout}

    def build(self, case):
        return [_relayout(_arr(case), case.get('layout'))]

    def invoke(self, arrs, case, keep=None):
        from scared import signal_processing as sp
        a = arrs[0]
        axis = np.int64(case['axis']) if case.get('axis_np') else case['axis']
        out = {'ops': []}
        for op in case.get('ops', MV_OPS):
            r = getattr(sp, op)(a, case['w'], axis)
            if keep is not None:
                keep.append(r)
            out['ops'].append({'op': op, 'shape': list(r.shape), 'values': _flat(r)})
        return out

    def coq(self, case, obs):
        nd = len(case['shape'])
        axis = case['axis'] % nd
        inp = _flat(_arr(case))
        ob = C.coq_list(obs.get('ops', []), lambda o: '(%s, (%s, %s))' % (MV_COQ[o['op']], C.coq_list(o['shape'], C.coq_nat),
                                                                          C.coq_list(o['values'], F)))
        return '{| mv_shape := %s; mv_axis := %s; mv_w := %s; mv_in := %s; mv_obs := %s |}' % (
            C.coq_list(case['shape'], C.coq_nat), C.coq_nat(axis), C.coq_nat(case['w']), C.coq_list(inp, F), ob)

    def nontrivial(self, case, obs):
        return case['w'] >= 2 and len(set(case['values'])) >= 2

    def features(self, case, obs):
        return {'ndim': len(case['shape']), 'dtype': case['dtype'], 'w': min(case['w'], 6), 'axis_negative': case['axis'] < 0,
                'layout': case.get('layout', 'c')}

    def tags(self, case, obs):
        return ['moving']

    def sample(self, case, obs):
        return {'case': case, 'observed': [{'op': o['op'], 'shape': o['shape'], 'values': o['values'][:6]} for o in obs.get('ops', [])]}

    def shrink(self, case):
        # keep one lane: reduce the other dimensions to 1
        shape = case['shape']
        nd = len(shape)
        axis = case['axis'] % nd
        if nd > 1 and case.get('layout') in (None, 'c'):
            a = (np.array(case['values']).reshape(shape))
            idx = tuple(slice(None) if d == axis else 0 for d in range(nd))
            lane = a[idx]
            yield dict(case, shape=[int(lane.shape[0])], values=[int(v) for v in lane], axis=0)

    def histories(self, rng, tier):
        n = 10 if tier == 'quick' else 60
        for op in MV_OPS:
            for k in range(n):
                nd = 1 if k % 3 else 2
                shape = [rng.randint(3, 8)] if nd == 1 else [rng.randint(2, 4), rng.randint(2, 4)]
                dtype = ['float64', 'float64', 'int16', 'float32', 'uint8'][k % 5]
                v0, den = _rand_values(rng, int(np.prod(shape)), dtype, 'rand')
                v0 = [8 * (v // 8) for v in v0] if den == 8 else v0
                v1 = _perturb(rng, v0, dtype)
                if den == 8:
                    v1 = [8 * (v // 8) for v in v1]
                axis = rng.randrange(nd)
                L = shape[axis]
                w, w2 = rng.randint(2, L), rng.randint(1, L)
                op2 = rng.choice(MV_OPS)
                layout = rng.choice(WRITABLE_LAYOUTS)

                def st(buf, vals, ops, ww, ax=axis):
                    return {'buf': buf, 'case': {'shape': shape, 'dtype': dtype, 'values': vals, 'den': den, 'w': min(ww, shape[ax]), 'axis': ax,
                                                 'ops': ops, 'layout': layout}}
                pat = k % 5
                if pat == 0:
                    yield [st('A', v0, [op], w), st('A', v1, [op], w)]
                elif pat == 1:
                    yield [st('A', v0, [op], w), st('A', v1, [op], w2), st('A', v1, [op2], w)]
                elif pat == 2:
                    yield [st('A', v0, [op], w), st('B', v0, [op], w), st('A', v1, [op], w), st('B', v1, [op2], w2)]
                elif pat == 3:
                    ax2 = (axis + 1) % nd
                    yield [st('A', v0, [op], w), st('A', v0, [op2], w2, ax2), st('A', v1, [op], w), st('A', v1, [op, op2], w2)]
                else:
                    yield [st('A', v0, [op, op2], w), st('A', v1, [op2, op], w), st('A', v0, [op], w)]


# ------------------------------------------------------------------------------------------------ pattern detection
PD_FNS = ['correlation', 'distance', 'bcdc']


class PatternKind(Base):
    name = 'pattern'
    header = HDR_S
    case_type = 'pd_case'
    check_fn = 'pd_check'
    explain_fn = 'pd_expected'
    shard = 10
    rule = ('correlation / distance / bcdc of 1-D traces (len 2..24) with every pattern length 1..len-1 for the short ones, random '
            'for the others; embedded pattern (distance 0), negated pattern (x+y constant: bcdc infinite), constant windows and '
            'constant patterns (undefined correlation), ties; every integer width and both float dtypes, mixed dtypes; trace and '
            'pattern as strided / negative-stride / offset / column / read-only / zero-stride / big-endian arrays; non-trivial = pattern '
            'length >= 2 and non-constant trace and pattern')

    def gen(self, rng, tier):
        n_short = 12 if tier == 'quick' else 60
        for k in range(n_short):
            m = rng.randint(2, 7)
            dtype = ALL_DTYPES[k % len(ALL_DTYPES)]
            x, den = _rand_values(rng, m, dtype, ['rand', 'small'][k % 2])
            for n in range(1, m):
                y = [rng.choice(x) if rng.random() < 0.5 else den * rng.randint(-8, 8) for _ in range(n)]
                if dtype.startswith('uint'):
                    y = [abs(v) for v in y]
                yield {'x': x, 'y': y, 'den': den, 'dtype': dtype}
        n_long = 40 if tier == 'quick' else 500
        for k in range(n_long):
            m = rng.randint(4, 24)
            n = rng.randint(1, m - 1)
            dtype = ['float64', 'int16', 'float32', 'int32', 'uint16', 'int8', 'uint64'][k % 7]
            x, den = _rand_values(rng, m, dtype, ['rand', 'small', 'ramp'][k % 3])
            kind = k % 5
            pos = rng.randint(0, m - n)
            ydtype = None
            if kind == 0:      # the pattern is a piece of the trace
                y = x[pos:pos + n]
            elif kind == 1:    # negated piece: x + y constant on that window
                y = [-v for v in x[pos:pos + n]]
                ydtype = 'int16' if dtype.startswith('uint') else None
            elif kind == 2:    # constant pattern
                y = [den * rng.randint(0, 5)] * n
            else:
                y = [den * rng.randint(0, 20) for _ in range(n)]
                ydtype = rng.choice([None, 'float64', 'int32'])
            yield {'x': x, 'y': y, 'den': den, 'dtype': dtype, 'ydtype': ydtype}
        # memory layouts of trace and pattern
        nl = 3 if tier == 'quick' else 12
        for layout in [l for l in LAYOUTS if l not in ('fortran', 'transposed')] + ['zerostride']:
            for k in range(nl):
                m = rng.randint(4, 14)
                n = rng.randint(1, m - 1)
                dtype = ['float64', 'float64', 'int16', 'float32'][k % 4]
                x, den = _rand_values(rng, m, dtype, 'rand')
                y = [den * rng.randint(-8, 8) for _ in range(n)]
                if layout == 'zerostride':
                    if k % 2:
                        x = [x[0]] * m
                    else:
                        y = [y[0]] * n
                    yield {'x': x, 'y': y, 'den': den, 'dtype': dtype, 'layout': 'zerostride' if k % 2 else 'c',
                           'ylayout': 'c' if k % 2 else 'zerostride'}
                else:
                    yield {'x': x, 'y': y, 'den': den, 'dtype': dtype, 'layout': layout, 'ylayout': [layout, 'c', 'strided'][k % 3]}

    def build(self, case):
        x = _logical(case['x'], case['den'], case['dtype'], [len(case['x'])])
        y = _logical(case['y'], case['den'], case.get('ydtype') or case['dtype'], [len(case['y'])])
        return [_relayout(x, case.get('layout')), _relayout(y, case.get('ylayout'))]

    def invoke(self, arrs, case, keep=None):
        from scared import signal_processing as sp
        x, y = arrs
        out = {}
        for fn in case.get('fns', PD_FNS):
            r = getattr(sp, fn)(x, y)
            if keep is not None:
                keep.append(r)
            out[fn] = _flat(r)
        return out

    def coq(self, case, obs):
        x = [v / case['den'] for v in case['x']]
        y = [v / case['den'] for v in case['y']]

        def opt(k):
            return '(Some %s)' % C.coq_list(obs[k], F) if k in obs else 'None'
        return '{| pd_x := %s; pd_y := %s; pd_corr := %s; pd_dist := %s; pd_bcdc := %s |}' % (
            C.coq_list(x, F), C.coq_list(y, F), opt('correlation'), opt('distance'), opt('bcdc'))

    def nontrivial(self, case, obs):
        return len(case['y']) >= 2 and len(set(case['x'])) >= 2 and len(set(case['y'])) >= 2

    def features(self, case, obs):
        return {'n': min(len(case['y']), 8), 'dtype': case['dtype'], 'layout': case.get('layout', 'c'),
                'undefined_corr': sum(1 for v in obs.get('correlation', []) if v != v or abs(v) == float('inf')) > 0}

    def tags(self, case, obs):
        return ['pattern']

    def shrink(self, case):
        x, y = case['x'], case['y']
        if len(x) > len(y) + 1 and case.get('layout') != 'zerostride':
            yield dict(case, x=x[1:])
            yield dict(case, x=x[:-1])

    def histories(self, rng, tier):
        n = 30 if tier == 'quick' else 200
        for k in range(n):
            m = rng.randint(4, 12)
            nn = rng.randint(1, m - 1)
            dtype = ['float64', 'float64', 'int16', 'float32'][k % 4]
            x0, den = _rand_values(rng, m, dtype, 'rand')
            x0 = [den * (v // den) for v in x0]
            x1 = [den * (v // den) for v in _perturb(rng, x0, dtype)]
            y0 = [den * rng.randint(-8, 8) for _ in range(nn)]
            y1 = [den * rng.randint(-8, 8) for _ in range(nn)]
            layout = rng.choice(WRITABLE_LAYOUTS)
            fns = rng.sample(PD_FNS, rng.randint(1, 3))

            def st(buf, x, y, f):
                return {'buf': buf, 'case': {'x': x, 'y': y, 'den': den, 'dtype': dtype, 'layout': layout, 'fns': f}}
            pat = k % 4
            if pat == 0:
                yield [st('A', x0, y0, fns), st('A', x1, y0, fns)]
            elif pat == 1:
                yield [st('A', x0, y0, fns), st('A', x0, y1, fns), st('A', x1, y1, PD_FNS)]
            elif pat == 2:
                yield [st('A', x0, y0, fns), st('B', x0, y0, fns), st('A', x1, y0, fns), st('B', x1, y1, fns)]
            else:
                yield [st('A', x0, y0, [f]) for f in fns] + [st('A', x1, y0, [f]) for f in fns][:2]


# ------------------------------------------------------------------------------------------------ pad
def _form(v, form):
    if form in ('uint8', 'int16', 'uint16', 'int32'):
        return np.array(v, dtype=form)
    return tuple(v) if form == 'tuple' else np.array(v, dtype='int64') if form == 'ndarray' else list(v)


class PadKind(Base):
    name = 'pad'
    header = HDR_S
    case_type = 'pad_case'
    check_fn = 'pad_check'
    explain_fn = 'pad_expected'
    shard = 150
    rule = ('pad(array, target_shape, offsets, pad_with) on 1-D..3-D arrays of every integer width and both float dtypes: every offset of '
            'every small 1-D and 2-D placement, offsets None, target too small (ValueError expected); target / offsets as list, tuple, '
            'ndarray, pad_with as Python or numpy scalar; the array as strided / negative-stride / Fortran / transposed / offset / column / '
            'read-only / zero-stride / big-endian; non-trivial = target strictly larger than the array')

    def gen(self, rng, tier):
        # every placement of small 1-D and 2-D arrays
        for n in (1, 2, 3):
            for t in range(n - 1, n + 3):
                for off in range(0, 4):
                    yield self._case(rng, [n], [max(t, 0)], [off])
        for shape in ([1, 2], [2, 2], [2, 3]):
            for tgt in ([3, 4], [2, 3], [4, 3]):
                for offs in itertools.product(range(3), repeat=2):
                    yield self._case(rng, shape, tgt, list(offs))
        n = 60 if tier == 'quick' else 800
        for k in range(n):
            nd = rng.randint(1, 3)
            shape = [rng.randint(1, 4) for _ in range(nd)]
            offs = [rng.randint(0, 3) for _ in range(nd)]
            tgt = [s + o + rng.choice([0, 0, 1, 2, -1 if k % 7 == 0 else 0]) for s, o in zip(shape, offs)]
            tgt = [max(t, 0) for t in tgt]
            c = self._case(rng, shape, tgt, offs if k % 9 else None)
            c.update(tform=rng.choice(['list', 'tuple', 'ndarray', 'uint8', 'int32']), oform=rng.choice(['list', 'tuple', 'ndarray', 'uint8', 'int16', 'uint16']),
                     pw_np=rng.random() < 0.3)
            yield c
        nl = 3 if tier == 'quick' else 12
        for layout in LAYOUTS + ['zerostride']:
            for k in range(nl):
                nd = rng.randint(1, 3)
                shape = [rng.randint(2, 4) for _ in range(nd)]
                offs = [rng.randint(0, 2) for _ in range(nd)]
                tgt = [s + o + rng.randint(0, 2) for s, o in zip(shape, offs)]
                c = self._case(rng, shape, tgt, offs)
                if layout == 'zerostride':
                    inner = int(np.prod(shape[1:]))
                    c['values'] = c['values'][:inner] * shape[0]
                c['layout'] = layout
                yield c

    @staticmethod
    def _case(rng, shape, tgt, offs):
        dtype = rng.choice(ALL_DTYPES)
        lo = 1 if dtype.startswith('uint') else -50
        return {'shape': shape, 'target': tgt, 'offsets': offs, 'dtype': dtype, 'den': 1,
                'values': [rng.randint(lo, 50) for _ in range(int(np.prod(shape)))],
                'pad_with': rng.choice([0, 0, 0, 7, 0 if dtype.startswith('uint') else -3])}

    def build(self, case):
        return [_relayout(_arr(case), case.get('layout'))]

    def invoke(self, arrs, case, keep=None):
        from scared import signal_processing as sp
        a = arrs[0]
        kw = {}
        if case['pad_with'] != 0:
            kw['pad_with'] = np.dtype(case['dtype']).type(case['pad_with']) if case.get('pw_np') else case['pad_with']
        tgt = _form(case['target'], case.get('tform'))
        try:
            if case['offsets'] is not None:
                r = sp.pad(a, tgt, _form(case['offsets'], case.get('oform')), **kw)
            else:
                r = sp.pad(a, tgt, **kw)
        except ValueError as e:
            return {'rejected': 'ValueError', 'msg': str(e)[:100]}
        if keep is not None:
            keep.append(r)
        return {'shape': list(r.shape), 'values': _flat_int(r), 'dtype_kept': (r.dtype.kind, r.dtype.itemsize) == (a.dtype.kind, a.dtype.itemsize),
                'integral': bool(np.all(r == np.round(r)))}

    def coq(self, case, obs):
        offs = case['offsets'] if case['offsets'] is not None else [0] * len(case['shape'])
        ob = 'None' if ('rejected' in obs or 'raised' in obs) else '(Some %s)' % C.coq_list(obs['values'], C.coq_z)
        return '{| pa_shape := %s; pa_in := %s; pa_target := %s; pa_offs := %s; pa_with := %s; pa_obs := %s |}' % (
            C.coq_list(case['shape'], C.coq_nat), C.coq_list(case['values'], C.coq_z), C.coq_list(case['target'], C.coq_nat),
            C.coq_list(offs, C.coq_nat), C.coq_z(case['pad_with']), ob)

    def extra_oracle(self, case, obs):
        if 'rejected' in obs:
            return None
        if obs['shape'] != case['target']:
            return f'pad returned shape {obs["shape"]} instead of {case["target"]}'
        if not obs['integral'] or not obs['dtype_kept']:
            return 'pad changed the dtype or the values'
        return None

    def nontrivial(self, case, obs):
        return 'values' in obs and int(np.prod(case['target'])) > len(case['values'])

    def features(self, case, obs):
        return {'ndim': len(case['shape']), 'rejected': 'rejected' in obs, 'offsets_none': case['offsets'] is None, 'layout': case.get('layout', 'c')}

    def tags(self, case, obs):
        return ['pad']

    def histories(self, rng, tier):
        n = 20 if tier == 'quick' else 150
        for k in range(n):
            nd = rng.randint(1, 2)
            shape = [rng.randint(1, 4) for _ in range(nd)]
            c0 = self._case(rng, shape, [s + 3 for s in shape], [rng.randint(0, 3) for _ in shape])
            c0['layout'] = rng.choice(WRITABLE_LAYOUTS)
            c1 = dict(c0, values=[v + 1 for v in c0['values']])
            c2 = dict(c1, offsets=[rng.randint(0, 3) for _ in shape], pad_with=7)
            yield [{'buf': 'A', 'case': c0}, {'buf': 'A', 'case': c1}, {'buf': 'B', 'case': c0}, {'buf': 'A', 'case': c2}][:2 + k % 3]


# ------------------------------------------------------------------------------------------------ extract_around_indexes
EX_MODES = {'stack': 'ExStack', 'concatenate': 'ExConcat', 'average': 'ExAverage'}
IDX_DTYPES = ['int64', 'int32', 'int16', 'int8', 'uint8', 'uint16', 'uint32']        # uint64 indexes are refused by numpy.take


class ExtractKind(Base):
    name = 'extract'
    header = HDR_S
    case_type = 'ex_case'
    check_fn = 'ex_check'
    explain_fn = 'ex_expected'
    shard = 100
    rule = ('extract_around_indexes(data, indexes, before, after, mode) for the three modes: in-range indexes (first / last admissible '
            'position, repeats, unsorted, empty index array), before/after 0..4, data of every integer width and both float dtypes, index '
            'arrays of every integer dtype numpy.take accepts; also negative positions (numpy wrap-around) and positions past the end '
            '(IndexError); data and indexes as strided / negative-stride / offset / column / read-only / zero-stride / big-endian arrays; '
            'non-trivial = at least two indexes and before + after >= 1')

    def gen(self, rng, tier):
        n = 70 if tier == 'quick' else 900
        for k in range(n):
            yield self._case(rng, k)
        # indexes = the array returned by find_peaks (int32) / the start column of find_width (strided int64 view)
        for k in range(12 if tier == 'quick' else 100):
            c = self._case(rng, k % 8)
            lo, hi = c['before'] + 1, c['shape'][0] - 2 - c['after']
            cand = list(range(lo, hi + 1, 2))           # isolated positions (not adjacent)
            if not cand:
                continue
            c['indexes'] = sorted(rng.sample(cand, min(len(cand), rng.randint(1, 4))))
            c['idx_from'] = ['peaks', 'width'][k % 2]
            c['idx_dtype'] = 'int32'
            yield c
        nl = 3 if tier == 'quick' else 12
        for layout in [l for l in LAYOUTS if l not in ('fortran', 'transposed')] + ['zerostride']:
            for k in range(nl):
                c = self._case(rng, k % 8)
                if layout == 'zerostride':
                    if k % 2 and c['indexes']:
                        c['indexes'] = [c['indexes'][0]] * len(c['indexes'])
                        c['ilayout'] = layout
                    else:
                        c['values'] = [c['values'][0]] * len(c['values'])
                        c['layout'] = layout
                else:
                    c['layout'] = layout
                    c['ilayout'] = [layout, 'c', 'strided'][k % 3]
                yield c

    @staticmethod
    def _case(rng, k):
        mode = ['stack', 'concatenate', 'average'][k % 3]
        L = rng.randint(1, 14)
        dtype = rng.choice(ALL_DTYPES)
        vals, den = _rand_values(rng, L, dtype, 'rand')
        before, after = rng.randint(0, 4), rng.randint(0, 4)
        lo, hi = before, L - 1 - after
        kind = k % 10
        idt = rng.choice(IDX_DTYPES)
        if kind == 9 or lo > hi:           # out of range somewhere (wrap-around or IndexError)
            idx = [rng.randint(-L - 2, L + 2) for _ in range(rng.randint(1, 4))]
            idt = rng.choice(['int64', 'int32', 'int8'])
        elif kind == 8:
            idx = []
        else:
            idx = [rng.choice([lo, hi, rng.randint(lo, hi)]) for _ in range(rng.randint(1, 5))]
        return {'values': vals, 'den': den, 'dtype': dtype, 'shape': [L], 'indexes': idx, 'before': before, 'after': after,
                'mode': mode, 'idx_dtype': idt}

    def build(self, case):
        idx = None
        src = case.get('idx_from')
        if src:             # the index array is the very object find_peaks / find_width returned (int32 array / column view of int64 rows)
            from scared import signal_processing as sp
            sig = np.zeros(case['shape'][0] + 2)
            if src == 'peaks':
                sig[case['indexes']] = 1.0
                got = sp.find_peaks(sig, 0, 0.5)
            else:
                for i in case['indexes']:
                    sig[i] = 1.0                      # isolated one-sample runs starting at the indexes
                got = sp.find_width(sig, sp.Direction.POSITIVE, 0.5, 1)[:, 0]
            if [int(v) for v in got.tolist()] == list(case['indexes']):
                idx = got
        if idx is None:
            idx = _relayout(np.array(case['indexes'], dtype=case['idx_dtype']), case.get('ilayout'))
        return [_relayout(_arr(case), case.get('layout')), idx]

    def invoke(self, arrs, case, keep=None):
        from scared import signal_processing as sp
        a, idx = arrs
        try:
            r = sp.extract_around_indexes(a, idx, case['before'], case['after'], sp.ExtractMode(case['mode']))
        except IndexError as e:
            return {'rejected': 'IndexError', 'msg': str(e)[:100]}
        if keep is not None:
            keep.append(r)
        return {'shape': list(r.shape), 'values': _flat(r)}

    def coq(self, case, obs):
        ob = 'None' if ('rejected' in obs or 'raised' in obs) else '(Some (%s, %s))' % (
            C.coq_list(obs['shape'], C.coq_nat), C.coq_list(obs['values'], F))
        return '{| ex_data := %s; ex_prec := %s; ex_idx := %s; ex_before := %s; ex_after := %s; ex_mode := %s; ex_obs := %s |}' % (
            C.coq_list(_flat(_arr(case)), F), 'F32' if case['dtype'] == 'float32' else 'F64', C.coq_list(case['indexes'], C.coq_z), C.coq_nat(case['before']), C.coq_nat(case['after']),
            EX_MODES[case['mode']], ob)

    def nontrivial(self, case, obs):
        return 'values' in obs and len(case['indexes']) >= 2 and case['before'] + case['after'] >= 1

    def features(self, case, obs):
        return {'mode': case['mode'], 'rejected': 'rejected' in obs, 'n_idx': min(len(case['indexes']), 5), 'layout': case.get('layout', 'c')}

    def tags(self, case, obs):
        return ['extract', 'extract_' + case['mode']]

    def shrink(self, case):
        idx = case['indexes']
        for i in range(len(idx)):
            if len(idx) > 1 and case.get('ilayout') != 'zerostride':
                yield dict(case, indexes=idx[:i] + idx[i + 1:])

    def histories(self, rng, tier):
        n = 24 if tier == 'quick' else 150
        for k in range(n):
            c0 = self._case(rng, k % 8)
            if not c0['indexes']:
                continue
            c0['layout'] = rng.choice(WRITABLE_LAYOUTS)
            c0['idx_dtype'] = 'int64'
            c1 = dict(c0, values=_perturb(rng, c0['values'], c0['dtype']))
            lo, hi = c0['before'], c0['shape'][0] - 1 - c0['after']
            c2 = dict(c1, indexes=[rng.randint(lo, hi) if lo <= hi else i for i in c0['indexes']], mode=rng.choice(list(EX_MODES)))
            yield [{'buf': 'A', 'case': c0}, {'buf': 'A', 'case': c1}, {'buf': 'A', 'case': c2}, {'buf': 'B', 'case': c0}][:2 + k % 3]


# ------------------------------------------------------------------------------------------------ find_peaks / find_width
def _signals(alphabet, nmax):
    for n in range(0, nmax + 1):
        for t in itertools.product(alphabet, repeat=n):
            yield list(t)


def _mask(st):
    """Set of small naturals -> bit mask (see Model/Peaks.v: unmask)."""
    return sum(1 << v for v in st)


def _zheight(h):
    return 'ZNegInf' if h == '-inf' else 'ZPosInf' if h == '+inf' else '(ZFin %s)' % C.coq_z(h)


def _data_array(case):
    """1-D data: numerators / den; integer dtypes require integral values."""
    return _relayout(_logical(case['data'], case['den'], case['dtype'], [len(case['data'])]), case.get('layout'))


def _scalar(num, den, form):
    """A threshold / height numerator over den as the object given to the code: Python float (default), Python int when
    form == 'int' and the value is integral, numpy.float64 when form == 'np'."""
    if form == 'int' and num % den == 0:
        return num // den
    v = num / den            # exact: dyadic value
    return np.float64(v) if form == 'np' else v


ULP_DEN = 2 ** 53          # small integers and their float64 neighbours are integers over 2^53


def _ulp_neighbours(v):
    """Numerators over 2^53 of: the float64 just below v, v, the float64 just above v (v a small non-negative integer;
    for 0 the values -2^-53, 0, 2^-53)."""
    import math
    if v == 0:
        return [-1, 0, 1]
    up = int((math.nextafter(float(v), math.inf) - v) * ULP_DEN)
    dn = int((v - math.nextafter(float(v), -math.inf)) * ULP_DEN)
    return [v * ULP_DEN - dn, v * ULP_DEN, v * ULP_DEN + up]


class PeaksKind(Base):
    name = 'find_peaks'
    header = HDR_P
    case_type = 'pk_case'
    check_fn = 'pk_check'          # property clauses only, on the observed result
    corr_fn = 'pk_corr'            # equality with the repaired scan of the model (tie-breaking is not part of the property)
    explain_fn = 'pk_expected'
    shard = 400
    rule = ('find_peaks(data, d, h): EVERY 1-D signal of length 0..7 (quick) / 0..9 (thorough) over a 3-value alphabet x every '
            'distance 0..len+1 x heights {-inf, negative, below, each value, between, above, +inf}, the dtype cycling through float64, '
            'float32 and the 8 integer dtypes (so integer samples meet fractional and negative heights, given as Python float / int / '
            'numpy.float64); 4-value alphabet sampled (quick) / every signal of length 0..8 (thorough); heights one float64 ulp below / '
            'on / above float64 and float32 samples; signed samples containing the dtype minimum; the signal as strided / negative-stride / offset / column / read-only / zero-stride array; plateaus, '
            'ties, peaks at both ends and every last sample are all in that block; random signals of length 10..80 with random '
            'distances and heights; the D10 regression signal; check_fn: candidates only, ascending and >= d apart, every '
            'dropped candidate dominated (property level); corr_fn: equality with the repaired scan (correspondence level); '
            'non-trivial = at least two candidates and d >= 2')

    def gen(self, rng, tier):
        heights3 = ['-inf', -3, 1, 2, 3, 4, 5, '+inf']          # numerators over den = 2 : data values 0, 1, 2 are 0, 2, 4
        # D10 regression signal and variants of its last sample
        for last in (4, 0, 1, 7):
            yield {'data': [2, 0, 4, 0, 6, 0, 0, 0, 0, 0, 0, 2 * last], 'den': 2, 'dtype': 'float64', 'grid': None,
                   'queries': [[d, h] for d in range(0, 14) for h in ('-inf', 1)]}
        nmax = 7 if tier == 'quick' else 9
        for k, sig in enumerate(_signals([0, 2, 4], nmax)):
            n = len(sig)
            hs = heights3 if n <= 5 else ['-inf', 1, 2, 3, 4] if n <= 7 else ['-inf', 2, 3, 4]
            c = self._grid_case(sig, 2, ALL_DTYPES[k % len(ALL_DTYPES)], hs, n + 2)
            c['hform'] = ['float', 'np', 'int'][k % 3]
            yield c
        # 4-value alphabet: sampled (quick) / every signal of length <= 8 with two of the six height positions (thorough)
        h4 = ['-inf', 0, 1, 2, 3, 4]
        if tier == 'quick':
            for _ in range(2500):
                n = rng.randint(4, nmax + 1)
                sig = [rng.choice([0, 1, 2, 3]) for _ in range(n)]
                yield self._grid_case(sig, 1, rng.choice(['int16', 'uint8', 'float64', 'int64']), rng.sample(h4, 3), n + 2)
        else:
            for sig in _signals([0, 1, 2, 3], 8):
                n = len(sig)
                yield self._grid_case(sig, 1, ['int16', 'uint8', 'float64', 'int64'][n % 4], rng.sample(h4, 2), n + 2)
        # heights one float64 ulp away from the samples
        nu = 60 if tier == 'quick' else 600
        for k in range(nu):
            n = rng.randint(2, 8)
            sig = [rng.randint(0, 3) for _ in range(n)]
            hs = sorted({h for v in set(sig) for h in _ulp_neighbours(v)})
            # float32 samples: the height is not a float32 value (D17: it must not be rounded to the dtype of the data)
            yield self._grid_case([v * ULP_DEN for v in sig], ULP_DEN, ['float64', 'float32', 'float32'][k % 3], hs, 4)
        # signed samples containing the lowest value of their dtype
        for dt in ('int8', 'int16', 'int32', 'int64'):
            mn = int(np.iinfo(dt).min)
            for _ in range(4 if tier == 'quick' else 30):
                n = rng.randint(1, 7)
                sig = [rng.choice([mn, mn, mn + 1, 0, -1, 3]) for _ in range(n)]
                c = self._grid_case(sig, 1, dt, ['-inf', mn, mn + 1, -1, 0], n + 2)
                c['hform'] = 'int'
                yield c
        # memory layouts
        nl = 6 if tier == 'quick' else 40
        for layout in ['strided', 'neg', 'offset', 'column', 'readonly', 'zerostride']:
            for k in range(nl):
                n = rng.randint(2, 9)
                sig = [2 * rng.randint(0, 3) for _ in range(n)] if layout != 'zerostride' else [2 * rng.randint(0, 3)] * n
                c = self._grid_case(sig, 2, ['float64', 'int16', 'uint8', 'float32', 'int64', 'float64'][k % 6], ['-inf', 1, 2, 4], n + 2)
                c['layout'] = layout
                yield c
        # random longer signals
        nl = 300 if tier == 'quick' else 6000
        for k in range(nl):
            n = rng.randint(10, 80)
            style = k % 4
            if style == 0:
                sig = [rng.randint(0, 3) for _ in range(n)]
            elif style == 1:
                sig = [rng.randint(-40, 40) for _ in range(n)]
            elif style == 2:      # sparse peaks on a flat floor (plateaus everywhere)
                sig = [rng.randint(1, 9) if rng.random() < 0.25 else 0 for _ in range(n)]
            else:                 # random walk
                sig, v = [], 0
                for _ in range(n):
                    v += rng.randint(-2, 2)
                    sig.append(v)
            den = rng.choice([1, 2, 4])
            dtype = rng.choice(['float64', 'float32'])
            if k % 3 == 0:        # integer samples, thresholds on half-integers as well
                sig = [den * v for v in sig]
                dtype = rng.choice(['int32', 'int16', 'int64', 'int8'] + (['uint8', 'uint16', 'uint32', 'uint64'] if min(sig) >= 0 else []))
            lo, hi = min(sig), max(sig)
            qs = []
            for _ in range(6):
                d = rng.choice([0, 1, 2, 3, rng.randint(2, 12), rng.randint(2, n + 2)])
                h = rng.choice(['-inf', '-inf', rng.randint(lo - 1, hi + 1), '+inf' if rng.random() < 0.1 else lo])
                qs.append([d, h])
            yield {'data': sig, 'den': den, 'dtype': dtype, 'queries': qs, 'grid': None, 'hform': ['float', 'np', 'int'][k % 3],
                   'layout': rng.choice(['c', 'c', 'strided', 'neg', 'offset'])}

    @staticmethod
    def _grid_case(sig, den, dtype, hs, nd):
        return {'data': sig, 'den': den, 'dtype': dtype, 'grid': {'hs': hs, 'nd': nd},
                'queries': [[d, h] for h in hs for d in range(nd)]}

    def build(self, case):
        return [_data_array(case)]

    def invoke(self, arrs, case, keep=None):
        from scared import signal_processing as sp
        a = arrs[0]
        out = []
        for d, h in case['queries']:
            hv = -np.inf if h == '-inf' else np.inf if h == '+inf' else _scalar(h, case['den'], case.get('hform'))
            r = sp.find_peaks(a, d, hv)
            if keep is not None:
                keep.append(r)
            out.append(_flat_int(r))
        return {'peaks': out}

    def coq(self, case, obs):
        peaks = obs.get('peaks', [[] for _ in case['queries']])
        n = len(case['data'])
        grid = case.get('grid')
        if grid and n <= 12 and all(all(0 <= p < n for p in pk) and all(a < b for a, b in zip(pk, pk[1:])) for pk in peaks):
            return '{| pk_data := %s; pk_queries := []; pk_hs := %s; pk_nd := %s; pk_masks := %s%%N |}' % (
                C.coq_list(case['data'], C.coq_z), C.coq_list(grid['hs'], _zheight), C.coq_nat(grid['nd']),
                C.coq_list([_mask(pk) for pk in peaks]))
        qs = ['pkq %d %s %s%%nat' % (d, _zheight(h), C.coq_list([p if 0 <= p < 5000 else 4999 for p in pk]))
              for (d, h), pk in zip(case['queries'], peaks)]
        return '{| pk_data := %s; pk_queries := %s; pk_hs := []; pk_nd := 0; pk_masks := [] |}' % (
            C.coq_list(case['data'], C.coq_z), C.coq_list(qs))

    def nontrivial(self, case, obs):
        return any(d >= 2 for d, _ in case['queries']) and len(set(case['data'])) >= 2 and len(case['data']) >= 3

    def features(self, case, obs):
        n = len(case['data'])
        return {'len': n if n <= 9 else '10+', 'dtype': case['dtype'], 'layout': case.get('layout', 'c'), 'hform': case.get('hform', 'float')}

    def tags(self, case, obs):
        t = ['find_peaks']
        if case['dtype'] in ('float32', 'float16') and case['den'] == ULP_DEN:
            t.append('peaks_float32_threshold_rounded')
        return t

    def sample(self, case, obs):
        return {'case': dict(case, queries=case['queries'][:4]), 'observed': {'peaks': obs.get('peaks', [])[:4]}}

    def shrink(self, case):
        qs = case['queries']
        if len(qs) > 1:
            h = len(qs) // 2
            yield dict(case, queries=qs[:h], grid=None)
            yield dict(case, queries=qs[h:], grid=None)
        elif case.get('layout') != 'zerostride':
            data = case['data']
            for i in range(len(data)):
                yield dict(case, data=data[:i] + data[i + 1:], grid=None)

    def histories(self, rng, tier):
        n = 60 if tier == 'quick' else 500
        for k in range(n):
            m = rng.randint(3, 12)
            dtype = ['float64', 'int16', 'uint8', 'float32', 'int64'][k % 5]
            s0 = [2 * rng.randint(0, 4) for _ in range(m)]
            s1 = list(s0)
            for _ in range(rng.randint(1, 3)):
                s1[rng.randrange(m)] = 2 * rng.randint(0, 5)
            if s1 == s0:
                s1[m // 2] = s0[m // 2] + 2
            layout = rng.choice(['c', 'strided', 'neg', 'offset', 'column'])

            def st(buf, sig):
                return {'buf': buf, 'case': {'data': sig, 'den': 2, 'dtype': dtype, 'grid': None, 'layout': layout, 'hform': ['float', 'np'][k % 2],
                                             'queries': [[rng.randint(0, m), rng.choice(['-inf', 1, 2, 3, 4, 5])] for _ in range(2)]}}
            yield [st('A', s0), st('A', s1), st('B', s0), st('A', s0)][:2 + k % 3]


def _zwmode(m):
    return {'min': 'ZWMin %d', 'minmax': 'ZWMinMax %d %d', 'delta': 'ZWDelta %d %d', 'minmaxdelta': 'ZWMinMaxDelta %d %d %d'}[m[0]] % tuple(m[1:])


def _modes(rng, n, k, boundary=4):
    """k random valid (mode, parameters) + the boundary ones."""
    out = [['min', 1], ['min', 2], ['minmax', 1, 1], ['delta', 2, 1]][:boundary]
    for _ in range(k):
        r = rng.random()
        mn = rng.randint(1, max(1, n))
        if r < 0.3:
            out.append(['min', mn])
        elif r < 0.6:
            out.append(['minmax', mn, rng.randint(1, max(1, n))])
        elif r < 0.9:
            mn = rng.randint(2, max(2, n))
            out.append(['delta', mn, rng.randint(1, mn - 1)])
        else:
            out.append(['minmaxdelta', mn, rng.randint(1, max(1, n)), rng.randint(1, 3)])
    return out


WIDTH_DTYPES = ALL_DTYPES + ['float16']
UNSIGNED = ['uint8', 'uint16', 'uint32', 'uint64']


class WidthKind(Base):
    name = 'find_width'
    header = HDR_P
    case_type = 'fw_case'
    check_fn = 'fw_check'
    explain_fn = 'fw_expected'
    shard = 400
    rule = ('find_width(data, direction, threshold, min_width[, max_width][, delta]): EVERY signal of length 0..7 (quick) / 0..9 '
            '(thorough) over a 3-value alphabet x both directions x every threshold position (negative, below, on each value, between, '
            'above; Python float / int / numpy.float64) x width modes (min 1, min 2, [1,1], 2+-1 and random valid ones incl. max_width '
            'with delta), the dtype cycling through float64, float32, float16 and the 8 integer widths; unsigned data up to the dtype '
            'maximum and signed data containing the dtype minimum in both directions; thresholds one float64 ulp below / on / above '
            'float64 / float32 / float16 samples; strided / negative-stride / offset / column / '
            'read-only / zero-stride / big-endian data; runs touching either end, adjacent runs, whole-signal runs are in that block; '
            'random longer signals; compared with the brute-force enumeration of bracketed maximal runs and with the gap '
            'construction; non-trivial = at least one row returned')

    def gen(self, rng, tier):
        nmax = 7 if tier == 'quick' else 9
        thr3 = [-1, 0, 1, 2, 3, 4, 5]                          # numerators over den = 2 for data values 0, 2, 4
        for k, sig in enumerate(_signals([0, 2, 4], nmax)):
            n = len(sig)
            thrs = [-3] + thr3 if n <= 5 else thr3[1:-1]
            modes = _modes(rng, n, 2, boundary=4) if n <= 5 else _modes(rng, n, 2, boundary=2) if n <= 7 else _modes(rng, n, 2, boundary=1)
            yield {'data': sig, 'den': 2, 'dtype': WIDTH_DTYPES[k % len(WIDTH_DTYPES)], 'grid': {'thrs': thrs, 'modes': modes},
                   'tform': ['float', 'np', 'int'][k % 3],
                   'queries': [[dr, t, m] for dr in ('positive', 'negative') for t in thrs for m in modes]}
        # unsigned samples (larger values), both directions (D16: Direction.POSITIVE must not negate the data)
        nu = 120 if tier == 'quick' else 1200
        for k in range(nu):
            n = rng.randint(1, 9)
            dt = UNSIGNED[k % 4]
            top = int(np.iinfo(dt).max) if dt != 'uint64' else 2 ** 53
            pool = [0, 5, 200, top, top - 1]
            sig = [rng.choice(pool) for _ in range(n)]
            thrs = rng.sample([-1, 0, 5, 100, 200, top - 1, top], 3)
            modes = _modes(rng, n, 1, boundary=1)
            yield {'data': sig, 'den': 1, 'dtype': dt, 'grid': {'thrs': thrs, 'modes': modes}, 'tform': ['int', 'float', 'np'][k % 3],
                   'queries': [[dr, t, m] for dr in ('positive', 'negative') for t in thrs for m in modes]}
        # signed samples containing the lowest value of their dtype (D16: -data wraps there)
        for dt in ('int8', 'int16', 'int32', 'int64'):
            mn = int(np.iinfo(dt).min)
            for _ in range(12 if tier == 'quick' else 120):
                n = rng.randint(1, 8)
                sig = [rng.choice([mn, mn, mn + 1, 0, -1, 3]) for _ in range(n)]
                thrs, modes = [mn, mn + 1, -1, 0], _modes(rng, n, 1, boundary=1)
                yield {'data': sig, 'den': 1, 'dtype': dt, 'grid': {'thrs': thrs, 'modes': modes}, 'tform': 'int',
                       'queries': [[dr, t, m] for dr in ('positive', 'negative') for t in thrs for m in modes]}
        # thresholds one float64 ulp away from the samples; float32 / float16 samples: the threshold is not a value of the
        # dtype of the data (D17: it must not be rounded to that dtype)
        nu = 60 if tier == 'quick' else 600
        for k in range(nu):
            n = rng.randint(2, 8)
            sig = [rng.randint(0, 3) for _ in range(n)]
            thrs = sorted({h for v in set(sig) for h in _ulp_neighbours(v)})
            modes = _modes(rng, n, 1, boundary=1)
            yield {'data': [v * ULP_DEN for v in sig], 'den': ULP_DEN, 'dtype': ['float64', 'float32', 'float16'][k % 3],
                   'grid': {'thrs': thrs, 'modes': modes},
                   'queries': [[dr, t, m] for dr in ('positive', 'negative') for t in thrs for m in modes]}
        # memory layouts
        nl = 6 if tier == 'quick' else 40
        for layout in ['strided', 'neg', 'offset', 'column', 'readonly', 'bigendian', 'zerostride']:
            for k in range(nl):
                n = rng.randint(2, 9)
                sig = [2 * rng.randint(0, 2) for _ in range(n)] if layout != 'zerostride' else [2 * rng.randint(0, 2)] * n
                thrs, modes = [0, 1, 2, 3], _modes(rng, n, 1, boundary=2)
                yield {'data': sig, 'den': 2, 'dtype': ['float64', 'int16', 'float32', 'uint16', 'int64', 'uint8'][k % 6], 'grid': {'thrs': thrs, 'modes': modes},
                       'layout': layout, 'queries': [[dr, t, m] for dr in ('positive', 'negative') for t in thrs for m in modes]}
        nl = 300 if tier == 'quick' else 6000
        for k in range(nl):
            n = rng.randint(8, 60)
            if k % 3 == 0:
                sig = [rng.randint(0, 2) for _ in range(n)]
            elif k % 3 == 1:      # long runs
                sig, v = [], rng.randint(0, 3)
                for _ in range(n):
                    if rng.random() < 0.3:
                        v = rng.randint(0, 3)
                    sig.append(v)
            else:
                sig = [rng.randint(-20, 20) for _ in range(n)]
            den = rng.choice([1, 2, 2])
            dtype = rng.choice(['float64', 'float32'])
            if k % 2 == 0:        # integer samples, thresholds on half-integers as well
                sig = [den * v for v in sig]
                dtype = rng.choice(['int32', 'int16', 'int64', 'int8'] + (UNSIGNED if min(sig) >= 0 else []))
            qs = [[rng.choice(['positive', 'negative']), rng.randint(min(sig) - 1, max(sig) + 1), m] for m in _modes(rng, min(n, 10), 3)]
            yield {'data': sig, 'den': den, 'dtype': dtype, 'queries': qs, 'grid': None, 'tform': ['float', 'np', 'int'][k % 3],
                   'layout': rng.choice(['c', 'c', 'strided', 'neg', 'offset'])}

    def build(self, case):
        return [_data_array(case)]

    def invoke(self, arrs, case, keep=None):
        from scared import signal_processing as sp
        a = arrs[0]
        out = []
        for dr, t, m in case['queries']:
            thr = _scalar(t, case['den'], case.get('tform'))
            direction = sp.Direction.POSITIVE if dr == 'positive' else sp.Direction.NEGATIVE
            kw = {}
            if m[0] in ('minmax', 'minmaxdelta'):
                kw['max_width'] = m[2]
            if m[0] == 'delta':
                kw['delta'] = m[2]
            if m[0] == 'minmaxdelta':
                kw['delta'] = m[3]
            r = np.asarray(sp.find_width(a, direction, thr, m[1], **kw))
            if r.ndim != 2 or r.shape[1] != 2:
                return {'raised': 'BadShape', 'msg': str(r.shape)}
            if keep is not None:
                keep.append(r)
            out.append([[int(v[0]), int(v[1])] for v in r.tolist()])
        return {'rows': out}

    def coq(self, case, obs):
        rows = obs.get('rows', [[] for _ in case['queries']])
        n = len(case['data'])
        grid = case.get('grid')

        def ok(rw):
            st, en = [a for a, _ in rw], [b for _, b in rw]
            return (all(0 <= v <= n for v in st + en) and all(a < b for a, b in zip(st, st[1:]))
                    and all(a < b for a, b in zip(en, en[1:])))
        if grid and n <= 12 and all(ok(rw) for rw in rows):
            masks = [_mask([a for a, _ in rw] + [n + 1 + b for _, b in rw]) for rw in rows]
            return '{| fw_data := %s; fw_queries := []; fw_thrs := %s; fw_modes := %s; fw_masks := %s%%N |}' % (
                C.coq_list(case['data'], C.coq_z), C.coq_list(grid['thrs'], C.coq_z), C.coq_list(grid['modes'], _zwmode),
                C.coq_list(masks))
        qs = []
        for (dr, t, m), rw in zip(case['queries'], rows):
            clip = [(min(max(a, 0), 4999), min(max(b, 0), 4999)) for a, b in rw]
            qs.append('fwq %s %s (%s) %s%%nat' % ('Positive' if dr == 'positive' else 'Negative', C.coq_z(t), _zwmode(m),
                                                 C.coq_list(clip, lambda p: '(%d, %d)' % p)))
        return '{| fw_data := %s; fw_queries := %s; fw_thrs := []; fw_modes := []; fw_masks := [] |}' % (
            C.coq_list(case['data'], C.coq_z), C.coq_list(qs))

    def extra_oracle(self, case, obs):
        if any(a < 0 or b < 0 for rw in obs['rows'] for a, b in rw):
            return 'find_width returned a negative index'
        return None

    def nontrivial(self, case, obs):
        return any(len(r) > 0 for r in obs.get('rows', []))

    def features(self, case, obs):
        n = len(case['data'])
        return {'len': n if n <= 9 else '10+', 'rows': min(sum(len(r) for r in obs.get('rows', [])), 5), 'dtype': case['dtype'],
                'layout': case.get('layout', 'c'), 'tform': case.get('tform', 'float')}

    def tags(self, case, obs):
        t = ['find_width']
        positive = any(q[0] == 'positive' for q in case['queries'])
        if positive and (case['dtype'].startswith('uint')
                         or (case['dtype'].startswith('int') and case['den'] == 1 and int(np.iinfo(case['dtype']).min) in case['data'])):
            t.append('find_width_sign_multiplication_overflow')
        if case['dtype'] in ('float32', 'float16') and case['den'] == ULP_DEN:
            t.append('peaks_float32_threshold_rounded')
        return t

    def sample(self, case, obs):
        return {'case': dict(case, queries=case['queries'][:4]), 'observed': {'rows': obs.get('rows', [])[:4]}}

    def shrink(self, case):
        qs = case['queries']
        if len(qs) > 1:
            h = len(qs) // 2
            yield dict(case, queries=qs[:h], grid=None)
            yield dict(case, queries=qs[h:], grid=None)
        elif case.get('layout') != 'zerostride':
            data = case['data']
            for i in range(len(data)):
                yield dict(case, data=data[:i] + data[i + 1:], grid=None)

    def histories(self, rng, tier):
        n = 60 if tier == 'quick' else 500
        for k in range(n):
            m = rng.randint(3, 12)
            dtype = ['float64', 'int16', 'float32', 'uint8', 'int8', 'uint32', 'float16'][k % 7]
            s0 = [2 * rng.randint(0, 2) for _ in range(m)]
            s1 = list(s0)
            for _ in range(rng.randint(1, 3)):
                s1[rng.randrange(m)] = 2 * rng.randint(0, 3)
            if s1 == s0:
                s1[m // 2] = s0[m // 2] + 2
            layout = rng.choice(['c', 'strided', 'neg', 'offset', 'column'])

            def st(buf, sig):
                return {'buf': buf, 'case': {'data': sig, 'den': 2, 'dtype': dtype, 'grid': None, 'layout': layout, 'tform': ['float', 'np'][k % 2],
                                             'queries': [[rng.choice(['positive', 'negative']), rng.choice([0, 1, 2, 3, 4]), mm]
                                                         for mm in _modes(rng, m, 1, boundary=1)]}}
            yield [st('A', s0), st('A', s1), st('B', s0), st('A', s0)][:2 + k % 3]


# ------------------------------------------------------------------------------------------------ count / size boundaries
SIZES = [255, 256, 257, 1023, 1024, 1025, 2048, 4097]


def _sizes(tier):
    """The checks whose evaluation in Coq is quadratic in the length keep 4097 for the thorough tier."""
    return SIZES if tier != 'quick' else SIZES[:-1]


def _fkey(v):
    return 'nan' if v != v else float(v).hex()


def _rle(vals, key=lambda v: v):
    out = []
    for v in vals:
        if out and key(out[-1][0]) == key(v):
            out[-1][1] += 1
        else:
            out.append([v, 1])
    return out


def _coq_rle(pairs, f):
    return C.coq_list(pairs, lambda p: '(%s, %d%%N)' % (f(p[0]), p[1]))


def _coq_ns(l):
    return C.coq_list(l, lambda v: '%d%%N' % v)


def _expand(runs):
    return [v for v, c in runs for _ in range(c)]


def _split(rng, n, pool, k):
    """n samples as at most k runs of values of the pool (adjacent runs differ)."""
    k = max(1, min(k, n))
    cuts = sorted(rng.sample(range(1, n), k - 1)) if n > 1 and k > 1 else []
    runs, prev = [], None
    for a, b in zip([0] + cuts, cuts + [n]):
        v = rng.choice([x for x in pool if x != prev] or pool)
        runs.append([v, b - a])
        prev = v
    return runs


def _progressions(l):
    """Ascending integers as (first, step, count) triples."""
    out, i = [], 0
    while i < len(l):
        if i + 1 == len(l):
            out.append((l[i], 0, 1))
            break
        st = l[i + 1] - l[i]
        j = i + 1
        while j + 1 < len(l) and l[j + 1] - l[j] == st:
            j += 1
        out.append((l[i], st, j - i + 1))
        i = j + 1
    return out


class MovingLarge(Base):
    name = 'moving_large'
    header = HDR_S
    case_type = 'mv_large'
    check_fn = 'mv_large_check'
    explain_fn = None
    shard = 2
    rule = ('the six moving operators at count / size boundaries: lane lengths 255, 256, 257, 1023, 1024, 1025, 2048, 4097 with windows '
            '1, 2, 3, and windows 255 .. 4097 on lanes 0..5 samples longer (1-D and 2-D, both axes); data = a few long runs of a few '
            'values, given and observed run-length encoded, expanded inside Coq; non-trivial = at least two runs')

    def gen(self, rng, tier):
        reps = 1 if tier == 'quick' else 4
        for _ in range(reps):
            for k, n in enumerate(_sizes(tier)):
                dtype = ['float64', 'int16', 'uint8', 'float32'][k % 4]
                den = 4 if dtype.startswith('float') else 1
                pool = [0, 4, 8, 12, 20] if dtype == 'uint8' else [-12, -4, 0, 4, 8, 20]
                # long lane, small window
                yield {'shape': [n], 'axis': 0, 'w': rng.choice([1, 2, 3]), 'den': den, 'dtype': dtype, 'runs': _split(rng, n, pool, rng.randint(2, 5))}
                # window at the boundary, lane a little longer
                r = rng.randint(0, 5)
                yield {'shape': [n + r], 'axis': 0, 'w': n, 'den': den, 'dtype': dtype, 'runs': _split(rng, n + r, pool, rng.randint(2, 6))}
                if n <= 1025:
                    if k % 2:
                        yield {'shape': [2, n + 1], 'axis': 1, 'w': n, 'den': den, 'dtype': dtype, 'runs': _split(rng, 2 * (n + 1), pool, 6)}
                    else:
                        yield {'shape': [n + 1, 2], 'axis': 0, 'w': n, 'den': den, 'dtype': dtype, 'runs': _split(rng, 2 * (n + 1), pool, 6)}

    def build(self, case):
        return [_logical(_expand(case['runs']), case['den'], case['dtype'], case['shape'])]

    def invoke(self, arrs, case, keep=None):
        from scared import signal_processing as sp
        out = []
        for op in MV_OPS:
            r = getattr(sp, op)(arrs[0], case['w'], case['axis'])
            out.append({'op': op, 'shape': list(r.shape), 'rle': _rle(_flat(r), _fkey)})
        return {'ops': out}

    def coq(self, case, obs):
        inp = _rle([float(v) for v in _flatten(self.build(case)[0].tolist())], _fkey)
        ob = C.coq_list(obs.get('ops', []), lambda o: '(%s, (%s, %s))' % (MV_COQ[o['op']], _coq_ns(o['shape']), _coq_rle(o['rle'], F)))
        return '{| ml_shape := %s; ml_axis := %s; ml_w := %d%%N; ml_in := %s; ml_obs := %s |}' % (
            _coq_ns(case['shape']), C.coq_nat(case['axis']), case['w'], _coq_rle(inp, F), ob)

    def nontrivial(self, case, obs):
        return len(case['runs']) >= 2

    def features(self, case, obs):
        return {'n': case['shape'][case['axis']], 'w': case['w'] if case['w'] <= 3 else 'n-%d' % (case['shape'][case['axis']] - case['w'])}

    def tags(self, case, obs):
        return ['moving_large']

    def sample(self, case, obs):
        return {'case': case, 'observed': [{'op': o['op'], 'shape': o['shape'], 'rle': o['rle'][:4]} for o in obs.get('ops', [])]}


class PatternLarge(Base):
    name = 'pattern_large'
    header = HDR_S
    case_type = 'pd_large'
    check_fn = 'pd_large_check'
    explain_fn = None
    shard = 1
    rule = ('correlation / distance / bcdc at count / size boundaries: traces of 255 .. 4097 samples with patterns of 1..3 samples, and '
            'patterns of 255 .. 2048 samples on traces 1..5 samples longer; runs of a few values, run-length encoded; non-trivial = '
            'non-constant trace and pattern')

    def gen(self, rng, tier):
        reps = 1 if tier == 'quick' else 4
        for _ in range(reps):
            for k, n in enumerate(SIZES):
                dtype = ['float64', 'int16', 'float32'][k % 3]
                den = 2 if dtype.startswith('float') else 1
                pool = [-6, -2, 0, 2, 4, 10]
                yield {'den': den, 'dtype': dtype, 'x': _split(rng, n, pool, rng.randint(3, 6)),
                       'y': [[rng.choice(pool), 1] for _ in range(rng.randint(1, 3))]}
                if n <= 2048:
                    yield {'den': den, 'dtype': dtype, 'x': _split(rng, n + rng.randint(1, 5), pool, rng.randint(3, 7)),
                           'y': _split(rng, n, pool, rng.randint(2, 5))}

    def build(self, case):
        x, y = _expand(case['x']), _expand(case['y'])
        return [_logical(x, case['den'], case['dtype'], [len(x)]), _logical(y, case['den'], case['dtype'], [len(y)])]

    def invoke(self, arrs, case, keep=None):
        from scared import signal_processing as sp
        return {fn: _rle(_flat(getattr(sp, fn)(arrs[0], arrs[1])), _fkey) for fn in PD_FNS}

    def coq(self, case, obs):
        def fr(runs):
            return _coq_rle([[v / case['den'], c] for v, c in runs], F)

        def opt(k):
            return '(Some %s)' % _coq_rle(obs[k], F) if k in obs else 'None'
        return '{| pl_x := %s; pl_y := %s; pl_corr := %s; pl_dist := %s; pl_bcdc := %s |}' % (
            fr(case['x']), fr(case['y']), opt('correlation'), opt('distance'), opt('bcdc'))

    def nontrivial(self, case, obs):
        return len(case['x']) >= 2 and len({v for v, _ in case['y']}) >= 2

    def features(self, case, obs):
        return {'trace': sum(c for _, c in case['x']), 'pattern': sum(c for _, c in case['y'])}

    def tags(self, case, obs):
        return ['pattern_large']

    def sample(self, case, obs):
        return {'case': case, 'observed': {k: v[:4] for k, v in obs.items() if isinstance(v, list)}}


class PadLarge(Base):
    name = 'pad_large'
    header = HDR_S
    case_type = 'pad_large'
    check_fn = 'pad_large_check'
    explain_fn = None
    shard = 4
    rule = ('pad at count / size boundaries: arrays of 255 .. 4097 samples (1-D, and 2 x n / n x 2) placed in targets 0..3 larger at offsets '
            '0..3; run-length encoded; non-trivial = target larger than the array')

    def gen(self, rng, tier):
        reps = 1 if tier == 'quick' else 4
        for _ in range(reps):
            for k, n in enumerate(SIZES):
                dtype = ALL_DTYPES[k % len(ALL_DTYPES)]
                pool = [1, 2, 9, 40]
                off = rng.randint(0, 3)
                yield {'shape': [n], 'target': [n + off + rng.randint(0, 3)], 'offsets': [off], 'dtype': dtype, 'pad_with': rng.choice([0, 7]),
                       'runs': _split(rng, n, pool, 4)}
                if n <= 1025:
                    shape = [2, n] if k % 2 else [n, 2]
                    offs = [rng.randint(0, 1), rng.randint(0, 2)]
                    yield {'shape': shape, 'target': [s + o + rng.randint(0, 1) for s, o in zip(shape, offs)], 'offsets': offs, 'dtype': dtype,
                           'pad_with': rng.choice([0, 7]), 'runs': _split(rng, 2 * n, pool, 5)}

    def build(self, case):
        return [_logical(_expand(case['runs']), 1, case['dtype'], case['shape'])]

    def invoke(self, arrs, case, keep=None):
        from scared import signal_processing as sp
        kw = {'pad_with': case['pad_with']} if case['pad_with'] else {}
        r = sp.pad(arrs[0], case['target'], case['offsets'], **kw)
        return {'shape': list(r.shape), 'rle': _rle(_flat_int(r))}

    def coq(self, case, obs):
        ob = '(Some %s)' % _coq_rle(obs['rle'], C.coq_z) if 'rle' in obs else 'None'
        return '{| pal_shape := %s; pal_in := %s; pal_target := %s; pal_offs := %s; pal_with := %s; pal_obs := %s |}' % (
            _coq_ns(case['shape']), _coq_rle(case['runs'], C.coq_z), _coq_ns(case['target']), _coq_ns(case['offsets']),
            C.coq_z(case['pad_with']), ob)

    def extra_oracle(self, case, obs):
        return None if obs['shape'] == case['target'] else f'pad returned shape {obs["shape"]}'

    def nontrivial(self, case, obs):
        return int(np.prod(case['target'])) > int(np.prod(case['shape']))

    def features(self, case, obs):
        return {'n': max(case['shape']), 'ndim': len(case['shape'])}

    def tags(self, case, obs):
        return ['pad_large']

    def sample(self, case, obs):
        return {'case': case, 'observed': {'shape': obs.get('shape'), 'rle': obs.get('rle', [])[:6]}}


class ExtractLarge(Base):
    name = 'extract_large'
    header = HDR_S
    case_type = 'ex_large'
    check_fn = 'ex_large_check'
    explain_fn = None
    shard = 4
    rule = ('extract_around_indexes at count / size boundaries: 255 .. 4097 and 65536 indexes (runs of a few admissible positions, e.g. '
            '1024 x a then 1 x b) in the three modes on a short piecewise-constant signal, and signals of 255 .. 4097 samples with a few '
            'indexes; int8 / uint8 / int16 / uint16 index arrays with values at the limits of the dtype so that index + after or index - before '
            'crosses them (data of 130 .. 65560 samples with marker values on the positions taken); run-length encoded; non-trivial = at least two distinct indexes')

    def gen(self, rng, tier):
        reps = 1 if tier == 'quick' else 4
        for _ in range(reps):
            for k, K in enumerate(SIZES + [65536, 1026, 1500, 2049, 3000, 4095]):
                for mode in (['average', 'average', 'stack', 'concatenate'] if K <= 4097 else ['average']):
                    dtype = ['float64', 'int16', 'uint8', 'int32'][k % 4]
                    vals = rng.sample([0, 3, 8, 15, 40, 77, 100], rng.randint(4, 6))
                    data = [[v, 6] for v in vals]                                       # runs of 6 equal samples, all different
                    L = 6 * len(data)
                    before, after = rng.randint(0, 2), rng.randint(0, 2)
                    pos = [6 * r + rng.randint(2, 3) for r in rng.sample(range(len(data)), 4)]     # inside different runs
                    # unbalanced runs: one full block of 2^m indexes then a short tail, or a few random runs
                    if rng.random() < 0.5 and K > 256:
                        big = 1 << (K.bit_length() - 1)
                        big = big if big < K else big // 2
                        idx = [[pos[0], big]] + _split(rng, K - big, pos[1:], 2)
                    else:
                        idx = _split(rng, K, pos, rng.randint(2, 4))
                    yield {'data': data, 'dtype': dtype, 'idx': idx, 'before': before, 'after': after, 'mode': mode}
            for k, n in enumerate(SIZES):
                dtype = ['float64', 'int16'][k % 2]
                before, after = rng.randint(0, 3), rng.randint(0, 3)
                yield {'data': _split(rng, n, [0, 3, 8, 15], 5), 'dtype': dtype, 'before': before, 'after': after, 'mode': ['stack', 'average', 'concatenate'][k % 3],
                       'idx': [[p, 1] for p in [before, n - 1 - after, rng.randint(before, n - 1 - after)]]}
        yield from self.limits(rng, tier)

    def build(self, case):
        d = _expand(case['data'])
        return [_logical(d, 1, case['dtype'], [len(d)]), np.array(_expand(case['idx']), dtype=case.get('idx_dtype', 'int64'))]

    @staticmethod
    def _marked(rng, n, positions):
        """n samples, run-length encoded: a floor value, distinct marker values on the given positions (negative = from the end)."""
        pos = sorted({p % n for p in positions if -n <= p < n})
        runs, cur = [], 0
        for j, p in enumerate(pos):
            if p > cur:
                runs.append([1 + (len(runs) % 2), p - cur])
            runs.append([10 + j % 90, 1])
            cur = p + 1
        if cur < n:
            runs.append([3, n - cur])
        return runs

    def limits(self, rng, tier):
        """Index arrays of narrow integer dtypes whose values are so close to the limits of the dtype that index + after (or
        index - before) crosses them: the positions must still be computed exactly."""
        reps = 2 if tier == 'quick' else 10
        for idt in ('int8', 'uint8', 'int16', 'uint16'):
            info = np.iinfo(idt)
            top, bot = int(info.max), int(info.min)
            for k in range(reps):
                for side in ('high', 'low'):
                    if side == 'high':
                        r = rng.randint(0, 4)
                        after, before = r + rng.randint(1, 9), rng.randint(0, 3)
                        ids = [top - r] + [top - rng.randint(0, 6) for _ in range(rng.randint(0, 2))]
                        n = top + after + rng.randint(1, 12)
                    else:
                        r = rng.randint(0, 3)
                        before, after = r + rng.randint(1, 9), rng.randint(0, 3)
                        ids = [bot + r] + [bot + rng.randint(0, 5) for _ in range(rng.randint(0, 2))]
                        n = abs(bot) + before + after + rng.randint(8, 30)      # negative positions wrap to the end of the data
                    positions = [i + o for i in ids for o in range(-before, after + 1)]
                    yield {'data': self._marked(rng, n, positions), 'dtype': ['float64', 'int16', 'int32'][k % 3], 'idx': [[i, 1] for i in ids],
                           'idx_dtype': idt, 'before': before, 'after': after, 'mode': ['stack', 'average', 'concatenate'][(k + (side == 'low')) % 3],
                           'limit': side}

    def invoke(self, arrs, case, keep=None):
        from scared import signal_processing as sp
        r = sp.extract_around_indexes(arrs[0], arrs[1], case['before'], case['after'], sp.ExtractMode(case['mode']))
        return {'shape': list(r.shape), 'rle': _rle(_flat(r), _fkey)}

    def coq(self, case, obs):
        ob = '(Some (%s, %s))' % (_coq_ns(obs['shape']), _coq_rle(obs['rle'], F)) if 'rle' in obs else 'None'
        return '{| exl_data := %s; exl_prec := F64; exl_idx := %s; exl_before := %s; exl_after := %s; exl_mode := %s; exl_obs := %s |}' % (
            _coq_rle([[float(v), c] for v, c in case['data']], F), _coq_rle(case['idx'], C.coq_z), C.coq_nat(case['before']),
            C.coq_nat(case['after']), EX_MODES[case['mode']], ob)

    def nontrivial(self, case, obs):
        return len({v for v, _ in case['idx']}) >= 2

    def features(self, case, obs):
        return {'indexes': sum(c for _, c in case['idx']), 'mode': case['mode'], 'len': sum(c for _, c in case['data'])}

    def tags(self, case, obs):
        return ['extract_large', 'extract_large_' + case['mode']] + (['extract_index_dtype_limit'] if case.get('limit') else [])

    def sample(self, case, obs):
        return {'case': case, 'observed': {'shape': obs.get('shape'), 'rle': obs.get('rle', [])[:6]}}

    def shrink(self, case):
        idx = case['idx']
        for i in range(len(idx)):
            if idx[i][1] > 1:
                for c in (idx[i][1] // 2, idx[i][1] - 1):
                    yield dict(case, idx=idx[:i] + [[idx[i][0], c]] + idx[i + 1:])
            elif len(idx) > 1:
                yield dict(case, idx=idx[:i] + idx[i + 1:])


def _blocks(rng, n, style):
    """A signal of n samples as (pattern, repetitions) blocks over the values 0, 2, 4 (numerators over 2)."""
    if style == 'constant':
        return [[[rng.choice([0, 2, 4])], n]]
    if style == 'periodic':
        pat = rng.choice([[0, 2], [2, 0], [0, 0, 4], [0, 2, 2, 0], [4, 0, 2]])
        q, r = divmod(n, len(pat))
        return [[pat, q]] + ([[pat[:r], 1]] if r else [])
    runs = _split(rng, n, [0, 2, 4], rng.randint(2, 6))       # a few long runs
    return [[[v], c] for v, c in runs]


def _expandb(blocks):
    return [v for pat, c in blocks for _ in range(c) for v in pat]


def _coq_blocks(blocks):
    return C.coq_list(blocks, lambda b: '(%s, %d%%N)' % (C.coq_list(b[0], C.coq_z), b[1]))


class PeaksLarge(Base):
    name = 'find_peaks_large'
    header = HDR_P
    case_type = 'pk_large'
    check_fn = 'pk_large_check'
    corr_fn = 'pk_large_corr'
    explain_fn = None
    shard = 1
    rule = ('find_peaks at count / size boundaries: signals of 255 .. 4097 samples (constant: every sample a candidate; periodic: len/2 '
            'or len/3 candidates; a few long plateaus) with distances 0, 1, 2, 3 and 255, 256, 257, 1023, 1024, 1025, len, len+1; signals as '
            '(pattern, repetitions) blocks, results as arithmetic progressions, expanded inside Coq; property clauses (check_fn) and '
            'model scan (corr_fn); non-trivial = distance >= 2')

    def gen(self, rng, tier):
        reps = 1 if tier == 'quick' else 3
        for _ in range(reps):
            for k, n in enumerate(_sizes(tier)):
                for style in ('constant', 'periodic', 'runs'):
                    ds = [rng.choice([0, 1]), rng.choice([2, 3]), rng.choice([d for d in [255, 256, 257, 1023, 1024, 1025] if d <= n + 1]), rng.choice([n, n + 1])]
                    if n >= 2048:          # the evaluation is quadratic: two calls are enough there
                        ds = [ds[rng.randrange(2)], ds[2 + rng.randrange(2)]]
                    yield {'blocks': _blocks(rng, n, style), 'den': 2, 'dtype': ['float64', 'int16', 'uint8', 'int64'][k % 4], 'style': style,
                           'queries': [[d, rng.choice(['-inf', 1, 2, 3])] for d in ds]}

    def build(self, case):
        d = _expandb(case['blocks'])
        return [_logical(d, case['den'], case['dtype'], [len(d)])]

    def invoke(self, arrs, case, keep=None):
        from scared import signal_processing as sp
        out = []
        for d, h in case['queries']:
            hv = -np.inf if h == '-inf' else h / case['den']
            out.append(_flat_int(sp.find_peaks(arrs[0], d, hv)))
        return {'peaks': out}

    def coq(self, case, obs):
        peaks = obs.get('peaks', [[] for _ in case['queries']])
        qs = []
        for (d, h), pk in zip(case['queries'], peaks):
            if not (all(p >= 0 for p in pk) and all(a < b for a, b in zip(pk, pk[1:]))):
                pk = [10 ** 6]          # not ascending / negative: an index that is no candidate
            qs.append('pklq %d %s %s%%N' % (d, _zheight(h), C.coq_list(_progressions(pk), lambda t: '(%d, %d, %d)' % t)))
        return '{| pkl_data := %s; pkl_queries := %s |}' % (_coq_blocks(case['blocks']), C.coq_list(qs))

    def nontrivial(self, case, obs):
        return any(d >= 2 for d, _ in case['queries'])

    def features(self, case, obs):
        return {'n': sum(len(p) * c for p, c in case['blocks']), 'style': case['style']}

    def tags(self, case, obs):
        return ['find_peaks_large']

    def sample(self, case, obs):
        return {'case': case, 'observed': {'peaks': [p[:6] for p in obs.get('peaks', [])]}}

    def shrink(self, case):
        if len(case['queries']) > 1:
            for q in case['queries']:
                yield dict(case, queries=[q])


class WidthLarge(Base):
    name = 'find_width_large'
    header = HDR_P
    case_type = 'fw_large'
    check_fn = 'fw_large_check'
    explain_fn = None
    shard = 1
    rule = ('find_width at count / size boundaries: signals of 255 .. 4097 samples: periodic (len/2 or len/3 runs), a run of exactly 255 .. 1025 '
            'samples against min_width / max_width / delta at and around its length, a few long runs; both directions; signals as (pattern, '
            'repetitions) blocks, rows as arithmetic progressions, expanded inside Coq and compared with the gap construction (equal to the '
            'set of bracketed maximal runs by the theorem width_is_maximal_runs); non-trivial = at least one row returned')

    def gen(self, rng, tier):
        reps = 1 if tier == 'quick' else 3
        for _ in range(reps):
            for k, n in enumerate(_sizes(tier)):
                dtype = ['float64', 'int16', 'uint8', 'int64', 'float32'][k % 5]
                yield {'blocks': _blocks(rng, n, 'periodic'), 'den': 2, 'dtype': dtype, 'style': 'periodic',
                       'queries': [[dr, t, m] for dr in ('positive', 'negative') for t in (1, 2) for m in (['min', 1], ['minmax', 1, 2], ['delta', 2, 1])]}
                yield {'blocks': _blocks(rng, n, 'runs'), 'den': 2, 'dtype': dtype, 'style': 'runs',
                       'queries': [[dr, rng.choice([0, 1, 2, 3]), m] for dr in ('positive', 'negative') for m in _modes(rng, n, 2, boundary=1)]}
                # one bracketed run of exactly L samples, L at a boundary, widths at and around L
                L = rng.choice([x for x in SIZES if x + 2 <= n] or [n - 2])
                pre = rng.randint(1, n - L - 1)
                blocks = [[[0], pre], [[4], L], [[0], n - L - pre]]
                ms = [['min', L - 1], ['min', L], ['min', L + 1], ['minmax', 1, L - 1], ['minmax', L, L], ['delta', L + 1, 1], ['delta', L - 2, 1],
                      ['minmaxdelta', L, L + 1, 1]]
                yield {'blocks': blocks, 'den': 2, 'dtype': dtype, 'style': 'one_run',
                       'queries': [['positive', 2, m] for m in ms] + [['negative', 2, m] for m in ms[:3]]}

    def build(self, case):
        d = _expandb(case['blocks'])
        return [_logical(d, case['den'], case['dtype'], [len(d)])]

    def invoke(self, arrs, case, keep=None):
        from scared import signal_processing as sp
        out = []
        for dr, t, m in case['queries']:
            direction = sp.Direction.POSITIVE if dr == 'positive' else sp.Direction.NEGATIVE
            kw = {}
            if m[0] in ('minmax', 'minmaxdelta'):
                kw['max_width'] = m[2]
            if m[0] == 'delta':
                kw['delta'] = m[2]
            if m[0] == 'minmaxdelta':
                kw['delta'] = m[3]
            r = np.asarray(sp.find_width(arrs[0], direction, t / case['den'], m[1], **kw))
            if r.ndim != 2 or r.shape[1] != 2:
                return {'raised': 'BadShape', 'msg': str(r.shape)}
            out.append([[int(v[0]), int(v[1])] for v in r.tolist()])
        return {'rows': out}

    def coq(self, case, obs):
        rows = obs.get('rows', [[] for _ in case['queries']])
        qs = []
        for (dr, t, m), rw in zip(case['queries'], rows):
            if any(a < 0 or b < 0 for a, b in rw):
                rw = [[10 ** 6, 10 ** 6]]
            # rows (s, e) with the same step in both coordinates
            prog, i = [], 0
            while i < len(rw):
                j = i
                if i + 1 < len(rw):
                    st = rw[i + 1][0] - rw[i][0]
                    while j + 1 < len(rw) and st >= 0 and rw[j + 1][0] - rw[j][0] == st and rw[j + 1][1] - rw[j][1] == st:
                        j += 1
                prog.append((rw[i][0], rw[i][1], (rw[i + 1][0] - rw[i][0]) if j > i else 0, j - i + 1))
                i = j + 1
            qs.append('fwlq %s %s (%s) %s%%N' % ('Positive' if dr == 'positive' else 'Negative', C.coq_z(t), _zwmode(m),
                                                  C.coq_list(prog, lambda q: '(%d, %d, %d, %d)' % q)))
        return '{| fwl_data := %s; fwl_queries := %s |}' % (_coq_blocks(case['blocks']), C.coq_list(qs))

    def nontrivial(self, case, obs):
        return any(len(r) > 0 for r in obs.get('rows', []))

    def features(self, case, obs):
        return {'n': sum(len(p) * c for p, c in case['blocks']), 'style': case['style'], 'rows': min(max([len(r) for r in obs.get('rows', [])] or [0]), 1025)}

    def tags(self, case, obs):
        return ['find_width_large']

    def sample(self, case, obs):
        return {'case': case, 'observed': {'rows': [r[:4] for r in obs.get('rows', [])]}}

    def shrink(self, case):
        if len(case['queries']) > 1:
            for q in case['queries']:
                yield dict(case, queries=[q])


def _spread(gen):
    """Interleave the (costly) long random signals with the short exhaustive ones so that the Coq shards are balanced."""
    def wrapped(self, rng, tier):
        cases = list(gen(self, rng, tier))
        long_ = [c for c in cases if len(c['data']) > 9]
        short = [c for c in cases if len(c['data']) <= 9]
        step = max(1, len(short) // (len(long_) + 1))
        out, k = [], 0
        for i, c in enumerate(short):
            out.append(c)
            if (i + 1) % step == 0 and k < len(long_):
                out.append(long_[k])
                k += 1
        return out + long_[k:]
    return wrapped


PeaksKind.gen = _spread(PeaksKind.gen)
WidthKind.gen = _spread(WidthKind.gen)

_HIST_RULE = ('2-4 calls of %s on named buffers: a buffer used again is modified IN PLACE (same ndarray object: one sample poked, '
              'refill, sign flip) between the calls, a second array holds the same values, functions / windows / axes / thresholds alternate, '
              'buffers in several memory layouts; every call compared with the spec of its content at call time, earlier results must be '
              'unchanged at the end; non-trivial = a buffer is used at least twice')

_MV, _PD, _PA, _EX, _PK, _FW = MovingKind(), PatternKind(), PadKind(), ExtractKind(), PeaksKind(), WidthKind()
KINDS = [_MV, _PD, _PA, _EX, _PK, _FW,
         History(_MV, _MV.histories, _HIST_RULE % 'the six moving operators (one or two per call)'),
         History(_PD, _PD.histories, _HIST_RULE % 'correlation / distance / bcdc (trace or pattern modified)'),
         History(_PA, _PA.histories, _HIST_RULE % 'pad'),
         History(_EX, _EX.histories, _HIST_RULE % 'extract_around_indexes'),
         History(_PK, _PK.histories, _HIST_RULE % 'find_peaks'),
         History(_FW, _FW.histories, _HIST_RULE % 'find_width'),
         MovingLarge(), PatternLarge(), PadLarge(), ExtractLarge(), PeaksLarge(), WidthLarge()]
