"""C19 — signal helpers equal windowed definitions; peak search keeps isolated maxima.

C-tie: the real scared.signal_processing functions are run on generated inputs and their outputs are compared, inside
Coq, with the SPEC-side definitions of Model/Signal.v (naive statistics of every window, per-window Pearson triple,
squared distance, variance ratio, documented pad / extract placement) and Model/Peaks.v (property clauses of find_peaks
evaluated on the observed result + equality with the repaired scan; find_width = brute-force enumeration of the
bracketed maximal runs + the gap construction).
"""
import itertools
import warnings

import numpy as np

from lib.kinds import Kind
from lib import core
from translate import common as C

ID = 'C19'
TRANSLATORS = []
MODEL_TARGETS = ['theories/Model/Signal.vo', 'theories/Model/Peaks.vo']
PROP_TARGET = 'theories/Props/C19.vo'
EXHAUSTIVE = True
TRUSTED_BASE = [
    'Coq 8.16.1 kernel incl. vm_compute (no native_compute)',
    'Print Assumptions: every theorem of Props/C19.v is closed under the global context (no axioms)',
    'correspondence harness tools/props/C19.py: numpy C-order flattening, float.hex export, exact scaling of dyadic values '
    'to integers for find_peaks / find_width / pad',
    'modelled, not verified: numpy cumsum / swapaxes / where / diff / take / tile semantics, scipy.signal.correlate(valid) as the '
    'sliding dot product, numba njit of the scan loop (hand-written impl-models, held by the correspondence check)',
]
ASSUMPTIONS = [
    'real arrays: finite values, no NaN (comparisons with NaN are outside the property)',
    'moving operators / pattern scores are compared on dyadic or integer inputs whose float64 sums are exact; var/std/skew/'
    'kurtosis/correlation/bcdc within a tolerance 64*u*kappa with kappa the magnitude of the terms, computed by the model',
    'a window (or pattern) of zero variance makes skew / kurtosis / correlation undefined: NaN is required for skew and '
    'kurtosis, NaN or +-inf accepted for the correlation (eps/0 in floating point)',
    'find_width arguments satisfy the checks of the code (min_width >= 1, max_width >= 1, 0 < delta < min_width when max_width is None)',
    'extract_around_indexes: before, after >= 0; documented placement proved for in-range indices, numpy.take wrap-around of '
    'negative positions and IndexError modelled and compared as well',
]

HDR_S = 'From ScaredV Require Import Model.Signal.'
HDR_P = 'From ScaredV Require Import Model.Peaks.'

F = core.float_to_coq


def _flat(a):
    return [float(v) for v in np.ascontiguousarray(a).reshape(-1).tolist()]


def _arr(case):
    """Input array of a moving/pattern/extract case: values = numerators, den = power-of-two denominator."""
    a = np.array(case['values'], dtype='float64') / case['den']
    return a.astype(case['dtype']).reshape(case['shape'])


def _rand_values(rng, n, dtype, mode):
    """Numerators and denominator of exactly representable values whose 4th powers sum exactly in float64."""
    if dtype.startswith('float'):
        den = rng.choice([1, 2, 4, 8])
        lo, hi = -64, 64
    elif dtype.startswith('uint'):
        den, lo, hi = 1, 0, 100
    else:
        den, lo, hi = 1, -100, 100
    if mode == 'small':       # many ties, constant windows
        pool = [rng.randint(lo, hi) for _ in range(rng.randint(1, 3))]
        return [rng.choice(pool) for _ in range(n)], den
    if mode == 'ramp':
        a, b = rng.randint(-3, 3), rng.randint(lo // 2, hi // 2)
        return [min(hi, max(lo, a * i + b)) for i in range(n)], den
    return [rng.randint(lo, hi) for _ in range(n)], den


# ------------------------------------------------------------------------------------------------ moving operators
MV_OPS = ['moving_sum', 'moving_mean', 'moving_var', 'moving_std', 'moving_skew', 'moving_kurtosis']


class MovingKind(Kind):
    name = 'moving'
    header = HDR_S
    case_type = 'mv_case'
    check_fn = 'mv_check'
    explain_fn = 'mv_expected'
    shard = 40
    rule = ('moving_sum/mean/var/std/skew/kurtosis on 1-D..4-D arrays (float64/float32/int8/uint8/int16/int32/int64, dyadic or '
            'integer values, ties, constant lanes, ramps) x EVERY axis (also given as negative) x EVERY window 1..len(axis); '
            'all small shapes with dims <= 3 (2-D) exhaustively; non-trivial = window >= 2 and at least two distinct values')

    def gen(self, rng, tier):
        shapes = [[1], [2], [3], [5], [8], [1, 1], [1, 4], [4, 1], [2, 3], [3, 2], [3, 3], [2, 2, 2], [2, 3, 4], [4, 1, 3], [1, 2, 1, 3]]
        nrand = 24 if tier == 'quick' else 150
        for _ in range(nrand):
            nd = rng.randint(1, 3)
            shapes.append([rng.randint(1, 6 if nd < 3 else 4) for _ in range(nd)])
        if tier != 'quick':
            shapes += [[12], [17], [3, 9], [9, 2], [2, 5, 3], [2, 2, 2, 3]]
        for k, shape in enumerate(shapes):
            dtype = ['float64', 'float32', 'int16', 'uint8', 'int32', 'int8', 'int64'][k % 7] if k >= 3 else 'float64'
            mode = ['rand', 'small', 'ramp'][k % 3]
            vals, den = _rand_values(rng, int(np.prod(shape)), dtype, mode)
            if dtype == 'int8':
                vals = [max(-100, min(100, v)) for v in vals]
            nd = len(shape)
            for axis in range(nd):
                for w in range(1, shape[axis] + 1):
                    yield {'shape': shape, 'dtype': dtype, 'values': vals, 'den': den, 'w': w,
                           'axis': axis if rng.random() < 0.6 else axis - nd}

    def run(self, case):
        from scared import signal_processing as sp
        a = _arr(case)
        before = a.copy()
        out = {}
        with warnings.catch_warnings():
            warnings.simplefilter('ignore')
            for op in MV_OPS:
                r = getattr(sp, op)(a, case['w'], case['axis'])
                out[op] = {'shape': list(r.shape), 'values': _flat(r)}
        out['input_unchanged'] = bool(np.array_equal(a, before))
        return out

    def coq(self, case, obs):
        nd = len(case['shape'])
        axis = case['axis'] % nd
        inp = _flat(_arr(case))
        if 'raised' in obs:
            ob = '[]'
        else:
            ob = C.coq_list([obs[op] for op in MV_OPS],
                            lambda o: '(%s, %s)' % (C.coq_list(o['shape'], C.coq_nat), C.coq_list(o['values'], F)))
        return '{| mv_shape := %s; mv_axis := %s; mv_w := %s; mv_in := %s; mv_obs := %s |}' % (
            C.coq_list(case['shape'], C.coq_nat), C.coq_nat(axis), C.coq_nat(case['w']), C.coq_list(inp, F), ob)

    def oracle(self, case, obs):
        if 'raised' in obs:
            return f'moving operator raised {obs["raised"]}: {obs["msg"]}'
        if not obs['input_unchanged']:
            return 'input array modified'
        return None

    def nontrivial(self, case, obs):
        return case['w'] >= 2 and len(set(case['values'])) >= 2

    def features(self, case, obs):
        return {'ndim': len(case['shape']), 'dtype': case['dtype'], 'w': min(case['w'], 6), 'axis_negative': case['axis'] < 0}

    def tags(self, case, obs):
        return ['moving']

    def sample(self, case, obs):
        o = {k: {'shape': v['shape'], 'values': v['values'][:6]} for k, v in obs.items() if isinstance(v, dict)}
        return {'case': case, 'observed': o}

    def shrink(self, case):
        # keep one lane: reduce the other dimensions to 1
        shape = case['shape']
        nd = len(shape)
        axis = case['axis'] % nd
        if nd > 1:
            a = (np.array(case['values']).reshape(shape))
            idx = tuple(slice(None) if d == axis else 0 for d in range(nd))
            lane = a[idx]
            yield dict(case, shape=[int(lane.shape[0])], values=[int(v) for v in lane], axis=0)


# ------------------------------------------------------------------------------------------------ pattern detection
class PatternKind(Kind):
    name = 'pattern'
    header = HDR_S
    case_type = 'pd_case'
    check_fn = 'pd_check'
    explain_fn = 'pd_expected'
    shard = 10
    rule = ('correlation / distance / bcdc of 1-D traces (len 2..24) with every pattern length 1..len-1 for the short ones, random '
            'for the others; embedded pattern (distance 0), negated pattern (x+y constant: bcdc infinite), constant windows and '
            'constant patterns (undefined correlation), ties; non-trivial = pattern length >= 2 and non-constant trace and pattern')

    def gen(self, rng, tier):
        n_short = 12 if tier == 'quick' else 60
        for k in range(n_short):
            m = rng.randint(2, 7)
            dtype = ['float64', 'int16', 'float32', 'uint8'][k % 4]
            x, den = _rand_values(rng, m, dtype, ['rand', 'small'][k % 2])
            for n in range(1, m):
                y = [rng.choice(x) if rng.random() < 0.5 else rng.randint(-8, 8) for _ in range(n)]
                if dtype == 'uint8':
                    y = [abs(v) for v in y]
                yield {'x': x, 'y': y, 'den': den, 'dtype': dtype}
        n_long = 40 if tier == 'quick' else 500
        for k in range(n_long):
            m = rng.randint(4, 24)
            n = rng.randint(1, m - 1)
            dtype = ['float64', 'int16', 'float32', 'int32'][k % 4]
            x, den = _rand_values(rng, m, dtype, ['rand', 'small', 'ramp'][k % 3])
            kind = k % 5
            pos = rng.randint(0, m - n)
            if kind == 0:      # the pattern is a piece of the trace
                y = x[pos:pos + n]
            elif kind == 1:    # negated piece: x + y constant on that window
                y = [-v for v in x[pos:pos + n]] if not dtype.startswith('uint') else x[pos:pos + n]
            elif kind == 2:    # constant pattern
                y = [rng.randint(-5, 5)] * n
            else:
                y = [rng.randint(-20, 20) for _ in range(n)]
            yield {'x': x, 'y': y, 'den': den, 'dtype': dtype}

    def run(self, case):
        from scared import signal_processing as sp
        x = (np.array(case['x'], dtype='float64') / case['den']).astype(case['dtype'])
        y = (np.array(case['y'], dtype='float64') / case['den']).astype(case['dtype'] if not case['dtype'].startswith('uint') else 'int16')
        xb, yb = x.copy(), y.copy()
        with warnings.catch_warnings():
            warnings.simplefilter('ignore')
            out = {'corr': _flat(sp.correlation(x, y)), 'dist': _flat(sp.distance(x, y)), 'bcdc': _flat(sp.bcdc(x, y))}
        out['input_unchanged'] = bool(np.array_equal(x, xb) and np.array_equal(y, yb))
        return out

    def coq(self, case, obs):
        x = [v / case['den'] for v in case['x']]
        y = [v / case['den'] for v in case['y']]
        return '{| pd_x := %s; pd_y := %s; pd_corr := %s; pd_dist := %s; pd_bcdc := %s |}' % (
            C.coq_list(x, F), C.coq_list(y, F), C.coq_list(obs.get('corr', []), F), C.coq_list(obs.get('dist', []), F),
            C.coq_list(obs.get('bcdc', []), F))

    def oracle(self, case, obs):
        if 'raised' in obs:
            return f'pattern detection raised {obs["raised"]}: {obs["msg"]}'
        if not obs['input_unchanged']:
            return 'input array modified'
        return None

    def nontrivial(self, case, obs):
        return len(case['y']) >= 2 and len(set(case['x'])) >= 2 and len(set(case['y'])) >= 2

    def features(self, case, obs):
        return {'n': min(len(case['y']), 8), 'dtype': case['dtype'],
                'undefined_corr': sum(1 for v in obs.get('corr', []) if v != v or abs(v) == float('inf')) > 0}

    def tags(self, case, obs):
        return ['pattern']

    def shrink(self, case):
        x, y = case['x'], case['y']
        if len(x) > len(y) + 1:
            yield dict(case, x=x[1:])
            yield dict(case, x=x[:-1])


# ------------------------------------------------------------------------------------------------ pad
class PadKind(Kind):
    name = 'pad'
    header = HDR_S
    case_type = 'pad_case'
    check_fn = 'pad_check'
    explain_fn = 'pad_expected'
    shard = 150
    rule = ('pad(array, target_shape, offsets, pad_with) on 1-D..3-D integer / dyadic arrays: every offset of every small 1-D and '
            '2-D placement, offsets None, target too small (ValueError expected); non-trivial = target strictly larger than the array')

    def gen(self, rng, tier):
        # every placement of small 1-D and 2-D arrays
        for n in (1, 2, 3):
            for t in range(n - 1, n + 3):
                for off in range(0, 4):
                    yield self._case(rng, [n], [max(t, 0)], [off])
        for shape in ([1, 2], [2, 2], [2, 3]):
            for tgt in ([3, 4], [2, 3], [4, 3]):
                for offs in itertools.product(range(3), repeat=2):
                    yield self._case(rng, shape, tgt, list(offs))
        n = 60 if tier == 'quick' else 800
        for k in range(n):
            nd = rng.randint(1, 3)
            shape = [rng.randint(1, 4) for _ in range(nd)]
            offs = [rng.randint(0, 3) for _ in range(nd)]
            tgt = [s + o + rng.choice([0, 0, 1, 2, -1 if k % 7 == 0 else 0]) for s, o in zip(shape, offs)]
            tgt = [max(t, 0) for t in tgt]
            yield self._case(rng, shape, tgt, offs if k % 9 else None)

    @staticmethod
    def _case(rng, shape, tgt, offs):
        dtype = rng.choice(['int16', 'uint8', 'int64', 'float64', 'float32'])
        lo = 0 if dtype == 'uint8' else -50
        return {'shape': shape, 'target': tgt, 'offsets': offs, 'dtype': dtype,
                'values': [rng.randint(max(lo, 1), 50) for _ in range(int(np.prod(shape)))],
                'pad_with': rng.choice([0, 0, 0, 7, 0 if dtype == 'uint8' else -3])}

    def run(self, case):
        from scared import signal_processing as sp
        a = np.array(case['values'], dtype=case['dtype']).reshape(case['shape'])
        before = a.copy()
        kw = {}
        if case['pad_with'] != 0:
            kw['pad_with'] = case['pad_with']
        try:
            r = sp.pad(a, case['target'], case['offsets'], **kw) if case['offsets'] is not None else sp.pad(a, case['target'], **kw)
        except ValueError as e:
            return {'rejected': 'ValueError', 'msg': str(e)[:100]}
        return {'shape': list(r.shape), 'values': [int(v) for v in np.ascontiguousarray(r).reshape(-1).tolist()],
                'dtype_kept': str(r.dtype) == case['dtype'], 'input_unchanged': bool(np.array_equal(a, before)),
                'integral': bool(np.all(r == np.round(r)))}

    def coq(self, case, obs):
        offs = case['offsets'] if case['offsets'] is not None else [0] * len(case['shape'])
        ob = 'None' if ('rejected' in obs or 'raised' in obs) else '(Some %s)' % C.coq_list(obs['values'], C.coq_z)
        return '{| pa_shape := %s; pa_in := %s; pa_target := %s; pa_offs := %s; pa_with := %s; pa_obs := %s |}' % (
            C.coq_list(case['shape'], C.coq_nat), C.coq_list(case['values'], C.coq_z), C.coq_list(case['target'], C.coq_nat),
            C.coq_list(offs, C.coq_nat), C.coq_z(case['pad_with']), ob)

    def oracle(self, case, obs):
        if 'raised' in obs:
            return f'pad raised {obs["raised"]}: {obs["msg"]}'
        if 'rejected' in obs:
            return None
        if obs['shape'] != case['target']:
            return f'pad returned shape {obs["shape"]} instead of {case["target"]}'
        if not obs['input_unchanged']:
            return 'input array modified'
        if not obs['integral'] or not obs['dtype_kept']:
            return 'pad changed the dtype or the values'
        return None

    def nontrivial(self, case, obs):
        return 'values' in obs and int(np.prod(case['target'])) > len(case['values'])

    def features(self, case, obs):
        return {'ndim': len(case['shape']), 'rejected': 'rejected' in obs, 'offsets_none': case['offsets'] is None}

    def tags(self, case, obs):
        return ['pad']


# ------------------------------------------------------------------------------------------------ extract_around_indexes
EX_MODES = {'stack': 'ExStack', 'concatenate': 'ExConcat', 'average': 'ExAverage'}


class ExtractKind(Kind):
    name = 'extract'
    header = HDR_S
    case_type = 'ex_case'
    check_fn = 'ex_check'
    explain_fn = 'ex_expected'
    shard = 100
    rule = ('extract_around_indexes(data, indexes, before, after, mode) for the three modes: in-range indexes (first / last admissible '
            'position, repeats, unsorted, empty index array), before/after 0..4, int and float data; also negative positions (numpy '
            'wrap-around) and positions past the end (IndexError); non-trivial = at least two indexes and before + after >= 1')

    def gen(self, rng, tier):
        n = 70 if tier == 'quick' else 900
        for k in range(n):
            mode = ['stack', 'concatenate', 'average'][k % 3]
            L = rng.randint(1, 14)
            dtype = rng.choice(['float64', 'int16', 'uint8', 'float32'])
            vals, den = _rand_values(rng, L, dtype, 'rand')
            before, after = rng.randint(0, 4), rng.randint(0, 4)
            lo, hi = before, L - 1 - after
            kind = k % 10
            if kind == 9 or lo > hi:           # out of range somewhere (wrap-around or IndexError)
                idx = [rng.randint(-L - 2, L + 2) for _ in range(rng.randint(1, 4))]
            elif kind == 8:
                idx = []
            else:
                idx = [rng.choice([lo, hi, rng.randint(lo, hi)]) for _ in range(rng.randint(1, 5))]
            yield {'values': vals, 'den': den, 'dtype': dtype, 'shape': [L], 'indexes': idx, 'before': before, 'after': after,
                   'mode': mode, 'idx_dtype': rng.choice(['int64', 'int32'])}

    def run(self, case):
        from scared import signal_processing as sp
        a = _arr(case)
        idx = np.array(case['indexes'], dtype=case['idx_dtype'])
        before = a.copy()
        with warnings.catch_warnings():
            warnings.simplefilter('ignore')
            try:
                r = sp.extract_around_indexes(a, idx, case['before'], case['after'], sp.ExtractMode(case['mode']))
            except IndexError as e:
                return {'rejected': 'IndexError', 'msg': str(e)[:100]}
        return {'shape': list(r.shape), 'values': _flat(r), 'input_unchanged': bool(np.array_equal(a, before))}

    def coq(self, case, obs):
        ob = 'None' if ('rejected' in obs or 'raised' in obs) else '(Some (%s, %s))' % (
            C.coq_list(obs['shape'], C.coq_nat), C.coq_list(obs['values'], F))
        return '{| ex_data := %s; ex_prec := %s; ex_idx := %s; ex_before := %s; ex_after := %s; ex_mode := %s; ex_obs := %s |}' % (
            C.coq_list(_flat(_arr(case)), F), 'F32' if case['dtype'] == 'float32' else 'F64', C.coq_list(case['indexes'], C.coq_z), C.coq_nat(case['before']), C.coq_nat(case['after']),
            EX_MODES[case['mode']], ob)

    def oracle(self, case, obs):
        if 'raised' in obs:
            return f'extract_around_indexes raised {obs["raised"]}: {obs["msg"]}'
        if 'values' in obs and not obs['input_unchanged']:
            return 'input array modified'
        return None

    def nontrivial(self, case, obs):
        return 'values' in obs and len(case['indexes']) >= 2 and case['before'] + case['after'] >= 1

    def features(self, case, obs):
        return {'mode': case['mode'], 'rejected': 'rejected' in obs, 'n_idx': min(len(case['indexes']), 5)}

    def tags(self, case, obs):
        return ['extract', 'extract_' + case['mode']]

    def shrink(self, case):
        idx = case['indexes']
        for i in range(len(idx)):
            if len(idx) > 1:
                yield dict(case, indexes=idx[:i] + idx[i + 1:])


# ------------------------------------------------------------------------------------------------ find_peaks / find_width
def _signals(alphabet, nmax):
    for n in range(0, nmax + 1):
        for t in itertools.product(alphabet, repeat=n):
            yield list(t)


def _mask(st):
    """Set of small naturals -> bit mask (see Model/Peaks.v: unmask)."""
    return sum(1 << v for v in st)


def _zheight(h):
    return 'ZNegInf' if h == '-inf' else 'ZPosInf' if h == '+inf' else '(ZFin %s)' % C.coq_z(h)


def _data_array(case):
    den = case['den']
    if den == 1 and case['dtype'].startswith(('int', 'uint')):
        return np.array(case['data'], dtype=case['dtype'])
    return (np.array(case['data'], dtype='float64') / den).astype(case['dtype'])


class PeaksKind(Kind):
    name = 'find_peaks'
    header = HDR_P
    case_type = 'pk_case'
    check_fn = 'pk_check'          # property clauses only, on the observed result
    corr_fn = 'pk_corr'            # equality with the repaired scan of the model (tie-breaking is not part of the property)
    explain_fn = 'pk_expected'
    shard = 400
    rule = ('find_peaks(data, d, h): EVERY 1-D signal of length 0..7 (quick) / 0..9 (thorough) over a 3-value alphabet x every '
            'distance 0..len+1 x heights {-inf, below, each value, between, above, +inf}; 4-value alphabet sampled (quick) / every signal of '
            'length 0..8 (thorough); plateaus, ties, '
            'peaks at both ends and every last sample are all in that block; random signals of length 10..80 with random distances '
            'and heights (int and float dtypes); the D10 regression signal; check_fn: candidates only, ascending and >= d apart, every '
            'dropped candidate dominated (property level); corr_fn: equality with the repaired scan (correspondence level); non-trivial = at least two candidates and d >= 2')

    def gen(self, rng, tier):
        heights3 = ['-inf', 1, 2, 3, 4, 5, '+inf']          # numerators over den = 2 : data values 0, 1, 2 are 0, 2, 4
        # D10 regression signal and variants of its last sample
        for last in (4, 0, 1, 7):
            yield {'data': [2, 0, 4, 0, 6, 0, 0, 0, 0, 0, 0, 2 * last], 'den': 2, 'dtype': 'float64',
                   'queries': [[d, h] for d in range(0, 14) for h in ('-inf', 1)]}
        nmax = 7 if tier == 'quick' else 9
        for sig in _signals([0, 2, 4], nmax):
            n = len(sig)
            hs = heights3 if n <= 5 else ['-inf', 2, 3, 4, '+inf'] if n <= 7 else ['-inf', 2, 3, 4]   # 1 ~ 2 and 5 ~ +inf select the same samples
            yield self._grid_case(sig, 2, 'float64' if n % 2 else 'float32', hs, n + 2)
        # 4-value alphabet: sampled (quick) / every signal of length <= 8 with three of the six height positions (thorough)
        h4 = ['-inf', 0, 1, 2, 3, 4]
        if tier == 'quick':
            for _ in range(2500):
                n = rng.randint(4, nmax + 1)
                sig = [rng.choice([0, 1, 2, 3]) for _ in range(n)]
                yield self._grid_case(sig, 1, rng.choice(['int16', 'uint8', 'float64', 'int64']), rng.sample(h4, 3), n + 2)
        else:
            for sig in _signals([0, 1, 2, 3], 8):
                n = len(sig)
                yield self._grid_case(sig, 1, ['int16', 'uint8', 'float64', 'int64'][n % 4], rng.sample(h4, 3), n + 2)
        # random longer signals
        nl = 300 if tier == 'quick' else 6000
        for k in range(nl):
            n = rng.randint(10, 80)
            style = k % 4
            if style == 0:
                sig = [rng.randint(0, 3) for _ in range(n)]
            elif style == 1:
                sig = [rng.randint(-40, 40) for _ in range(n)]
            elif style == 2:      # sparse peaks on a flat floor (plateaus everywhere)
                sig = [rng.randint(1, 9) if rng.random() < 0.25 else 0 for _ in range(n)]
            else:                 # random walk
                sig, v = [], 0
                for _ in range(n):
                    v += rng.randint(-2, 2)
                    sig.append(v)
            den = rng.choice([1, 1, 4])
            dtype = rng.choice(['int32', 'int16', 'float64']) if den == 1 else rng.choice(['float64', 'float32'])
            lo, hi = min(sig), max(sig)
            qs = []
            for _ in range(6):
                d = rng.choice([0, 1, 2, 3, rng.randint(2, 12), rng.randint(2, n + 2)])
                h = rng.choice(['-inf', '-inf', rng.randint(lo - 1, hi + 1), '+inf' if rng.random() < 0.1 else lo])
                qs.append([d, h])
            yield {'data': sig, 'den': den, 'dtype': dtype, 'queries': qs, 'grid': None}

    @staticmethod
    def _grid_case(sig, den, dtype, hs, nd):
        return {'data': sig, 'den': den, 'dtype': dtype, 'grid': {'hs': hs, 'nd': nd},
                'queries': [[d, h] for h in hs for d in range(nd)]}

    def run(self, case):
        from scared import signal_processing as sp
        a = _data_array(case)
        before = a.copy()
        out = []
        for d, h in case['queries']:
            hv = -np.inf if h == '-inf' else np.inf if h == '+inf' else (h / case['den'] if case['den'] != 1 else h)
            r = sp.find_peaks(a, d, hv)
            out.append([int(v) for v in r])
        return {'peaks': out, 'input_unchanged': bool(np.array_equal(a, before))}

    def coq(self, case, obs):
        peaks = obs.get('peaks', [[] for _ in case['queries']])
        n = len(case['data'])
        grid = case.get('grid')
        if grid and n <= 12 and all(all(0 <= p < n for p in pk) and all(a < b for a, b in zip(pk, pk[1:])) for pk in peaks):
            return '{| pk_data := %s; pk_queries := []; pk_hs := %s; pk_nd := %s; pk_masks := %s%%N |}' % (
                C.coq_list(case['data'], C.coq_z), C.coq_list(grid['hs'], _zheight), C.coq_nat(grid['nd']),
                C.coq_list([_mask(pk) for pk in peaks]))
        qs = ['pkq %d %s %s%%nat' % (d, _zheight(h), C.coq_list([p if 0 <= p < 5000 else 4999 for p in pk]))
              for (d, h), pk in zip(case['queries'], peaks)]
        return '{| pk_data := %s; pk_queries := %s; pk_hs := []; pk_nd := 0; pk_masks := [] |}' % (
            C.coq_list(case['data'], C.coq_z), C.coq_list(qs))

    def oracle(self, case, obs):
        if 'raised' in obs:
            return f'find_peaks raised {obs["raised"]}: {obs["msg"]}'
        if not obs['input_unchanged']:
            return 'input array modified'
        return None

    def nontrivial(self, case, obs):
        return any(d >= 2 for d, _ in case['queries']) and len(set(case['data'])) >= 2 and len(case['data']) >= 3

    def features(self, case, obs):
        n = len(case['data'])
        return {'len': n if n <= 9 else '10+', 'dtype': case['dtype']}

    def tags(self, case, obs):
        return ['find_peaks']

    def sample(self, case, obs):
        return {'case': dict(case, queries=case['queries'][:4]), 'observed': {'peaks': obs.get('peaks', [])[:4]}}

    def shrink(self, case):
        qs = case['queries']
        if len(qs) > 1:
            h = len(qs) // 2
            yield dict(case, queries=qs[:h], grid=None)
            yield dict(case, queries=qs[h:], grid=None)
        else:
            data = case['data']
            for i in range(len(data)):
                yield dict(case, data=data[:i] + data[i + 1:], grid=None)


def _zwmode(m):
    return {'min': 'ZWMin %d', 'minmax': 'ZWMinMax %d %d', 'delta': 'ZWDelta %d %d', 'minmaxdelta': 'ZWMinMaxDelta %d %d %d'}[m[0]] % tuple(m[1:])


def _modes(rng, n, k, boundary=4):
    """k random valid (mode, parameters) + the boundary ones."""
    out = [['min', 1], ['min', 2], ['minmax', 1, 1], ['delta', 2, 1]][:boundary]
    for _ in range(k):
        r = rng.random()
        mn = rng.randint(1, max(1, n))
        if r < 0.3:
            out.append(['min', mn])
        elif r < 0.6:
            out.append(['minmax', mn, rng.randint(1, max(1, n))])
        elif r < 0.9:
            mn = rng.randint(2, max(2, n))
            out.append(['delta', mn, rng.randint(1, mn - 1)])
        else:
            out.append(['minmaxdelta', mn, rng.randint(1, max(1, n)), rng.randint(1, 3)])
    return out


class WidthKind(Kind):
    name = 'find_width'
    header = HDR_P
    case_type = 'fw_case'
    check_fn = 'fw_check'
    explain_fn = 'fw_expected'
    shard = 400
    rule = ('find_width(data, direction, threshold, min_width[, max_width][, delta]): EVERY signal of length 0..7 (quick) / 0..9 '
            '(thorough) over a 3-value alphabet x both directions x every threshold position (below, on each value, between, above) '
            'x width modes (min 1, min 2, [1,1], 2+-1 and random valid ones incl. max_width with delta); runs touching either end, '
            'adjacent runs, whole-signal runs are in that block; random longer signals; compared with the brute-force enumeration of '
            'bracketed maximal runs and with the gap construction; non-trivial = at least one row returned')

    def gen(self, rng, tier):
        nmax = 7 if tier == 'quick' else 9
        thr3 = [-1, 0, 1, 2, 3, 4, 5]                          # numerators over den = 2 for data values 0, 2, 4
        for sig in _signals([0, 2, 4], nmax):
            n = len(sig)
            thrs = thr3 if n <= 5 else thr3[1:-1]
            modes = _modes(rng, n, 2, boundary=4) if n <= 5 else _modes(rng, n, 2, boundary=2) if n <= 7 else _modes(rng, n, 2, boundary=1)
            yield {'data': sig, 'den': 2, 'dtype': 'float64' if n % 2 else 'int16x', 'grid': {'thrs': thrs, 'modes': modes},
                   'queries': [[dr, t, m] for dr in ('positive', 'negative') for t in thrs for m in modes]}
        nl = 300 if tier == 'quick' else 6000
        for k in range(nl):
            n = rng.randint(8, 60)
            if k % 3 == 0:
                sig = [rng.randint(0, 2) for _ in range(n)]
            elif k % 3 == 1:      # long runs
                sig, v = [], rng.randint(0, 3)
                for _ in range(n):
                    if rng.random() < 0.3:
                        v = rng.randint(0, 3)
                    sig.append(v)
            else:
                sig = [rng.randint(-20, 20) for _ in range(n)]
            den = rng.choice([1, 1, 2])
            dtype = rng.choice(['int32', 'int16', 'float64']) if den == 1 else 'float64'
            qs = [[rng.choice(['positive', 'negative']), rng.randint(min(sig) - 1, max(sig) + 1), m] for m in _modes(rng, min(n, 10), 3)]
            yield {'data': sig, 'den': den, 'dtype': dtype, 'queries': qs, 'grid': None}

    def run(self, case):
        from scared import signal_processing as sp
        c = dict(case)
        if c['dtype'] == 'int16x':      # integer data with a float threshold: data given unscaled
            c = dict(c, data=[v // case['den'] for v in case['data']], den=1, dtype='int16')
        a = _data_array(c)
        before = a.copy()
        out = []
        with warnings.catch_warnings():
            warnings.simplefilter('ignore')
            for dr, t, m in case['queries']:
                thr = t / case['den'] if case['den'] != 1 else t
                direction = sp.Direction.POSITIVE if dr == 'positive' else sp.Direction.NEGATIVE
                kw = {}
                if m[0] in ('minmax', 'minmaxdelta'):
                    kw['max_width'] = m[2]
                if m[0] == 'delta':
                    kw['delta'] = m[2]
                if m[0] == 'minmaxdelta':
                    kw['delta'] = m[3]
                r = sp.find_width(a, direction, thr, m[1], **kw)
                r = np.asarray(r)
                if r.ndim != 2 or r.shape[1] != 2:
                    return {'raised': 'BadShape', 'msg': str(r.shape)}
                out.append([[int(v[0]), int(v[1])] for v in r])
        return {'rows': out, 'input_unchanged': bool(np.array_equal(a, before))}

    def coq(self, case, obs):
        rows = obs.get('rows', [[] for _ in case['queries']])
        n = len(case['data'])
        grid = case.get('grid')

        def ok(rw):
            st, en = [a for a, _ in rw], [b for _, b in rw]
            return (all(0 <= v <= n for v in st + en) and all(a < b for a, b in zip(st, st[1:]))
                    and all(a < b for a, b in zip(en, en[1:])))
        if grid and n <= 12 and all(ok(rw) for rw in rows):
            masks = [_mask([a for a, _ in rw] + [n + 1 + b for _, b in rw]) for rw in rows]
            return '{| fw_data := %s; fw_queries := []; fw_thrs := %s; fw_modes := %s; fw_masks := %s%%N |}' % (
                C.coq_list(case['data'], C.coq_z), C.coq_list(grid['thrs'], C.coq_z), C.coq_list(grid['modes'], _zwmode),
                C.coq_list(masks))
        qs = []
        for (dr, t, m), rw in zip(case['queries'], rows):
            clip = [(min(max(a, 0), 4999), min(max(b, 0), 4999)) for a, b in rw]
            qs.append('fwq %s %s (%s) %s%%nat' % ('Positive' if dr == 'positive' else 'Negative', C.coq_z(t), _zwmode(m),
                                                 C.coq_list(clip, lambda p: '(%d, %d)' % p)))
        return '{| fw_data := %s; fw_queries := %s; fw_thrs := []; fw_modes := []; fw_masks := [] |}' % (
            C.coq_list(case['data'], C.coq_z), C.coq_list(qs))

    def oracle(self, case, obs):
        if 'raised' in obs:
            return f'find_width raised {obs["raised"]}: {obs["msg"]}'
        if not obs['input_unchanged']:
            return 'input array modified'
        if any(a < 0 or b < 0 for rw in obs['rows'] for a, b in rw):
            return 'find_width returned a negative index'
        return None

    def nontrivial(self, case, obs):
        return any(len(r) > 0 for r in obs.get('rows', []))

    def features(self, case, obs):
        n = len(case['data'])
        return {'len': n if n <= 9 else '10+', 'rows': min(sum(len(r) for r in obs.get('rows', [])), 5)}

    def tags(self, case, obs):
        return ['find_width']

    def sample(self, case, obs):
        return {'case': dict(case, queries=case['queries'][:4]), 'observed': {'rows': obs.get('rows', [])[:4]}}

    def shrink(self, case):
        qs = case['queries']
        if len(qs) > 1:
            h = len(qs) // 2
            yield dict(case, queries=qs[:h], grid=None)
            yield dict(case, queries=qs[h:], grid=None)
        else:
            data = case['data']
            for i in range(len(data)):
                yield dict(case, data=data[:i] + data[i + 1:], grid=None)


def _spread(gen):
    """Interleave the (costly) long random signals with the short exhaustive ones so that the Coq shards are balanced."""
    def wrapped(self, rng, tier):
        cases = list(gen(self, rng, tier))
        long_ = [c for c in cases if len(c['data']) > 9]
        short = [c for c in cases if len(c['data']) <= 9]
        step = max(1, len(short) // (len(long_) + 1))
        out, k = [], 0
        for i, c in enumerate(short):
            out.append(c)
            if (i + 1) % step == 0 and k < len(long_):
                out.append(long_[k])
                k += 1
        return out + long_[k:]
    return wrapped


PeaksKind.gen = _spread(PeaksKind.gen)
WidthKind.gen = _spread(WidthKind.gen)

KINDS = [MovingKind(), PatternKind(), PadKind(), ExtractKind(), PeaksKind(), WidthKind()]
