"""C20 — Synchronizer output is exactly the accepted traces, in order, with own metadata.

C-tie: the real scared.Synchronizer(ths, output, f).run() is driven with a scripted user function (accept / return
None / raise, by call number); the ETS file it wrote is read back with estraces and compared, inside Coq, with the
spec list `accepted` and with the store of the impl-model (Model/Sync.v: sync_check).
"""
import itertools
import os
import warnings
from pathlib import Path

import numpy as np

from lib.kinds import Kind
from lib import core
from translate import common as C

ID = 'C20'
TRANSLATORS = []
MODEL_TARGETS = ['theories/Model/Sync.vo']
PROP_TARGET = 'theories/Props/C20.vo'
EXHAUSTIVE = False
TRUSTED_BASE = [
    'Coq 8.16.1 kernel incl. vm_compute (no native_compute)',
    'Print Assumptions: every theorem of Props/C20.v is closed under the global context (no axioms)',
    'correspondence harness tools/props/C20.py: scripted user function, read-back of the ETS file with estraces, exact export of dyadic values as 2*v',
    'trusted, not verified: estraces ETSWriter.write_trace_object_and_points writes (metadata, points) at the index it is given and the ETS reader returns what the file holds',
    'modelled, not verified: Python for/try/except/finally control flow of Synchronizer.run (hand-written impl-model, held by the correspondence check)',
]
ASSUMPTIONS = [
    'the user function raises subclasses of Exception (KeyboardInterrupt and other BaseException are deliberately propagated by the code)',
    'all accepted traces of one run return data of the same length and dtype (the ETS samples dataset is rectangular)',
    'warnings are not configured as errors (a UserWarning turned into an exception would escape from the except handler)',
]

HDR = 'From ScaredV Require Import Model.Sync.'

EXC_KINDS = ['resynchro', 'value', 'zerodiv', 'index', 'custom', 'assertion', 'stopiteration', 'synchronizer']
_counter = itertools.count()


class _CustomError(Exception):
    pass


def _raise(kind):
    import scared
    if kind == 'resynchro':
        raise scared.ResynchroError('rejected')
    if kind == 'value':
        raise ValueError('bad trace')
    if kind == 'zerodiv':
        return 1 // 0
    if kind == 'index':
        return [][1]
    if kind == 'custom':
        raise _CustomError('custom')
    if kind == 'assertion':
        assert False, 'assertion'
    if kind == 'stopiteration':
        raise StopIteration()
    if kind == 'synchronizer':
        raise scared.SynchronizerError('user raised the library error')
    raise ValueError(kind)


def _rows(case):
    """Effective input rows (meta, samples) after the optional sub-set selection."""
    sel = case.get('select')
    idx = list(range(len(case['samples']))) if sel is None else sel
    return [(case['plaintext'][i] + case['key'][i], case['samples'][i]) for i in idx]


def _returned(case, i, samples_row):
    """Data (scaled by 2, as exact ints) the scripted function returns at call i on a trace with these samples."""
    k = case['out_len']
    L = len(samples_row)
    return [2 * samples_row[j % L] + case['offs2'][i] for j in range(k)]


def _x2(a):
    """Exact export of dyadic values as integers 2*v; None when a value is not a half-integer."""
    a = np.asarray(a, dtype='float64').reshape(-1)
    d = a * 2
    if not np.all(np.isfinite(d)) or not np.all(d == np.round(d)):
        return None
    return [int(v) for v in d]


def _read_rows(ths):
    n = len(ths)
    if n == 0:
        return []
    samples = np.asarray(ths.samples[:])
    pt = np.asarray(ths.plaintext)
    key = np.asarray(ths.key)
    rows = []
    for j in range(n):
        s2 = _x2(samples[j])
        rows.append({'meta': [int(v) for v in pt[j].reshape(-1)] + [int(v) for v in key[j].reshape(-1)], 'data2': s2})
    return rows


def make_case(rng, n, pattern, L=None, out_len=None, dtype=None, out_dtype=None, out_kind=None, select=None, full=None):
    """pattern is over the EFFECTIVE input (after select); full = number of traces of the underlying set."""
    L = L or rng.randint(1, 5)
    dtype = dtype or rng.choice(['uint8', 'int16', 'float32'])
    out_dtype = out_dtype or rng.choice(['float32', 'float64', 'int16', 'int32'])
    full = full if full is not None else n
    lo, hi = (0, 255) if dtype == 'uint8' else (-300, 300)
    samples = [[rng.randint(lo, hi) for _ in range(L)] for _ in range(full)]
    # metadata: distinct per trace so that a mis-pairing is visible
    plaintext = [[i % 256, rng.randint(0, 255), rng.randint(0, 255)] for i in range(full)]
    key = [[(i // 256) % 256, rng.randint(0, 255)] for i in range(full)]
    half = out_dtype.startswith('float')
    offs2 = [(2 * rng.randint(-3, 3) + (1 if half and rng.random() < 0.7 else 0)) for _ in range(n)]
    return {'samples': samples, 'plaintext': plaintext, 'key': key, 'dtype': dtype, 'select': select,
            'pattern': ''.join(pattern), 'exc': [rng.choice(EXC_KINDS) for _ in range(n)],
            'out_len': out_len if out_len is not None else rng.choice([L, max(1, L - 1), L + 1, 1, 2 * L + 1]),
            'out_dtype': out_dtype, 'offs2': offs2, 'out_kind': out_kind or rng.choice(['str', 'path'])}


class SyncKind(Kind):
    name = 'synchronizer'
    header = HDR
    case_type = 'sync_case'
    check_fn = 'sync_check'
    explain_fn = 'sync_expected'
    shard = 60
    rule = ('scared.Synchronizer(read_ths_from_ram set or sub-set, ETS file name as str/Path, scripted function).run(): ALL 3^n '
            'accept/None/raise patterns for n <= 5 (quick) / 6 (thorough), failure runs >= 8 and >= 16 (warning path) at the start, '
            'middle and end, first/last rejected, all rejected, all accepted, empty input set, returned data shorter/equal/longer '
            'than the trace, several exception classes, sub-sets with repeated traces; non-trivial = at least one accepted and one '
            'rejected trace')

    def gen(self, rng, tier):
        nmax = 5 if tier == 'quick' else 6
        # --- boundary block: every pattern of length <= nmax (incl. the empty input set)
        yield make_case(rng, 0, [])
        for n in range(1, nmax + 1):
            for pat in itertools.product('ANR', repeat=n):
                yield make_case(rng, n, pat)
        # --- long runs of consecutive failures: >= 8, >= 16, >= 32 (warning path), at the start / middle / end
        for run_len in (7, 8, 9, 15, 16, 17, 24, 33):
            for where in ('start', 'middle', 'end', 'only'):
                for fill in ('R', 'N', 'mix'):
                    fails = [('R' if fill == 'R' else 'N' if fill == 'N' else rng.choice('RN')) for _ in range(run_len)]
                    pre = [rng.choice('AAANR') for _ in range(rng.randint(1, 4))] + ['A']
                    post = ['A'] + [rng.choice('AAANR') for _ in range(rng.randint(1, 4))]
                    pat = {'start': fails + post, 'middle': pre + fails + post, 'end': pre + fails, 'only': fails}[where]
                    yield make_case(rng, len(pat), pat)
        # two long runs separated by a single accepted trace (the consecutive counter restarts)
        for a, b in ((8, 8), (9, 16), (16, 9)):
            pat = ['R'] * a + ['A'] + ['N'] * b + ['A']
            yield make_case(rng, len(pat), pat)
        # first / last rejected, all accepted, all rejected for several sizes and output conventions
        for n in (1, 2, 3, 7, 12, 20):
            for out_kind in ('str', 'path'):
                yield make_case(rng, n, ['R'] + ['A'] * (n - 1), out_kind=out_kind)
                yield make_case(rng, n, ['A'] * (n - 1) + ['N'], out_kind=out_kind)
                yield make_case(rng, n, ['A'] * n, out_kind=out_kind)
                yield make_case(rng, n, [rng.choice('RN') for _ in range(n)], out_kind=out_kind)
        # returned data shorter / equal / longer than the input trace, every trace dtype
        for L, k in ((4, 1), (4, 3), (4, 4), (4, 5), (4, 9), (1, 1), (1, 4), (6, 2)):
            for dtype in ('uint8', 'int16', 'float32'):
                n = rng.randint(4, 9)
                pat = [rng.choice('AAANR') for _ in range(n)]
                yield make_case(rng, n, pat, L=L, out_len=k, dtype=dtype)
        # --- random structure
        nrand = 120 if tier == 'quick' else 1500
        for _ in range(nrand):
            full = rng.randint(1, 24)
            select = None
            n = full
            r = rng.random()
            if r < 0.15:        # sub-set by index list (order changed, repeats)
                select = [rng.randrange(full) for _ in range(rng.randint(1, 12))]
                n = len(select)
            elif r < 0.3:       # sub-set by slice
                a = rng.randint(0, full - 1)
                b = rng.randint(a + 1, full)
                select = list(range(a, b, rng.choice([1, 1, 2, 3])))
                n = len(select)
            w = rng.choice(['AAAAANR', 'ANR', 'ANNRRR', 'AR', 'AN'])
            pat = [rng.choice(w) for _ in range(n)]
            yield make_case(rng, n, pat, select=select, full=full)

    def run(self, case):
        import estraces
        import scared
        n_full = len(case['samples'])
        L = len(case['samples'][0]) if n_full else 3
        samples = np.array(case['samples'], dtype=case['dtype']).reshape(n_full, L)
        plaintext = np.array(case['plaintext'], dtype='uint8').reshape(n_full, 3)
        key = np.array(case['key'], dtype='uint8').reshape(n_full, 2)
        ths = estraces.read_ths_from_ram(samples=samples, plaintext=plaintext, key=key)
        if case['select'] is not None:
            ths = ths[case['select']]
        pattern = case['pattern']
        seen = []

        def function(trace_object):
            i = len(seen)
            arr = np.asarray(trace_object.samples.array)
            seen.append({'meta': [int(v) for v in trace_object.plaintext] + [int(v) for v in trace_object.key],
                         'samples': [int(v) for v in arr]})
            if i >= len(pattern):
                raise RuntimeError('function called more often than there are traces')
            p = pattern[i]
            if p == 'N':
                return None
            if p == 'R':
                return _raise(case['exc'][i])
            k = case['out_len']
            return (np.resize(arr.astype('float64'), k) + case['offs2'][i] / 2).astype(case['out_dtype'])

        core.WORK.mkdir(exist_ok=True)
        fname = str(core.WORK / f'c20_{os.getpid()}_{next(_counter)}.ets')
        if os.path.exists(fname):
            os.remove(fname)
        output = fname if case['out_kind'] == 'str' else Path(fname)
        obs = {}
        reader = None
        reread = None
        try:
            with warnings.catch_warnings(record=True) as wlist:
                warnings.simplefilter('always')
                sync = scared.Synchronizer(ths, output, function)
                try:
                    reader = sync.run()
                    obs['run'] = 'returned'
                except AttributeError as e:       # ETSWriter.get_reader: the file was never created
                    obs['run'] = 'no_output_set'
                    obs['run_msg'] = str(e)[:120]
                obs['processed'] = int(sync.processed_counter)
                obs['synchronized'] = int(sync.synchronized_counter)
                obs['warnings'] = len([w for w in wlist if issubclass(w.category, UserWarning) and 'consecutive' in str(w.message)])
                # second run() on the same object, BEFORE the file is read back (it must change nothing)
                ncalls = len(seen)
                try:
                    r2 = sync.run()
                    obs['second'] = 'returned'
                    try:
                        r2.close()
                    except Exception:
                        pass
                except scared.SynchronizerError:
                    obs['second'] = 'refused'
                except Exception as e:
                    obs['second'] = 'raised ' + type(e).__name__
                obs['second_unchanged'] = bool(len(seen) == ncalls and sync.processed_counter == obs['processed']
                                               and sync.synchronized_counter == obs['synchronized'])
            obs['seen'] = seen[:ncalls]
            if reader is not None:
                obs['rows'] = _read_rows(reader)
                reader.close()
                reader = None
                if os.path.exists(fname):
                    reread = estraces.read_ths_from_ets_file(fname)
                    obs['rows_reread'] = _read_rows(reread)
            else:
                obs['rows'] = None
                obs['file_exists'] = os.path.exists(fname)
        finally:
            for r in (reader, reread):
                try:
                    if r is not None:
                        r.close()
                except Exception:
                    pass
            try:
                sync.output.close()
            except Exception:
                pass
            if os.path.exists(fname):
                os.remove(fname)
        return obs

    @staticmethod
    def _zrow(meta, data):
        return '(%s, %s)' % (C.coq_list(meta, C.coq_z), C.coq_list(data, C.coq_z))

    def coq(self, case, obs):
        rows = _rows(case)
        # inputs are exported scaled by 2 like the outputs (same unit on both sides)
        inp = [self._zrow(m, [2 * v for v in s]) for m, s in rows]
        pats = []
        for i, p in enumerate(case['pattern']):
            if p == 'A':
                pats.append('(Accept %s)' % C.coq_list(_returned(case, i, rows[i][1]), C.coq_z))
            else:
                pats.append('ReturnNone' if p == 'N' else 'Raise')
        if 'raised' in obs:
            return ('{| sy_input := %s; sy_pattern := %s; sy_obs_seen := []; sy_obs_processed := 0%%nat; sy_obs_synchronized := 0%%nat; '
                    'sy_obs_rows := None; sy_obs_second_refused := false |}' % (C.coq_list(inp), C.coq_list(pats)))
        seen = [self._zrow(s['meta'], [2 * v for v in s['samples']]) for s in obs['seen']]
        if obs['rows'] is None:
            orows = 'None'
        else:
            orows = '(Some %s)' % C.coq_list([self._zrow(r['meta'], r['data2'] if r['data2'] is not None else []) for r in obs['rows']])
        return ('{| sy_input := %s; sy_pattern := %s; sy_obs_seen := %s; sy_obs_processed := %s; sy_obs_synchronized := %s; '
                'sy_obs_rows := %s; sy_obs_second_refused := %s |}' % (
                    C.coq_list(inp), C.coq_list(pats), C.coq_list(seen), C.coq_nat(obs['processed']), C.coq_nat(obs['synchronized']),
                    orows, C.coq_bool(obs['second'] == 'refused' and obs['second_unchanged'])))

    def oracle(self, case, obs):
        if 'raised' in obs:
            return f'Synchronizer raised {obs["raised"]}: {obs["msg"]}'
        if obs['rows'] is not None:
            if any(r['data2'] is None for r in obs['rows']):
                return 'output file holds values that are not the half-integers the function returned'
            if obs.get('rows_reread') != obs['rows']:
                return 'the trace set returned by run() differs from the file read again from disk'
        return None

    def nontrivial(self, case, obs):
        return 'A' in case['pattern'] and ('R' in case['pattern'] or 'N' in case['pattern'])

    def features(self, case, obs):
        p = case['pattern']
        longest = max((len(list(g)) for k, g in itertools.groupby(p, key=lambda c: c != 'A') if k), default=0)
        return {'n': min(len(p), 30) // 5 * 5, 'accepted': 'none' if 'A' not in p else ('all' if set(p) == {'A'} else 'some'),
                'longest_failure_run': '>=32' if longest >= 32 else '>=16' if longest >= 16 else '>=8' if longest >= 8 else '<8',
                'warnings_observed': obs.get('warnings', -1), 'out_kind': case['out_kind'],
                'data_len': 'shorter' if case['out_len'] < len((case['samples'] or [[0] * 3])[0]) else
                            'equal' if case['out_len'] == len((case['samples'] or [[0] * 3])[0]) else 'longer',
                'subset': case['select'] is not None}

    def tags(self, case, obs):
        return ['synchronizer']

    def sample(self, case, obs):
        c = {k: case[k] for k in ('pattern', 'out_len', 'out_kind', 'dtype', 'out_dtype', 'select')}
        o = {k: obs.get(k) for k in ('processed', 'synchronized', 'second', 'run', 'warnings')}
        if obs.get('rows'):
            o['rows'] = obs['rows'][:3]
        return {'case': c, 'observed': o}

    def shrink(self, case):
        """Drop one effective input trace (and its script entry)."""
        rows_n = len(case['pattern'])
        if rows_n <= 1:
            return
        sel = case['select'] if case['select'] is not None else list(range(len(case['samples'])))
        for i in range(rows_n):
            c = dict(case)
            c['select'] = sel[:i] + sel[i + 1:]
            c['pattern'] = case['pattern'][:i] + case['pattern'][i + 1:]
            c['exc'] = case['exc'][:i] + case['exc'][i + 1:]
            c['offs2'] = case['offs2'][:i] + case['offs2'][i + 1:]
            yield c


KINDS = [SyncKind()]
