"""C20 — Synchronizer output is exactly the accepted traces, in order, with own metadata.

C-tie: a real scared.Synchronizer object is driven through a HISTORY of public calls with a scripted user function
(accept / return None / raise, by call number): construction over an output file that does not exist or was left by a
previous Synchronizer run (overwrite not given / False / True, str / Path, extra kwargs for the function), any number of
check(nb_traces, catch_exceptions) (numpy's global RNG seeded and restored) and str() / report() calls, run(), str(),
run() again.  What every call did, the counters after every call, the traces and kwargs the function received, and the
ETS file read back are compared, inside Coq, with the spec list `accepted_from` and with the impl-model's state machine
(Model/Sync.v: sync_check).
"""
import contextlib
import io
import logging
import re
import itertools
import os
import warnings
from pathlib import Path

import numpy as np

from lib.kinds import Kind
from lib import core
from translate import common as C

ID = 'C20'
TRANSLATORS = []
MODEL_TARGETS = ['theories/Model/Sync.vo']
PROP_TARGET = 'theories/Props/C20.vo'
EXHAUSTIVE = False
TRUSTED_BASE = [
    'Coq 8.16.1 kernel incl. vm_compute (no native_compute)',
    'Print Assumptions: every theorem of Props/C20.v is closed under the global context (no axioms)',
    'correspondence harness tools/props/C20.py: scripted user function, read-back of the ETS file with estraces, exact export of dyadic values as 2*v',
    'trusted, not verified: estraces ETSWriter.write_trace_object_and_points writes (metadata, points) at the index it is given and the ETS reader returns what the file holds',
    'modelled, not verified: Python for/try/except/finally control flow of Synchronizer.run (hand-written impl-model, held by the correspondence check)',
]
ASSUMPTIONS = [
    'the user function raises subclasses of Exception (KeyboardInterrupt and other BaseException are deliberately propagated by the code)',
    'all accepted traces of one run return data of the same length and dtype (the ETS samples dataset is rectangular)',
    'warnings are not configured as errors (a UserWarning turned into an exception would escape from the except handler)',
    'a pre-existing output file is a well-formed ETS file with the metadata keys of the input set (it was written by a previous Synchronizer run)',
]

HDR = 'From ScaredV Require Import Model.Sync.'

EXC_KINDS = ['resynchro', 'value', 'zerodiv', 'index', 'custom', 'assertion', 'stopiteration', 'synchronizer']
_counter = itertools.count()


class _CustomError(Exception):
    pass


def _raise(kind):
    import scared
    if kind == 'resynchro':
        raise scared.ResynchroError('rejected')
    if kind == 'value':
        raise ValueError('bad trace')
    if kind == 'zerodiv':
        return 1 // 0
    if kind == 'index':
        return [][1]
    if kind == 'custom':
        raise _CustomError('custom')
    if kind == 'assertion':
        assert False, 'assertion'
    if kind == 'stopiteration':
        raise StopIteration()
    if kind == 'synchronizer':
        raise scared.SynchronizerError('user raised the library error')
    raise ValueError(kind)



PAD = 6      # script entries beyond the expected number of calls (a call beyond the script raises RuntimeError)


def _rows(case):
    """Effective input rows (meta, samples) after the optional sub-set selection."""
    sel = case.get('select')
    idx = list(range(len(case['samples']))) if sel is None else sel
    add = case.get('meta_mode') == 'add'
    return [(case['plaintext'][i] + case['key'][i] + ([_shift_of(case['plaintext'][i])] if add else []), case['samples'][i]) for i in idx]


def _shift_of(plaintext):
    """Value of the metadata the scripted function attaches to the trace object (derived from the trace's own plaintext)."""
    return (7 * int(plaintext[0]) + 3 * int(plaintext[1]) + 1) % 251


def _pattern(case):
    """The script by call number: the calls consumed by each check() of the history, then the run."""
    return ''.join(case.get('segments') or []) + case['pattern'] + 'A' * PAD


def _at(lst, i, default):
    return lst[i] if i < len(lst) else default


def _kw_off2(case):
    kw = case.get('kwargs')
    return int(kw['off2']) if kw else 0


def _returned(case, i, samples_row):
    """Data (scaled by 2, as exact ints) the scripted function returns at call i on a trace with these samples."""
    k = case['out_len']
    L = len(samples_row)
    return [2 * samples_row[j % L] + _at(case['offs2'], i, 0) + _kw_off2(case) for j in range(k)]


def _x2(a):
    """Exact export of dyadic values as integers 2*v; None when a value is not a half-integer."""
    a = np.asarray(a, dtype='float64').reshape(-1)
    d = a * 2
    if not np.all(np.isfinite(d)) or not np.all(d == np.round(d)):
        return None
    return [int(v) for v in d]


def _read_rows(ths):
    n = len(ths)
    if n == 0:
        return []
    samples = np.asarray(ths.samples[:])
    pt = np.asarray(ths.plaintext)
    key = np.asarray(ths.key)
    extra = np.asarray(ths.shift) if 'shift' in list(ths.metadatas.keys()) else None
    rows = []
    for j in range(n):
        s2 = _x2(samples[j])
        rows.append({'meta': [int(v) for v in pt[j].reshape(-1)] + [int(v) for v in key[j].reshape(-1)]
                     + ([int(v) for v in np.asarray(extra[j]).reshape(-1)] if extra is not None else []), 'data2': s2})
    return rows


def _consumed(script, catch, n):
    """Part of a check() script that is really called: nothing on an empty set, up to the first rejection when the
    exceptions are not caught."""
    if n == 0:
        return ''
    if catch:
        return script
    for j, ch in enumerate(script):
        if ch != 'A':
            return script[:j + 1]
    return script


# How the user callable declares `trace_object`.  The library documents that trace_object and the extra kwargs are passed
# as NAMED arguments; every one of these callables is valid for that contract and behaves like the same scripted function.
CALLABLES = ['plain', 'lambda', 'kwonly', 'second', 'kwdict', 'varargs', 'partial', 'partial_kwonly', 'object', 'object_kwonly',
             'method', 'method_kwonly', 'decorated']
STRICT = {'kwonly', 'second', 'kwdict', 'partial_kwonly', 'object_kwonly', 'method_kwonly', 'decorated'}   # not callable as f(trace, **kw)


def _wrap(inner, how):
    """inner(trace_object, **kw) seen through a callable of another signature."""
    import functools
    if how == 'plain':
        return inner
    if how == 'lambda':
        return lambda trace_object, **kw: inner(trace_object, **kw)
    if how == 'kwonly':
        def f_kwonly(*, trace_object, **kw):
            return inner(trace_object, **kw)
        return f_kwonly
    if how == 'second':         # another parameter first, supplied through the Synchronizer kwargs
        def f_second(off2, trace_object, **kw):
            return inner(trace_object, off2=off2, **kw)
        return f_second
    if how == 'kwdict':
        def f_kwdict(**kw):
            t = kw.pop('trace_object')
            return inner(t, **kw)
        return f_kwdict
    if how == 'varargs':
        def f_varargs(*args, **kw):
            if args:
                (t,) = args
            else:
                t = kw.pop('trace_object')
            return inner(t, **kw)
        return f_varargs
    if how == 'partial':
        def g(lead, trace_object, **kw):
            assert lead == 'lead'
            return inner(trace_object, **kw)
        return functools.partial(g, 'lead')
    if how == 'partial_kwonly':
        def g2(*, scale, trace_object, **kw):
            assert scale == 1
            return inner(trace_object, **kw)
        return functools.partial(g2, scale=1)
    if how in ('object', 'object_kwonly', 'method', 'method_kwonly'):
        class Resync:
            def __call__(self, trace_object, **kw):
                return inner(trace_object, **kw)

            def m(self, trace_object, **kw):
                return inner(trace_object, **kw)

        class ResyncKw:
            def __call__(self, *, trace_object, **kw):
                return inner(trace_object, **kw)

            def m(self, *, trace_object, **kw):
                return inner(trace_object, **kw)
        o = ResyncKw() if how.endswith('kwonly') else Resync()
        return o if how.startswith('object') else o.m
    if how == 'decorated':      # a generic keyword-forwarding decorator
        def deco(fn):
            @functools.wraps(fn)
            def wrapper(**kwargs):
                return fn(**kwargs)
            return wrapper
        return deco(inner)
    raise ValueError(how)


# How the returned data is REPRESENTED in memory (same logical values): each form was confirmed to be accepted by the
# unchanged code (Python lists / tuples / floats are refused by the ETS writer and are not generated).
RET_FORMS = ['native', 'big', 'strided', 'reversed', 'big_reversed', 'readonly', 'buffer', 'broadcast', 'zero_d', 'np_scalar',
             'row2d', 'input_view']
IN_FORMS = ['native', 'big', 'strided', 'fortran']      # how read_ths_from_ram is given the samples


def _represent(val, form, state):
    """val: freshly computed native 1-D array.  Returns an array with the same logical values in another representation."""
    k = len(val)
    if form == 'big':
        return val.astype(val.dtype.newbyteorder('>'))
    if form == 'strided':
        tmp = np.full(2 * k + 1, 77, dtype=val.dtype)
        tmp[1::2] = val
        return tmp[1::2]
    if form == 'reversed':
        return val[::-1].copy()[::-1]
    if form == 'big_reversed':
        return val[::-1].astype(val.dtype.newbyteorder('>'))[::-1]
    if form == 'readonly':
        val.setflags(write=False)
        return val
    if form == 'buffer':            # the same work buffer is returned by every call
        buf = state.get('buf')
        if buf is None or buf.shape != val.shape or buf.dtype != val.dtype:
            buf = state['buf'] = np.empty_like(val)
        buf[:] = val
        return buf
    if form == 'broadcast' and k and np.all(val == val[0]):
        return np.broadcast_to(val[0], (k,))
    if form == 'zero_d' and k == 1:
        return val.reshape(())
    if form == 'np_scalar' and k == 1:
        return val[0]
    if form == 'row2d':
        return val.reshape(1, k)
    return val


def _in_samples(a, form):
    """The samples array handed to read_ths_from_ram in another memory layout (same values)."""
    n, L = a.shape
    if form == 'big' and a.dtype.itemsize > 1:
        return a.astype(a.dtype.newbyteorder('>'))
    if form == 'strided' and n:
        big = np.full((n, 2 * L + 1), 55, dtype=a.dtype)
        big[:, 1::2] = a
        return big[:, 1::2]
    if form == 'fortran':
        return np.asfortranarray(a)
    return a


def make_case(rng, n, pattern, L=None, out_len=None, dtype=None, out_dtype=None, out_kind=None, select=None, full=None,
              history=None, old=None, overwrite=None, kwargs=None, call=None, ret_form=None, in_form=None, meta_mode=None, log=None):
    """pattern is over the EFFECTIVE input (after select); full = number of traces of the underlying set.
    history: list of ('check', script, catch) | ('str',) | ('report',); script = what the function does at the calls of
    that check() (its length is nb_traces).  old: None or (n_old, L_old): the output file exists, written by a previous
    Synchronizer run that accepted n_old traces of L_old samples."""
    ret_form = ret_form or rng.choice(['native'] * 6 + RET_FORMS)
    in_form = in_form or rng.choice(['native'] * 5 + IN_FORMS)
    if ret_form == 'broadcast' and L is None:
        L = 1
    if ret_form in ('zero_d', 'np_scalar') and out_len is None:
        out_len = 1
    L = L or rng.randint(1, 5)
    dtype = dtype or rng.choice(['uint8', 'int16', 'float32'])
    out_dtype = out_dtype or rng.choice(['float32', 'float64', 'int16', 'int32', 'int64'])
    full = full if full is not None else n
    lo, hi = (0, 255) if dtype == 'uint8' else (-300, 300)
    samples = [[rng.randint(lo, hi) for _ in range(L)] for _ in range(full)]
    # metadata: distinct per trace so that a mis-pairing is visible
    plaintext = [[i % 256, rng.randint(0, 255), rng.randint(0, 255)] for i in range(full)]
    key = [[(i // 256) % 256, rng.randint(0, 255)] for i in range(full)]
    half = out_dtype.startswith('float')
    events, segments = [], []
    for ev in history or []:
        if ev[0] == 'check':
            events.append(['check', len(ev[1]), bool(ev[2])])
            segments.append(_consumed(''.join(ev[1]), ev[2], n))
        else:
            events.append([ev[0]])
            segments.append('')
    total = sum(len(s) for s in segments) + n + PAD
    offs2 = [(2 * rng.randint(-3, 3) + (1 if half and rng.random() < 0.7 else 0)) for _ in range(total)]
    case = {'samples': samples, 'plaintext': plaintext, 'key': key, 'dtype': dtype, 'select': select,
            'pattern': ''.join(pattern), 'exc': [rng.choice(EXC_KINDS) for _ in range(total)],
            'out_len': out_len if out_len is not None else rng.choice([L, max(1, L - 1), L + 1, 1, 2 * L + 1]),
            'out_dtype': out_dtype, 'offs2': offs2, 'out_kind': out_kind or rng.choice(['str', 'path']),
            'history': events, 'segments': segments, 'np_seed': rng.randrange(2 ** 31), 'overwrite': overwrite,
            'old': None, 'kwargs': kwargs, 'callable': call or rng.choice(CALLABLES)}
    if case['callable'] == 'second' and not kwargs:
        case['kwargs'] = {'off2': 2 * rng.randint(-4, 4), 'tag': 'second'}
    case['ret_form'] = ret_form
    case['in_form'] = in_form
    case['meta_mode'] = meta_mode or rng.choice(['none', 'none', 'add'])
    case['logging'] = (rng.choice(LOGGING) if rng.random() < 0.3 else None) if log is None else (log or None)
    if ret_form == 'input_view':    # the function returns a view of the input trace's own samples: no offset, no longer than it
        case['offs2'] = [0] * total
        case['out_len'] = min(case['out_len'], L)
        if case['kwargs']:
            case['kwargs'] = dict(case['kwargs'], off2=0)
    if old is not None:
        n_old, L_old = old
        case['old'] = {'samples': [[rng.randint(-50, 50) for _ in range(L_old)] for _ in range(n_old)],
                       'plaintext': [[200 + i % 50, rng.randint(0, 255), rng.randint(0, 255)] for i in range(n_old)],
                       'key': [[99, rng.randint(0, 255)] for i in range(n_old)]}
    return case


_RE_P = re.compile(r'Processed traces\.*: *(\d+)')
_RE_S = re.compile(r'Synchronized traces\.*: *(\d+)')


def _parse_report(text):
    a, b = _RE_P.search(text), _RE_S.search(text)
    if not a or not b:
        return [4000, 4000]
    return [min(int(a.group(1)), 4000), min(int(b.group(1)), 4000)]


def _report(sync, how):
    """str(sync) or sync.report(): the two printed counters, None when ZeroDivisionError, else a marker."""
    buf = io.StringIO()
    try:
        with contextlib.redirect_stdout(buf):
            if how == 'report':
                sync.report()
                text = buf.getvalue()
            else:
                text = str(sync)
    except ZeroDivisionError:
        return None
    except Exception:
        return [4001, 4001]
    return _parse_report(text)


def _ths(samples, plaintext, key, dtype, in_form='native'):
    import estraces
    n = len(samples)
    L = len(samples[0]) if n else 3
    return estraces.read_ths_from_ram(samples=_in_samples(np.array(samples, dtype=dtype).reshape(n, L), in_form),
                                      plaintext=np.array(plaintext, dtype='uint8').reshape(n, 3),
                                      key=np.array(key, dtype='uint8').reshape(n, 2))


class _ListHandler(logging.Handler):
    def __init__(self):
        super().__init__()
        self.records = []

    def emit(self, record):
        self.records.append(record.getMessage())


LOGGING = [['scared', 'INFO', 'null'], ['scared', 'DEBUG', 'list'], ['scared.synchronization', 'INFO', 'list'],
           ['', 'INFO', 'none'], ['', 'DEBUG', 'null']]


class SyncKind(Kind):
    name = 'synchronizer'
    header = HDR
    case_type = 'sync_case'
    check_fn = 'sync_check'
    explain_fn = 'sync_expected'
    shard = 60
    rule = ('scared.Synchronizer(read_ths_from_ram set or sub-set, ETS file name as str/Path, scripted function).run(): ALL 3^n '
            'accept/None/raise patterns for n <= 5 (quick) / 6 (thorough), failure runs >= 8 and >= 16 (warning path) at the start, '
            'middle and end, first/last rejected, all rejected, all accepted, empty input set, returned data shorter/equal/longer '
            'than the trace, several exception classes, sub-sets with repeated traces, extra kwargs, a metadata attached to the trace '
            'object by the function (accepted and rejected traces), logging enabled at INFO/DEBUG on the scared / root logger, the returned array in 12 memory '
            'representations (big-endian int16/32/64 float32/64, strided, negative stride, read-only, one shared work buffer, zero-stride '
            'broadcast, 0-d, numpy scalar, (1,k), a view of the input samples) x input samples native / big-endian / strided / Fortran, '
            'the user callable drawn from 13 '
            'signatures (see the history kind); non-trivial = at least one '
            'accepted and one rejected trace')

    def gen(self, rng, tier):
        nmax = 5 if tier == 'quick' else 6
        # --- boundary block: every pattern of length <= nmax (incl. the empty input set)
        yield make_case(rng, 0, [])
        for n in range(1, nmax + 1):
            for pat in itertools.product('ANR', repeat=n):
                yield make_case(rng, n, pat)
        # --- long runs of consecutive failures: >= 8, >= 16, >= 32 (warning path), at the start / middle / end
        for run_len in (7, 8, 9, 15, 16, 17, 24, 33):
            for where in ('start', 'middle', 'end', 'only'):
                for fill in ('R', 'N', 'mix'):
                    fails = [('R' if fill == 'R' else 'N' if fill == 'N' else rng.choice('RN')) for _ in range(run_len)]
                    pre = [rng.choice('AAANR') for _ in range(rng.randint(1, 4))] + ['A']
                    post = ['A'] + [rng.choice('AAANR') for _ in range(rng.randint(1, 4))]
                    pat = {'start': fails + post, 'middle': pre + fails + post, 'end': pre + fails, 'only': fails}[where]
                    yield make_case(rng, len(pat), pat)
        # two long runs separated by a single accepted trace (the consecutive counter restarts)
        for a, b in ((8, 8), (9, 16), (16, 9)):
            pat = ['R'] * a + ['A'] + ['N'] * b + ['A']
            yield make_case(rng, len(pat), pat)
        # first / last rejected, all accepted, all rejected for several sizes and output conventions
        for n in (1, 2, 3, 7, 12, 20):
            for out_kind in ('str', 'path'):
                yield make_case(rng, n, ['R'] + ['A'] * (n - 1), out_kind=out_kind)
                yield make_case(rng, n, ['A'] * (n - 1) + ['N'], out_kind=out_kind)
                yield make_case(rng, n, ['A'] * n, out_kind=out_kind)
                yield make_case(rng, n, [rng.choice('RN') for _ in range(n)], out_kind=out_kind)
        # returned data shorter / equal / longer than the input trace, every trace dtype
        for L, k in ((4, 1), (4, 3), (4, 4), (4, 5), (4, 9), (1, 1), (1, 4), (6, 2)):
            for dtype in ('uint8', 'int16', 'float32'):
                n = rng.randint(4, 9)
                pat = [rng.choice('AAANR') for _ in range(n)]
                yield make_case(rng, n, pat, L=L, out_len=k, dtype=dtype)
        # representation of the returned data: every form x every returned dtype (big-endian: every width), and of the input set
        for form in RET_FORMS:
            if form in ('native', 'input_view'):
                continue
            for out_dtype in ('int16', 'int32', 'int64', 'float32', 'float64'):
                yield make_case(rng, 5, 'ARANA', out_dtype=out_dtype, ret_form=form, in_form='native')
        for in_form in IN_FORMS:
            for dtype in ('uint8', 'int16', 'float32'):
                yield make_case(rng, 6, 'AANARA', L=5, dtype=dtype, ret_form='input_view', in_form=in_form)
                yield make_case(rng, 4, 'RAAA', L=3, out_len=2, dtype=dtype, ret_form='native', in_form=in_form)
                yield make_case(rng, 4, 'AAAA', L=4, dtype=dtype, ret_form='big', in_form=in_form,
                                history=[('check', 'AA', True)])
        # metadata attached to the trace object by the user function (stored with the accepted trace it belongs to), and
        # applications that have logging switched on
        for pat in ('AAAA', 'RANAAR', 'NNAR', 'RRR'):
            yield make_case(rng, len(pat), pat, meta_mode='add', log=False, call='plain')
            yield make_case(rng, len(pat), pat, meta_mode='add', log=False, history=[('check', 'ARA', True), ('check', 'AR', False)])
            for lg in LOGGING:
                yield make_case(rng, len(pat), pat, log=lg)
        # --- random structure
        nrand = 90 if tier == 'quick' else 1500
        for _ in range(nrand):
            full = rng.randint(1, 24)
            select = None
            n = full
            r = rng.random()
            if r < 0.15:        # sub-set by index list (order changed, repeats)
                select = [rng.randrange(full) for _ in range(rng.randint(1, 12))]
                n = len(select)
            elif r < 0.3:       # sub-set by slice
                a = rng.randint(0, full - 1)
                b = rng.randint(a + 1, full)
                select = list(range(a, b, rng.choice([1, 1, 2, 3])))
                n = len(select)
            w = rng.choice(['AAAAANR', 'ANR', 'ANNRRR', 'AR', 'AN'])
            pat = [rng.choice(w) for _ in range(n)]
            kwargs = {'off2': 2 * rng.randint(-4, 4), 'tag': rng.choice(['a', 'sync', ''])} if rng.random() < 0.3 else None
            yield make_case(rng, n, pat, select=select, full=full, kwargs=kwargs)

    # ------------------------------------------------------------------------------------------------ driver
    def run(self, case):
        import estraces
        import scared
        from estraces.formats.ets_writer import ETSWriterError
        ths = _ths(case['samples'], case['plaintext'], case['key'], case['dtype'], case.get('in_form', 'native'))
        ret_form = case.get('ret_form', 'native')
        add_meta = case.get('meta_mode') == 'add'
        rstate = {}
        if case['select'] is not None:
            ths = ths[case['select']]
        pattern = _pattern(case)
        expected_kw = dict(case['kwargs']) if case.get('kwargs') else {}
        seen = []

        def function(trace_object, **kw):
            i = len(seen)
            arr = np.asarray(trace_object.samples.array)
            meta = [int(v) for v in trace_object.plaintext] + [int(v) for v in trace_object.key]
            if add_meta:        # the library's "added attributes" feature: a new metadata attached to the trace object,
                                # on accepted and rejected traces alike; recorded as it then sits on the object
                trace_object.shift = np.array([_shift_of(trace_object.plaintext)], dtype='uint8')
                meta += [int(v) for v in trace_object.metadatas['shift']]
            seen.append({'meta': meta, 'samples': [int(v) for v in arr], 'kw_ok': kw == expected_kw})
            if i >= len(pattern):
                raise RuntimeError('function called more often than scripted')
            p = pattern[i]
            if p == 'N':
                return None
            if p == 'R':
                return _raise(_at(case['exc'], i, 'value'))
            k = case['out_len']
            if ret_form == 'input_view':
                return trace_object.samples.array[:k]
            val = (np.resize(arr.astype('float64'), k) + (_at(case['offs2'], i, 0) + int(kw.get('off2', 0))) / 2).astype(case['out_dtype'])
            return _represent(val, ret_form, rstate)

        user_callable = _wrap(function, case.get('callable', 'plain'))
        core.WORK.mkdir(exist_ok=True)
        fname = str(core.WORK / f'c20_{os.getpid()}_{next(_counter)}.ets')
        if os.path.exists(fname):
            os.remove(fname)
        output = fname if case['out_kind'] == 'str' else Path(fname)
        obs = {}
        reader = None
        sync = None
        rng_state = np.random.get_state()
        log_cfg = case.get('logging')
        log_restore = None
        try:
            if log_cfg:         # the application has logging switched on: [logger name, level, handler]
                lg = logging.getLogger(log_cfg[0])
                handler = None if log_cfg[2] == 'none' else (logging.NullHandler() if log_cfg[2] == 'null' else _ListHandler())
                log_restore = (lg, lg.level, handler)
                lg.setLevel(getattr(logging, log_cfg[1]))
                if handler is not None:
                    lg.addHandler(handler)
            with warnings.catch_warnings(record=True) as wlist:
                warnings.simplefilter('always')
                # ---- an output file left by a previous Synchronizer run (another campaign)
                if case.get('old') is not None:
                    o = case['old']
                    prev = scared.Synchronizer(_ths(o['samples'], o['plaintext'], o['key'], 'int16'), output,
                                               lambda trace_object: trace_object.samples.array.astype('float32'))
                    prev.run().close()
                    prev.output.close()
                    del prev
                    r0 = estraces.read_ths_from_ets_file(fname)
                    obs['old_rows'] = _read_rows(r0)
                    r0.close()
                else:
                    obs['old_rows'] = None
                np.random.seed(case.get('np_seed', 0))
                ckw = dict(expected_kw)
                if case.get('overwrite') is not None:
                    ckw['overwrite'] = bool(case['overwrite'])
                sync = scared.Synchronizer(ths, output, user_callable, **ckw)
                # ---- the pre-run history
                hist = []
                for ev in case.get('history') or []:
                    c_before = len(seen)
                    if ev[0] == 'check':
                        h = {'ev': 'check'}
                        try:
                            with contextlib.redirect_stdout(io.StringIO()):
                                res = sync.check(nb_traces=ev[1], catch_exceptions=ev[2])
                            h['returned'] = [None if r is None else _x2(r) for r in res]
                            if any(r is not None and x is None for r, x in zip(res, h['returned'])):
                                h['returned'] = 'not-half-integers'
                        except Exception as e:
                            h['returned'] = None
                            h['exc'] = type(e).__name__
                    else:
                        h = {'ev': 'report', 'counters': _report(sync, ev[0])}
                    h['calls'] = [c_before, len(seen)]
                    h['p'] = int(sync.processed_counter)
                    h['s'] = int(sync.synchronized_counter)
                    hist.append(h)
                obs['history'] = hist
                obs['calls_before_run'] = len(seen)
                n_hist_warn = len(wlist)
                # ---- run()
                try:
                    reader = sync.run()
                    obs['run'] = 'returned'
                except AttributeError as e:       # ETSWriter.get_reader: the file was never created
                    obs['run'] = 'other' if os.path.exists(fname) else 'no_output_set'
                    obs['run_msg'] = str(e)[:120]
                except ETSWriterError as e:
                    obs['run'] = 'writer_error'
                    obs['run_msg'] = str(e)[:120]
                except scared.SynchronizerError as e:
                    obs['run'] = 'refused'
                    obs['run_msg'] = str(e)[:120]
                obs['processed'] = int(sync.processed_counter)
                obs['synchronized'] = int(sync.synchronized_counter)
                obs['report'] = _report(sync, 'str')
                obs['warnings'] = len([w for w in wlist[n_hist_warn:] if issubclass(w.category, UserWarning) and 'consecutive' in str(w.message)])
                # second run() on the same object, BEFORE the file is read back (it must change nothing)
                ncalls = len(seen)
                try:
                    r2 = sync.run()
                    obs['second'] = 'returned'
                    try:
                        r2.close()
                    except Exception:
                        pass
                except scared.SynchronizerError:
                    obs['second'] = 'refused'
                except Exception as e:
                    obs['second'] = 'raised ' + type(e).__name__
                obs['second_unchanged'] = bool(len(seen) == ncalls and sync.processed_counter == obs['processed']
                                               and sync.synchronized_counter == obs['synchronized'])
            obs['seen'] = seen[:ncalls]
            if reader is not None:
                obs['rows'] = _read_rows(reader)
                reader.close()
                reader = None
            else:
                obs['rows'] = None
            # the file as it is on disk afterwards
            try:
                sync.output.close()
            except Exception:
                pass
            if os.path.exists(fname):
                rr = estraces.read_ths_from_ets_file(fname)
                try:
                    obs['rows_disk'] = _read_rows(rr)
                finally:
                    rr.close()
            else:
                obs['rows_disk'] = None
        finally:
            np.random.set_state(rng_state)
            if log_restore is not None:
                log_restore[0].setLevel(log_restore[1])
                if log_restore[2] is not None:
                    log_restore[0].removeHandler(log_restore[2])
            try:
                if reader is not None:
                    reader.close()
            except Exception:
                pass
            try:
                if sync is not None:
                    sync.output.close()
            except Exception:
                pass
            if os.path.exists(fname):
                os.remove(fname)
        return obs

    # ------------------------------------------------------------------------------------------------ Coq record
    @staticmethod
    def _zrow(meta, data):
        return '(%s, %s)' % (C.coq_list(meta, C.coq_z), C.coq_list(data, C.coq_z))

    def _rows_lit(self, rows):
        if rows is None:
            return 'None'
        return '(Some %s)' % C.coq_list([self._zrow(r['meta'], r['data2'] if r['data2'] is not None else []) for r in rows])

    def coq(self, case, obs):
        rows = _rows(case)
        n = len(rows)
        # inputs are exported scaled by 2 like the outputs (same unit on both sides)
        inp = [self._zrow(m, [2 * v for v in s]) for m, s in rows]
        old_lit = self._rows_lit(obs.get('old_rows'))
        ovw = C.coq_bool(bool(case.get('overwrite')))
        pattern = _pattern(case)
        if 'raised' in obs:
            return ('{| sy_input := %s; sy_pattern := []; sy_old := None; sy_overwrite := %s; sy_history := []; sy_obs_history := []; '
                    'sy_obs_seen := []; sy_obs_run := ObsOther; sy_obs_processed := 0%%nat; sy_obs_synchronized := 0%%nat; '
                    'sy_obs_report := None; sy_obs_warnings := 0%%nat; sy_obs_rows := None; sy_obs_second_refused := false |}'
                    % (C.coq_list(inp), ovw))
        seen = obs['seen']
        c0 = obs['calls_before_run']
        # the script as Coq outcomes: returned data is a function of the samples of the trace the call is made on
        pats = []
        for i, p in enumerate(pattern):
            if p == 'A':
                if i < c0 and i < len(seen):
                    src = seen[i]['samples']          # a check() call: the trace it was really given
                elif 0 <= i - c0 < n:
                    src = rows[i - c0][1]             # a run() call: the input trace of that position
                else:
                    src = [0]
                pats.append('(Accept %s)' % C.coq_list(_returned(case, i, src), C.coq_z))
            else:
                pats.append('ReturnNone' if p == 'N' else 'Raise')
        # history events with the picks inferred from the traces the function received
        evs, eobs = [], []
        for ev, h in zip(case.get('history') or [], obs['history']):
            if ev[0] == 'check':
                a, b = h['calls']
                picks = []
                for srow in seen[a:b]:
                    key = (srow['meta'], srow['samples'])
                    picks.append(next((j for j, (m, s) in enumerate(rows) if (m, s) == key), n))
                picks += [0] * max(0, ev[1] - len(picks))
                evs.append('(EvCheck %s %s)' % (C.coq_list(picks, C.coq_nat), C.coq_bool(ev[2])))
                if h['returned'] is None or h['returned'] == 'not-half-integers':
                    ret = 'None' if h['returned'] is None else '(Some [Some [12345%Z]])'
                else:
                    ret = '(Some %s)' % C.coq_list(['None' if r is None else '(Some %s)' % C.coq_list(r, C.coq_z) for r in h['returned']])
                eobs.append('(ObsCheck %s %s %s)' % (ret, C.coq_nat(min(h['p'], 4000)), C.coq_nat(min(h['s'], 4000))))
            else:
                evs.append('EvReport')
                cnt = 'None' if h['counters'] is None else '(Some (%s, %s))' % (C.coq_nat(h['counters'][0]), C.coq_nat(h['counters'][1]))
                eobs.append('(ObsReport %s %s %s)' % (cnt, C.coq_nat(min(h['p'], 4000)), C.coq_nat(min(h['s'], 4000))))
        seen_lit = [self._zrow(s['meta'], [2 * v for v in s['samples']]) for s in seen]
        run_obs = {'returned': 'ObsReturned', 'no_output_set': 'ObsNoOutputSet', 'writer_error': 'ObsWriterError',
                   'refused': 'ObsRefused'}.get(obs['run'], 'ObsOther')
        # rows: what the returned reader holds; after an error, what is on disk
        rows_obs = obs['rows'] if obs['run'] == 'returned' else obs['rows_disk']
        rep = 'None' if obs['report'] is None else '(Some (%s, %s))' % (C.coq_nat(obs['report'][0]), C.coq_nat(obs['report'][1]))
        return ('{| sy_input := %s; sy_pattern := %s; sy_old := %s; sy_overwrite := %s; sy_history := %s; sy_obs_history := %s; '
                'sy_obs_seen := %s; sy_obs_run := %s; sy_obs_processed := %s; sy_obs_synchronized := %s; sy_obs_report := %s; '
                'sy_obs_warnings := %s; sy_obs_rows := %s; sy_obs_second_refused := %s |}' % (
                    C.coq_list(inp), C.coq_list(pats), old_lit, ovw, C.coq_list(evs), C.coq_list(eobs), C.coq_list(seen_lit), run_obs,
                    C.coq_nat(min(obs['processed'], 4000)), C.coq_nat(min(obs['synchronized'], 4000)), rep,
                    C.coq_nat(min(obs['warnings'], 4000)), self._rows_lit(rows_obs),
                    C.coq_bool(obs['second'] == 'refused' and obs['second_unchanged'])))

    def oracle(self, case, obs):
        if 'raised' in obs:
            return f'Synchronizer raised {obs["raised"]}: {obs["msg"]}'
        for rows in (obs['rows'], obs['rows_disk'], obs['old_rows']):
            if rows is not None and any(r['data2'] is None for r in rows):
                return 'output file holds values that are not the half-integers the function returned'
        if obs['rows'] is not None and obs['rows_disk'] != obs['rows']:
            return 'the trace set returned by run() differs from the file read again from disk'
        if not all(s['kw_ok'] for s in obs['seen']):
            return 'the user function did not receive exactly the extra keyword arguments given to Synchronizer'
        return None

    def nontrivial(self, case, obs):
        return 'A' in case['pattern'] and ('R' in case['pattern'] or 'N' in case['pattern'])

    def features(self, case, obs):
        p = case['pattern']
        longest = max((len(list(g)) for k, g in itertools.groupby(p, key=lambda c: c != 'A') if k), default=0)
        return {'n': min(len(p), 30) // 5 * 5, 'accepted': 'none' if 'A' not in p else ('all' if set(p) == {'A'} else 'some'),
                'longest_failure_run': '>=32' if longest >= 32 else '>=16' if longest >= 16 else '>=8' if longest >= 8 else '<8',
                'warnings_observed': obs.get('warnings', -1), 'out_kind': case['out_kind'],
                'data_len': 'shorter' if case['out_len'] < len((case['samples'] or [[0] * 3])[0]) else
                            'equal' if case['out_len'] == len((case['samples'] or [[0] * 3])[0]) else 'longer',
                'subset': case['select'] is not None, 'kwargs': case.get('kwargs') is not None,
                'callable': case.get('callable', 'plain'), 'ret_form': case.get('ret_form', 'native'),
                'in_form': case.get('in_form', 'native'), 'out_dtype': case['out_dtype'],
                'meta_mode': case.get('meta_mode', 'none'), 'logging': '/'.join(case['logging']) if case.get('logging') else 'off'}

    def tags(self, case, obs):
        return ['synchronizer']

    def sample(self, case, obs):
        c = {k: case.get(k) for k in ('pattern', 'out_len', 'out_kind', 'dtype', 'out_dtype', 'select', 'history', 'segments', 'overwrite', 'kwargs', 'callable', 'ret_form', 'in_form', 'meta_mode', 'logging')}
        c['old_rows'] = None if case.get('old') is None else len(case['old']['samples'])
        o = {k: obs.get(k) for k in ('processed', 'synchronized', 'second', 'run', 'warnings', 'report', 'history')}
        if obs.get('rows'):
            o['rows'] = obs['rows'][:3]
        return {'case': c, 'observed': o}

    def shrink(self, case):
        """Plain signature; drop one pre-run event; drop one effective input trace (and its script entry)."""
        if case.get('callable', 'plain') != 'plain':
            c = dict(case)
            c['callable'] = 'plain'
            yield c
        if case.get('in_form', 'native') != 'native':
            c = dict(case)
            c['in_form'] = 'native'
            yield c
        if case.get('logging'):
            c = dict(case)
            c['logging'] = None
            yield c
        if case.get('meta_mode') == 'add':
            c = dict(case)
            c['meta_mode'] = 'none'
            yield c
        if case.get('ret_form', 'native') not in ('native', 'input_view'):
            c = dict(case)
            c['ret_form'] = 'native'
            yield c
        for k in range(len(case.get('history') or [])):
            c = dict(case)
            c['history'] = case['history'][:k] + case['history'][k + 1:]
            c['segments'] = case['segments'][:k] + case['segments'][k + 1:]
            yield c
        rows_n = len(case['pattern'])
        if rows_n <= 1:
            return
        sel = case['select'] if case['select'] is not None else list(range(len(case['samples'])))
        for i in range(rows_n):
            c = dict(case)
            c['select'] = sel[:i] + sel[i + 1:]
            c['pattern'] = case['pattern'][:i] + case['pattern'][i + 1:]
            yield c


def _hist_label(case):
    evs = case.get('history') or []
    if not evs:
        return 'none'
    kinds = set()
    for ev, seg in zip(evs, case.get('segments') or []):
        if ev[0] != 'check':
            kinds.add('report')
        elif ev[2]:
            kinds.add('check')
        else:
            kinds.add('check-nocatch-raising' if any(ch != 'A' for ch in seg) else 'check-nocatch')
    return '+'.join(sorted(kinds))


class HistoryKind(SyncKind):
    """Histories of public calls before run(), and output files that already exist."""
    name = 'synchronizer_history'
    rule = ('user callables of 13 signatures (plain, lambda, keyword-only trace_object, trace_object second after a parameter given '
            'through the Synchronizer kwargs, **kw dict, *args/**kw, functools.partial positional and keyword-only, callable instances, '
            'bound methods, keyword-forwarding decorator) in run() and check(); one Synchronizer object driven through: construction over no file / a file left by a previous Synchronizer run with '
            'fewer or more traces and another trace length (overwrite not given / False / True, str / Path), then 0..4 of '
            'check(nb_traces, catch_exceptions=True/False) [scripts: all accepted, all rejected, rejected first, rejected after 1..k '
            'accepted picks, None result] and str() / report(), then run(), str(), run() again; deterministic cross product first, '
            'then random histories; numpy global RNG seeded per case and restored; non-trivial = a history or an existing file, and '
            'at least one accepted trace in the run')

    def gen(self, rng, tier):
        # --- boundary block 0: how the user callable is invoked.  Every signature that is valid for the documented contract
        # (trace_object and the extra kwargs passed BY NAME), accepting every trace / some traces, in run() and in check()
        for call in CALLABLES:
            kw = {'off2': 4, 'tag': call}
            yield make_case(rng, 4, 'AAAA', call=call)
            yield make_case(rng, 5, 'ARANA', call=call, kwargs=kw)
            yield make_case(rng, 3, 'AAA', call=call, history=[('check', 'AAAA', True), ('check', 'AA', False)], kwargs=kw)
            yield make_case(rng, 3, 'ANA', call=call, history=[('check', 'ARA', True), ('check', 'AAN', False)])
        # --- boundary block 1: output file absent / shorter / longer than the accepted set x overwrite x str/Path x run patterns
        for old in (None, (2, 3), (9, 2)):
            for overwrite in (None, False, True):
                if old is None and overwrite is None:
                    continue           # the plain kind
                for out_kind in ('str', 'path'):
                    for pat in ('AAAA', 'RANAAR', 'A', 'RRN', ''):
                        yield make_case(rng, len(pat), pat, out_kind=out_kind, old=old, overwrite=overwrite)
        # --- boundary block 2: histories over a new file
        hists = [
            [('check', 'ARN', True)], [('check', 'AAA', True)], [('check', 'RNR', True)], [('check', 'A', True)],
            [('check', 'AAAA', False)], [('check', 'RAA', False)], [('check', 'NAA', False)], [('check', 'ARA', False)],
            [('check', 'AAN', False)], [('check', 'AAAAAR', False)], [('check', 'AAAAAAAAAAAA', False)],
            [('str',)], [('report',)],
            [('str',), ('check', 'AR', True), ('report',), ('check', 'AAN', False), ('check', 'A', True)],
            [('check', 'AR', False), ('check', 'AAR', False), ('check', 'AN', False)],
            [('check', 'RRRRRRRRR', True), ('check', 'NNNNNNNNN', True)],
        ]
        for pi, pat in enumerate(('ARANA', 'NRRAA', 'AAA', 'RN', 'RRRRRRRRRA')):
            for hi, h in enumerate(hists):
                kwargs = {'off2': 2 * ((pi + hi) % 5 - 2), 'tag': 'k%d' % hi} if (pi + hi) % 3 == 0 else None
                yield make_case(rng, len(pat), pat, history=h, kwargs=kwargs)
        # the empty input set: check() cannot pick
        yield make_case(rng, 0, '', history=[('check', 'AA', True), ('str',)])
        yield make_case(rng, 0, '', history=[('check', 'A', False)], old=(3, 2))
        # --- boundary block 3: histories AND an existing file
        for old in ((1, 4), (6, 3)):
            for overwrite in (False, True):
                for h in ([('check', 'AAR', False)], [('check', 'ANA', True), ('report',)], [('check', 'N', False), ('check', 'AA', False)]):
                    for pat in ('RAANA', 'NR'):
                        yield make_case(rng, len(pat), pat, history=h, old=old, overwrite=overwrite)
        # --- random structure
        nrand = 70 if tier == 'quick' else 1200
        for _ in range(nrand):
            full = rng.randint(1, 14)
            select = None
            n = full
            if rng.random() < 0.2:
                select = [rng.randrange(full) for _ in range(rng.randint(1, 10))]
                n = len(select)
            pat = [rng.choice(rng.choice(['AAAAANR', 'ANR', 'AR', 'NR'])) for _ in range(n)]
            h = []
            for _e in range(rng.choice([0, 1, 1, 2, 2, 3, 4])):
                r = rng.random()
                if r < 0.75:
                    nb = rng.choice([1, 2, 3, 5, 8, n + 3])
                    w = rng.choice(['AAAAR', 'AAAN', 'ANR', 'A', 'RN'])
                    h.append(('check', ''.join(rng.choice(w) for _i in range(nb)), rng.random() < 0.4))
                else:
                    h.append((rng.choice(['str', 'report']),))
            old = (rng.randint(1, 10), rng.randint(1, 5)) if rng.random() < 0.35 else None
            overwrite = rng.choice([None, False, True]) if old is not None else rng.choice([None, None, False, True])
            kwargs = {'off2': 2 * rng.randint(-4, 4), 'tag': rng.choice(['a', 'sync', ''])} if rng.random() < 0.3 else None
            yield make_case(rng, n, pat, select=select, full=full, history=h, old=old, overwrite=overwrite, kwargs=kwargs)

    def nontrivial(self, case, obs):
        return bool(case.get('history') or case.get('old')) and 'A' in case['pattern']

    def features(self, case, obs):
        f = SyncKind.features(self, case, obs)
        f = {k: f[k] for k in ('accepted', 'out_kind', 'kwargs', 'callable')}
        f.update({'history': _hist_label(case), 'events': len(case.get('history') or []),
                  'file': 'none' if case.get('old') is None else 'exists',
                  'overwrite': str(case.get('overwrite')), 'run': obs.get('run', 'raised')})
        return f

    def tags(self, case, obs):
        t = SyncKind.tags(self, case, obs)
        if case.get('history'):
            t.append('pre-run-history')
        if case.get('old') is not None:
            t.append('existing-output-file')
        return t


KINDS = [SyncKind(), HistoryKind()]
