"""C01 — incremental distinguishers are invariant to how traces are split into batches; compute() never disturbs;
asking twice gives the same answer.

C-tie: for each of the ten real classes (CPADistinguisher, CPAAlternativeDistinguisher, DPADistinguisher,
ANOVADistinguisher, NICVDistinguisher, SNRDistinguisher, MIADistinguisher with explicit bin_edges and partitions, the
template build mixin, the template matching mixins (static and DPA), scared.ttest.TTestThreadAccumulator) a generated
HISTORY of update(batch) / compute() calls is replayed on one real object.  Every compute() return value and
processed_traces are exported exactly and compared INSIDE Coq (Model/Batching.v: bcheck) with Accum's expected outputs:
the SPEC-side compute of the one-shot accumulation of all rows fed before that call.  The code's own one-batch result on a
fresh object is exported too and checked the same way; in Python it is compared bit for bit with the last compute() of the
history on inputs whose running sums are exactly representable (no float tolerance in Python).
"""
import atexit
import copy
import json
import math
import os
import pickle
import select
import subprocess
import sys
import traceback
import warnings
from fractions import Fraction

import numpy as np

from lib.kinds import Kind, HarnessError
from lib import core
from translate import common as C

ID = 'C01'
TRANSLATORS = []
MODEL_TARGETS = ['theories/Model/Batching.vo', 'theories/Proofs/Batching.vo']
PROP_TARGET = 'theories/Props/C01.vo'
EXHAUSTIVE = False
TRUSTED_BASE = [
    'Coq 8.16.1 kernel incl. vm_compute (no native_compute)',
    'Print Assumptions: every theorem of Props/C01.v is closed under the global context (no axioms)',
    'correspondence harness tools/props/C01.py: exact export of the inputs (integers over a power-of-two denominator, re-checked '
    'against the arrays handed to the code), nested tolist() reading of every compute() result, float export by core.float_to_coq, '
    'math.log for the ln table of the MIA cases',
    'tolerance rules used by Model/Batching.bcheck: corr_tol / diff_tol (the budgets of Model/Cpa.v), Partitioned.obs_ok, '
    'Mia res_tol, Template small_dyadic / cov_mag / 64 u (|form| + 10), Ttest.meanvar_ok; Run/Compare.v',
    'the harness memoises scared.distinguishers.partitioned._define_lut_func per class set (each call JIT-compiles the same pure '
    'look-up closure; the first call per class set is the real one)',
    'modelled, not verified: numpy / numba kernels of every _update and _compute (hand-written impl-models of the colleagues, held '
    'by this correspondence check and by those of C03, C04, C09, C13, C14)',
]
ASSUMPTIONS = [
    'exact rational arithmetic in the theorems; "the same up to rounding" is the tolerance of the check: |observed - one-shot spec| '
    'within the conditioning-scaled budget of the per-distinguisher model, equality where the expected value is a small dyadic '
    '(template means, float64 template covariances) and for processed_traces',
    'generated inputs keep the running sums exactly representable in the requested precision for the NaN-for-undefined rule of '
    'ANOVA/NICV/SNR (|x| <= 63 resp. |k| <= 100 (k/8) in float32, 16-bit in float64) and for the alternative CPA (no inf -> NaN step)',
    'every batch is non-empty; the first call of a history is an update (compute() on a fresh object raises, property C16)',
    'MIA: explicit uniform bin_edges and explicit partitions; template matching: hypothesis values are declared classes',
    'partitions=None (ANOVA/NICV/SNR): the class set chosen at the first batch is given to the model and checked against '
    'Partitioned.auto_parts on the first batch; split = one-shot is required only when both brackets agree (theorem auto_classes_frozen)',
]

HDR = 'From ScaredV Require Import Model.Batching.\nFrom ScaredV Require Model.Partitioned Model.Template.'
INT_T = ['uint8', 'int8', 'uint16', 'int16', 'int32']
FLT_T = ['float32', 'float64']
TDT = INT_T + FLT_T
PRECS = ['float32', 'float64']
PBITS = {'float32': 24, 'float64': 53}
F = core.float_to_coq

SMALL_SETS = [[0, 1, 2, 3], [3, 1, 7, 20, 5], [2, 0]]                       # <= 9 classes: partitioned kernel 2 after the 1st update
LARGE_SETS = [list(range(10)), [0, 1, 2, 3, 4, 5, 6, 7, 8, 9, 12, 40]]       # > 9 classes: kernel 1 only
TPL_SETS = [[0, 1, 2], [2, 0, 1], [5, 9], [0, 1, 2, 3]]
MIA_SETS = [[0, 1], [0, 1, 2, 3], [3, 0, 5]]


# ------------------------------------------------------------------------------------------------- helpers
def _flat(x):
    if isinstance(x, list):
        out = []
        for y in x:
            out.extend(_flat(y))
        return out
    return [x]


def _prod(dims):
    p = 1
    for d in dims:
        p *= d
    return p


def _nest(flat, dims):
    if len(dims) == 1:
        return list(flat)
    step = _prod(dims[1:])
    return [_nest(flat[i * step:(i + 1) * step], dims[1:]) for i in range(dims[0])]


# Memory layouts / representations of an array with the same logical content (what nested tolist() reads)
LAYOUTS = ['C', 'F', 'swap', 'strided', 'neg', 'offset', 'readonly', 'readonly_F', 'be']
NUMBA_A_LAYOUTS = ['strided', 'neg', 'offset']          # one numba array type ('A' layout): one compilation for the three
JIT_DATA_LAYOUTS = [x for x in LAYOUTS if x != 'be']    # the numba look-up ufunc is not given non-native byte orders
SLICINGS = ['view', 'copy_c', 'copy_k', 'perbatch']
WORD_SHAPES = [[2, 3], [3, 2], [2, 2], [2, 2, 2], [1, 2, 3], [2, 3, 1], [3, 1, 2]]


def relayout(a, layout):
    if layout == 'C' or a.size == 0:
        return np.ascontiguousarray(a)
    if layout == 'F':
        return np.asfortranarray(a)
    if layout == 'swap':                 # a transposed view: the last two axes are stored swapped
        if a.ndim < 2:
            return np.ascontiguousarray(a)
        return np.ascontiguousarray(a.swapaxes(-1, -2)).swapaxes(-1, -2)
    if layout == 'strided':              # every other element of a larger buffer, along every axis
        big = np.zeros(tuple(2 * d for d in a.shape), dtype=a.dtype)
        v = big[tuple(slice(None, None, 2) for _ in a.shape)]
        v[...] = a
        return v
    if layout == 'neg':                  # negative strides along the first and the last axis
        idx = (slice(None, None, -1),) + (slice(None),) * (a.ndim - 2) + ((slice(None, None, -1),) if a.ndim > 1 else ())
        return np.ascontiguousarray(a[idx])[idx]
    if layout == 'offset':               # a window inside a larger buffer (base offset, row stride larger than the row)
        big = np.zeros(tuple(d + 3 for d in a.shape), dtype=a.dtype)
        v = big[tuple(slice(1 + (i % 2), 1 + (i % 2) + d) for i, d in enumerate(a.shape))]
        v[...] = a
        return v
    if layout in ('readonly', 'readonly_F'):
        b = np.asfortranarray(a).copy(order='F') if layout == 'readonly_F' else np.ascontiguousarray(a).copy()
        b.flags.writeable = False
        return b
    if layout == 'be':                   # big-endian storage (same values)
        return a.astype(a.dtype.newbyteorder('>')) if a.dtype.itemsize > 1 else np.ascontiguousarray(a)
    raise HarnessError(f'unknown layout {layout}')


def batch_of(parent, logical, lo, hi, layout, slicing):
    """The array handed to update() for rows lo..hi: a slice of the (re-laid-out) parent, or an independent array."""
    if slicing == 'view':
        return parent[lo:hi]
    if slicing == 'copy_c':
        return np.ascontiguousarray(parent[lo:hi]).copy()
    if slicing == 'copy_k':
        return parent[lo:hi].copy(order='K')
    if slicing == 'perbatch':            # each batch is its own array in the requested layout
        return relayout(logical[lo:hi], layout)
    raise HarnessError(f'unknown slicing {slicing}')


def _den(dtype):
    return 8 if dtype.startswith('float') else 1


def _clip(dtype, lo, hi):
    if dtype.startswith('float'):
        return lo, hi
    info = np.iinfo(dtype)
    return max(lo, int(info.min)), min(hi, int(info.max))


def _array(rows, dtype, den):
    if den == 1 and not dtype.startswith('float'):
        return np.array(rows, dtype=dtype)
    return (np.array(rows, dtype='float64') / den).astype(dtype)


def _check_export(a, rows, den, what):
    got, want = _flat(a.tolist()), _flat(rows)
    if len(got) != len(want) or any(Fraction(g) != Fraction(w, den) for g, w in zip(got, want)):
        raise HarnessError(f'C01 harness: {what} array does not hold the exported values')


def compositions(n):
    """All ordered partitions of n into positive parts (2^(n-1) of them)."""
    out = []
    for mask in range(1 << (n - 1)):
        parts, cur = [], 1
        for i in range(n - 1):
            if mask >> i & 1:
                parts.append(cur)
                cur = 1
            else:
                cur += 1
        parts.append(cur)
        out.append(parts)
    return out


def random_composition(rng, n):
    k = rng.choice([1, 2, 2, 3, 3, 4, 5, 6, 8])
    k = min(k, n)
    cuts = sorted(rng.sample(range(1, n), k - 1)) if k > 1 else []
    return [b - a for a, b in zip([0] + cuts, cuts + [n])]


def compute_positions(rng, nb, mode):
    """Number of compute() calls after each of the nb updates; the history always ends with at least one compute()."""
    if mode == 'none':
        c = [0] * nb
    elif mode == 'every':
        c = [1] * nb
    elif mode == 'subset':
        c = [1 if rng.random() < 0.5 else 0 for _ in range(nb)]
    elif mode == 'doubled':
        c = [2 if rng.random() < 0.5 else 0 for _ in range(nb)]
        if not any(c):
            c[rng.randrange(nb)] = 2
    else:
        raise ValueError(mode)
    c[-1] = max(c[-1], 2 if mode == 'doubled' and rng.random() < 0.5 else 1)
    return c


MODES = ['none', 'every', 'subset', 'doubled']


# ------------------------------------------------------------------------------------------------- LUT sharing
_LUT_CACHE = {}


def share_lut_functions():
    from scared.distinguishers import partitioned as P
    if getattr(P._define_lut_func, '_c01_shared', False):
        return
    real = P._define_lut_func

    def shared(partitions):
        a = np.asarray(partitions)
        key = (str(a.dtype), tuple(int(v) for v in a.reshape(-1)))
        if key not in _LUT_CACHE:
            _LUT_CACHE[key] = real(partitions)
        return _LUT_CACHE[key]
    shared._c01_shared = True
    P._define_lut_func = shared


# ------------------------------------------------------------------------------------------------- value generation
def trace_range(fam, prec, tdtype):
    """Numerator range of the samples (see ASSUMPTIONS)."""
    fl = tdtype.startswith('float')
    if fam in ('cpa', 'cpa_alt', 'dpa'):
        r = (-100, 100) if fl and prec == 'float32' else (-63, 63) if prec == 'float32' else (-2 ** 20, 2 ** 20)
    elif fam == 'part':
        r = (-100, 100) if fl and prec == 'float32' else (-63, 63) if prec == 'float32' else (-65535, 65535)
    elif fam == 'mia':
        r = (-16, 80) if not fl else (-128, 640)
    elif fam == 'tbuild':
        r = (-63, 63) if fl else (-300, 300)
    elif fam == 'tmatch':
        r = (-63, 63)
    else:   # ttest
        r = (-2 ** 15, 2 ** 15) if prec == 'float32' or fl else (-2 ** 30, 2 ** 30)
    return _clip(tdtype, *r)


def gen_traces(rng, n, S, lo, hi):
    cols = []
    for _ in range(S):
        pat = rng.choice(['random', 'random', 'random', 'small', 'narrow', 'const'])
        if pat == 'random':
            col = [rng.randint(lo, hi) for _ in range(n)]
        elif pat == 'small':
            a, b = max(lo, -12), min(hi, 12)
            col = [rng.randint(a, b) for _ in range(n)]
        elif pat == 'narrow':
            c = rng.randint(lo, max(lo, hi - 3))
            col = [min(hi, c + rng.randint(0, 3)) for _ in range(n)]
        else:
            col = [rng.randint(lo, hi)] * n
        cols.append(col)
    return [[cols[s][t] for s in range(S)] for t in range(n)]


def gen_class_data(rng, n, W, parts, p_undeclared, dmax):
    declared = sorted(set(parts))
    und = [v for v in range(0, min(dmax, max(declared) + 4) + 1) if v not in declared]
    rows = []
    for _ in range(n):
        row = []
        for _ in range(W):
            if und and rng.random() < p_undeclared:
                row.append(rng.choice(und))
            else:
                row.append(rng.choice(declared))
        rows.append(row)
    return rows


def uniform_edges(rng, fl):
    nb = rng.choice([2, 3, 4, 5, 8])
    if fl:
        lo, w = rng.randint(-40, 40), rng.choice([8, 12, 20, 40])       # numerators over 8
        return [(lo + i * w) / 8 for i in range(nb + 1)]
    lo, w = rng.randint(-5, 10), rng.choice([1, 2, 5, 10, 16])
    return [float(lo + i * w) for i in range(nb + 1)]


# ------------------------------------------------------------------------------------------------- case construction
# Narrow float traces with a large DC offset (scope data), accumulated in a WIDER precision: the results must be good to the rounding
# of the PRECISION, whichever kernel handled a batch (a kernel that squares in the storage dtype is off by ~6e-8 * offset^2).
# (denominator, offset numerator, half-width of the numerators): 1000 + j/1024 with |j| <= 2048, 65536 + j/16 with |j| <= 64.
# Both fit float32 exactly, and every sum of <= 40 squares fits float64 exactly (numerators ~2^20).
OFFSETS = {'a': (1024, 1000 * 1024, 2048), 'b': (16, 65536 * 16, 64)}
OFFSET_SIG = ('float32', 'float64')


def make_case(rng, fam, sig, n, splits, mode, block, metric=None, auto=False, parts=None, tmode='static', offset=None,
              dims=None, tlayout='C', dlayout='C', slicing='view'):
    tdtype, prec = sig
    S = rng.randint(1, 4)
    if offset:
        tden, base, half = OFFSETS[offset]
        lo, hi = base - half, base + half
        traces = [[rng.randint(lo, hi) for _ in range(S)] for _ in range(n)]
    else:
        tden = _den(tdtype)
        lo, hi = trace_range(fam, prec, tdtype)
        traces = gen_traces(rng, n, S, lo, hi)
    case = {'fam': fam, 'prec': prec, 'tdtype': tdtype, 'tden': tden, 'S': S, 'traces': traces, 'splits': list(splits),
            'computes': compute_positions(rng, len(splits), mode), 'mode': mode, 'block': block, 'dden': 1, 'parts': [], 'auto': False}
    if fam in ('cpa', 'cpa_alt'):
        W = _prod(dims) if dims else rng.randint(1, 3)
        ddtype = rng.choice(['uint8', 'uint8', 'int16', 'float32'])
        if ddtype == 'float32':
            dlo, dhi = -100, 100
        else:
            dlo, dhi = _clip(ddtype, *((-63, 63) if prec == 'float32' else (-1000, 1000)))
        case.update(W=W, ddtype=ddtype, dden=_den(ddtype), data=gen_traces(rng, n, W, dlo, dhi))
    elif fam == 'dpa':
        W = _prod(dims) if dims else rng.randint(1, 3)
        p1 = rng.choice([0.5, 0.5, 0.25, 0.75])
        case.update(W=W, ddtype='uint8', data=[[1 if rng.random() < p1 else 0 for _ in range(W)] for _ in range(n)])
    elif fam == 'part':
        W = _prod(dims) if dims else rng.randint(1, 3)
        ddtype = rng.choice(['uint8', 'uint16', 'int16'])
        if auto:
            mx = rng.choice([1, 3, 8, 9, 12, 40, 63])
            first = splits[0]
            data = [[rng.randint(0, mx) for _ in range(W)] for _ in range(n)]
            data[rng.randrange(first)][rng.randrange(W)] = mx
            later = rng.choice([mx, mx, min(255, mx + 30)])
            for t in range(first, n):
                data[t] = [rng.randint(0, later) for _ in range(W)]
            case.update(W=W, ddtype=ddtype, data=data, parts=None, auto=True, metric=metric)
        else:
            case.update(W=W, ddtype=ddtype, data=gen_class_data(rng, n, W, parts, 0.15, 255), parts=list(parts), metric=metric)
    elif fam == 'mia':
        W = _prod(dims) if dims else rng.randint(1, 3)
        fl = tdtype.startswith('float')
        edges = uniform_edges(rng, fl) if not offset else ([998.0 + i for i in range(5)] if offset == 'a' else [65530.0 + 2 * i for i in range(6)])
        # some samples exactly on edges / outside the window
        den = case['tden']
        e_num = [int(round(e * den)) for e in edges]
        for row in traces:
            for s in range(S):
                r = rng.random()
                if r < 0.25:
                    row[s] = min(hi, max(lo, rng.choice(e_num)))
                elif r < 0.8:
                    row[s] = min(hi, max(lo, rng.randint(e_num[0], e_num[-1])))
        case.update(W=W, ddtype=rng.choice(['uint8', 'uint16']), data=gen_class_data(rng, n, W, parts, 0.15, 255), parts=list(parts),
                    edges=edges, mia_prec=prec)
    elif fam == 'tbuild':
        centres = {p: [rng.randint(lo, hi) for _ in range(S)] for p in parts}
        data = gen_class_data(rng, n, 1, parts, 0.1, 255)
        spread = max(1, (hi - lo) // rng.choice([8, 16, 32]))
        for t in range(n):
            c = centres.get(data[t][0])
            if c is not None and rng.random() < 0.8:
                traces[t] = [min(hi, max(lo, v + rng.randint(-spread, spread))) for v in c]
        case.update(W=1, ddtype=rng.choice(['uint8', 'uint16']), data=data, parts=list(parts))
    elif fam == 'tmatch':
        K = len(parts)
        pden = rng.choice([1, 2, 4])
        T = [[rng.randint(-60, 60) for _ in range(S)] for _ in range(K)]
        if rng.random() < 0.5:      # symmetric positive-ish (what pinv of a covariance gives), else any matrix
            A = [[rng.randint(-2, 2) for _ in range(S)] for _ in range(S)]
            P = [[sum(A[k][i] * A[k][j] for k in range(S)) + (1 if i == j else 0) for j in range(S)] for i in range(S)]
        else:
            P = [[rng.randint(-8, 8) for _ in range(S)] for _ in range(S)]
        if tmode == 'dpa':
            W = _prod(dims) if dims else rng.randint(1, 3)
            data = [[rng.choice(parts) for _ in range(W)] for _ in range(n)]
        else:
            W, data = 1, [[0] for _ in range(n)]
        case.update(W=W, ddtype='uint8', data=data, parts=list(parts), T=T, P=P, pden=pden, tmode=tmode)
    elif fam == 'ttest':
        case.update(W=0, ddtype='uint8', data=[[] for _ in range(n)])
    # shape of the word axes of the data handed to update() (data.shape = (n,) + dims) and memory layout of both arrays
    if dims and _prod(dims) == case['W']:
        case['dims'] = list(dims)
    else:
        case['dims'] = [case['W']]
    case.update(tlayout=tlayout, dlayout=dlayout, slicing=slicing)
    if S > 2 and case['W'] > 3:          # keep the tables small
        case['S'] = 2
        case['traces'] = [r[:2] for r in case['traces']]
        if fam == 'tmatch':
            case['T'] = [r[:2] for r in case['T']]
            case['P'] = [r[:2] for r in case['P'][:2]]
    return case


def history_ops(case):
    """[('u', lo, hi) | ('k', mode) | ('c',)] in call order.  'k' = checkpoint: the history continues on a copy of the object
    (copy.deepcopy / pickle round trip); it is invisible to the model: a copy must behave as the object itself."""
    ops, pos = [], 0
    cps = case.get('checkpoints') or [''] * len(case['splits'])
    for size, nc, cp in zip(case['splits'], case['computes'], cps):
        ops.append(('u', pos, pos + size))
        pos += size
        if cp:
            ops.append(('k', cp))
        ops.extend([('c',)] * nc)
    return ops


# ------------------------------------------------------------------------------------------------- drivers of the real objects
_CLASSES = {}


def _mixin_classes():
    if not _CLASSES:
        from scared.distinguishers import partitioned as P, template as T

        class Build(P.PartitionedDistinguisherBase, T._TemplateBuildDistinguisherMixin):
            pass

        class MatchStatic(T.TemplateAttackDistinguisherMixin):
            pass

        class MatchDpa(T.TemplateDPADistinguisherMixin):
            pass
        for cls in (Build, MatchStatic, MatchDpa):       # reachable by name from this module, so that the objects pickle
            cls.__qualname__ = cls.__name__
            cls.__module__ = __name__
            globals()[cls.__name__] = cls
        _CLASSES.update(build=Build, static=MatchStatic, dpa=MatchDpa)
    return _CLASSES


class _Obj:
    """Uniform update / compute / processed view of the ten real objects."""

    def __init__(self, case):
        import scared
        fam, prec = case['fam'], case['prec']
        self.fam = fam
        self.case = case
        if fam == 'cpa':
            self.d = scared.CPADistinguisher(precision=prec)
        elif fam == 'cpa_alt':
            self.d = scared.CPAAlternativeDistinguisher(precision=prec)
        elif fam == 'dpa':
            self.d = scared.DPADistinguisher(precision=prec)
        elif fam == 'part':
            cls = {'ANOVA': scared.ANOVADistinguisher, 'NICV': scared.NICVDistinguisher, 'SNR': scared.SNRDistinguisher}[case['metric']]
            self.d = cls(partitions=None if case['auto'] else list(case['parts']), precision=prec)
        elif fam == 'mia':
            self.d = scared.MIADistinguisher(bin_edges=list(case['edges']), partitions=list(case['parts']), precision=case['mia_prec'])
        elif fam == 'tbuild':
            self.d = _mixin_classes()['build'](partitions=list(case['parts']), precision=prec)
        elif fam == 'tmatch':
            d = _mixin_classes()[case['tmode']](partitions=list(case['parts']), precision=prec)
            d.is_build = True
            d.templates = (np.array(case['T'], dtype='float64') / case['pden']).astype(prec)
            d.pooled_covariance_inv = np.array(case['P'], dtype='float64') / case['pden']
            d.pooled_covariance = np.eye(case['S'])
            self.d = d
        elif fam == 'ttest':
            from scared.ttest import TTestThreadAccumulator
            self.d = TTestThreadAccumulator(prec)
        else:
            raise HarnessError(f'unknown family {fam}')

    def update(self, tr, da):
        if self.fam == 'ttest':
            self.d.update(tr)
        else:
            self.d.update(tr, da)

    def compute(self):
        """The public result of compute(), as a flat list of floats in C order (by nested tolist())."""
        if self.fam == 'ttest':
            r = self.d.compute()
            if r is not None:
                raise HarnessError('TTestThreadAccumulator.compute() returned a value')
            vals = [float(v) for v in self.d.mean.tolist()] + [float(v) for v in self.d.var.tolist()]
            shape = [len(self.d.mean)]
            self._scribble(self.d.mean, self.d.var)
            return vals, shape
        r = self.d.compute()
        vals = [float(v) for v in _flat(np.asarray(r).tolist())]
        if self.fam == 'tbuild':
            vals += [float(v) for v in _flat(np.asarray(self.d.pooled_covariance).tolist())]
            self._scribble(self.d.pooled_covariance)
        shape = list(np.asarray(r).shape)
        self._scribble(r)
        return vals, shape

    def _scribble(self, *arrays):
        """What a caller may do with a result it was given: overwrite it in place.  A later compute() must not return these
        values (no memoised / aliased result) and later results must not depend on them (no aliasing of the accumulators)."""
        if not self.case.get('scribble', True):
            return
        for a in arrays:
            if isinstance(a, np.ndarray) and a.flags.writeable:
                a[...] = -7777.25

    def checkpoint(self, mode):
        if mode == 'deepcopy':
            self.d = copy.deepcopy(self.d)
        elif mode == 'pickle':
            self.d = pickle.loads(pickle.dumps(self.d))
        else:
            raise HarnessError(f'unknown checkpoint mode {mode}')

    def processed(self):
        return int(self.d.processed_traces)


def expected_shape(case):
    fam, S, W = case['fam'], case['S'], case['W']
    if fam == 'ttest':
        return [S]
    dims = case.get('dims') or [W]
    if fam == 'tbuild':
        K = len(case['parts'])
        return [K, S] if len(dims) == 1 else dims + [K * S]       # base.compute reshapes to origin_shape[1:] + (-1,)
    if fam == 'tmatch':
        G = len(case['parts']) if case['tmode'] == 'static' else W
        return [G] if len(dims) == 1 else dims + [G // _prod(dims)]
    return dims + [S]


def run_case(case):
    share_lut_functions()
    n = len(case['traces'])
    tr = _array(case['traces'], case['tdtype'], case['tden'])
    if case['W'] > 0:
        da = _array(case['data'], case['ddtype'], case['dden'])
    else:
        da = np.zeros((n, 0), dtype='uint8')
    if list(tr.shape) != [n, case['S']] or list(da.shape) != [n, case['W']]:
        raise HarnessError('C01 harness: wrong array shape')
    dims = case.get('dims') or [case['W']]
    if case['W'] > 0 and len(dims) > 1:
        da = _array([_nest(r, dims) for r in case['data']], case['ddtype'], case['dden'])      # built from nested lists, no reshape
        if list(da.shape) != [n] + dims:
            raise HarnessError('C01 harness: wrong data shape')
    tl, dl, sl = case.get('tlayout', 'C'), case.get('dlayout', 'C'), case.get('slicing', 'view')
    ptr, pda = relayout(tr, tl), relayout(da, dl)
    _check_export(ptr, case['traces'], case['tden'], 'trace')          # the logical content, read through nested tolist()
    _check_export(pda, case['data'], case['dden'], 'data')
    tr0, da0 = np.array(ptr.tolist()), np.array(pda.tolist())
    logical_tr, logical_da = tr, da
    obs = {'computes': [], 'twice_same': True, 'shapes_ok': True}
    with warnings.catch_warnings(), np.errstate(all='ignore'):
        warnings.simplefilter('ignore')
        o = _Obj(case)
        last, fresh = None, False
        for op in history_ops(case):
            if op[0] == 'u':
                o.update(batch_of(ptr, logical_tr, op[1], op[2], tl, sl), batch_of(pda, logical_da, op[1], op[2], dl, sl))
                fresh = False
            elif op[0] == 'k':
                o.checkpoint(op[1])
            else:
                vals, shape = o.compute()
                if fresh and last is not None and not _same_bits(vals, last):
                    obs['twice_same'] = False
                if shape != expected_shape(case):
                    obs['shapes_ok'] = False
                    obs['shape'] = shape
                obs['computes'].append({'n': o.processed(), 'vals': vals})
                last, fresh = vals, True
        obs['final_n'] = o.processed()
        if case['fam'] in ('part', 'mia', 'tbuild', 'tmatch'):
            obs['partitions'] = [int(v) for v in np.asarray(o.d.partitions).tolist()]
        o2 = _Obj(case)
        o2.update(ptr, pda)
        obs['oneshot'], _ = o2.compute()
        obs['oneshot_n'] = o2.processed()
        if case['fam'] == 'part' and case['auto']:
            obs['oneshot_partitions'] = [int(v) for v in np.asarray(o2.d.partitions).tolist()]
    obs['inputs_unchanged'] = bool(np.array_equal(np.array(ptr.tolist()), tr0) and np.array_equal(np.array(pda.tolist()), da0)
                                   and np.array_equal(np.array(logical_tr.tolist()), tr0))
    return obs


def _same_bits(a, b):
    return len(a) == len(b) and all((x == y) or (x != x and y != y) for x, y in zip(a, b))


def exact_regime(case):
    """True when every running sum the code forms is exactly representable: the split and the one-batch run must then agree
    bit for bit (an integer comparison of float bit patterns, no tolerance)."""
    fam = case['fam']
    if fam == 'tmatch':
        return False                 # each batch divides its score sum by the sample count: rounding depends on the split
    if fam == 'mia':
        return True                  # counts
    n = len(case['traces'])
    mx = max([abs(v) for r in case['traces'] for v in r] + [1])
    my = max([abs(v) for r in case['data'] for v in r] + [1]) if fam in ('cpa', 'cpa_alt') else 1
    m = max(mx, my)
    lim = 2 ** PBITS[case['prec']]
    if fam == 'cpa_alt':
        return n * n * m * m < lim
    if fam == 'part':
        return n * n * m * m < lim   # sums ** 2 / counters in _compute_metric
    return n * m * m < lim



# ------------------------------------------------------------------------------------------------- isolated interpreter
class _Worker:
    """The real objects live in a child interpreter: the numba kernels index their accumulators without bounds checks, so
    a state left in the wrong layout (e.g. a _compute that does not swap its axes back) makes the NEXT update write outside
    its arrays.  That then kills the child, not the check, and the history on which it died is the failing input."""
    TIMEOUT = 300
    MAX_CRASHES = 8          # per phase (one kind's main pass / one shrinking round): afterwards cases are reported unrun

    def __init__(self):
        self.p = None
        self.buf = b''
        self.crashes = 0

    def start(self):
        tools = os.path.dirname(os.path.dirname(os.path.abspath(__file__)))
        code = 'import sys; sys.path.insert(0, %r); from props import C01; C01._worker_main()' % tools
        self.p = subprocess.Popen([sys.executable, '-c', code], stdin=subprocess.PIPE, stdout=subprocess.PIPE, env=dict(os.environ))
        self.buf = b''

    def stop(self):
        if self.p is not None:
            try:
                self.p.kill()
                self.p.wait(timeout=10)
            except Exception:
                pass
            self.p = None

    def new_phase(self):
        self.crashes = 0

    def _readline(self):
        fd = self.p.stdout.fileno()
        while b'\n' not in self.buf:
            r, _, _ = select.select([fd], [], [], self.TIMEOUT)
            if not r:
                return None
            chunk = os.read(fd, 1 << 16)
            if not chunk:
                return b''
            self.buf += chunk
        line, self.buf = self.buf.split(b'\n', 1)
        return line

    def call(self, case):
        if self.crashes >= self.MAX_CRASHES:
            return {'raised': 'ProcessCrashed', 'msg': f'not run: the interpreter running scared already died {self.crashes} times in this phase'}
        if self.p is None or self.p.poll() is not None:
            self.start()
        try:
            self.p.stdin.write((json.dumps(case) + '\n').encode())
            self.p.stdin.flush()
            line = self._readline()
        except (BrokenPipeError, OSError):
            line = b''
        if line is None:
            self.stop()
            self.crashes += 1
            return {'raised': 'Timeout', 'msg': f'no answer within {self.TIMEOUT} s'}
        if not line:
            rc = self.p.wait()
            self.p = None
            self.crashes += 1
            return {'raised': 'ProcessCrashed', 'msg': f'the interpreter running scared died (exit status {rc}) while replaying this history '
                    '(a kernel wrote outside its arrays?), or on memory corrupted by an earlier one'}
        return json.loads(line)


WORKER = _Worker()
atexit.register(WORKER.stop)


def _worker_main():
    out = os.fdopen(os.dup(1), 'w')
    os.dup2(2, 1)                       # anything the implementation prints goes to stderr, not into the protocol
    for line in sys.stdin:
        case = json.loads(line)
        try:
            res = run_large(case) if case.get('large') else run_case(case)
        except HarnessError as e:
            res = {'harness_error': str(e)}
        except Exception as e:
            res = {'raised': type(e).__name__, 'msg': str(e)[:200], 'tb': traceback.format_exc()[-600:]}
        out.write(json.dumps(res) + '\n')
        out.flush()


def extra(ctx):
    WORKER.stop()
    return []

# ------------------------------------------------------------------------------------------------- Coq literal
KIND_COQ = {'cpa': 'KCpa', 'cpa_alt': 'KCpaAlt', 'dpa': 'KDpa', 'mia': 'KMia', 'tbuild': 'KTBuild', 'ttest': 'KTtest'}


def coq_kind(case):
    fam = case['fam']
    if fam == 'part':
        return '(KPart Partitioned.%s)' % case['metric']
    if fam == 'tmatch':
        return '(KTMatch Template.%s)' % ('Static' if case['tmode'] == 'static' else 'Dpa')
    return KIND_COQ[fam]


def coq_case(case, obs):
    rows = list(zip(case['traces'], case['data']))
    hist = []
    for op in history_ops(case):
        if op[0] == 'u':
            hist.append('HUpdate %s' % C.coq_list(rows[op[1]:op[2]], lambda r: C.coq_pair(C.coq_list(r[0], C.coq_z), C.coq_list(r[1], C.coq_z))))
        elif op[0] == 'c':
            hist.append('HCompute')
    comps = obs.get('computes', []) if 'raised' not in obs else []
    ob = C.coq_list(comps, lambda c: C.coq_pair(C.coq_z(c['n']), C.coq_list(c['vals'], F)))
    fam = case['fam']
    if fam == 'part' and case['auto']:
        parts = obs.get('partitions', [])
    else:
        parts = case['parts'] or []
    prec = case['prec']
    if fam == 'mia':
        prec = 'float32' if case['mia_prec'] == 'float32' else 'float64'
    n = len(case['traces'])
    lnt = [math.log(k) for k in range(1, n + 1)] if fam == 'mia' else []
    return ('{| b_kind := %s; b_prec := %s; b_S := %s; b_W := %s; b_tden := %d%%positive; b_dden := %d%%positive; b_parts := %s; '
            'b_auto := %s; b_edges := %s; b_ln := %s; b_pden := %d%%positive; b_T := %s; b_P := %s; b_hist := %s; b_obs := %s; '
            'b_final_n := %s; b_oneshot := %s |}' % (
                coq_kind(case), 'F32' if prec == 'float32' else 'F64', C.coq_nat(case['S']), C.coq_nat(case['W']), case['tden'],
                case['dden'], C.coq_list(parts, C.coq_z), C.coq_bool(bool(case.get('auto'))),
                C.coq_list(case.get('edges', []), F), C.coq_list(lnt, F), case.get('pden', 1),
                C.coq_list2(case.get('T', []), C.coq_z), C.coq_list2(case.get('P', []), C.coq_z), C.coq_list(hist), ob,
                C.coq_z(obs.get('final_n', -1)), C.coq_list(_oneshot_for_coq(case, obs), F)))


def _oneshot_for_coq(case, obs):
    """The one-batch result is comparable with the model of the history only when both objects use the same class set."""
    if 'oneshot' not in obs:
        return []
    if case['fam'] == 'part' and case['auto'] and obs.get('oneshot_partitions') != obs.get('partitions'):
        return []
    return obs['oneshot']


# ------------------------------------------------------------------------------------------------- kinds
def RUN_SEED():
    """The seed of this run (the same default as tools/check.py): the signature plan is shared by all the kinds of a run."""
    return int(os.environ.get('VERIF_SEED', 20260926))


def signature_plan(rng, tier):
    """(trace dtype, precision) pairs used by the JIT-compiled kernels of this run.  Quick: every trace dtype once (precision
    drawn from the seed, float32 traces always with float64 precision), two of them - (float32, float64) and one drawn pair in float32
    precision - also with small class sets / template build (second kernels: 4-8 s of compilation each); thorough: all fourteen."""
    if tier != 'quick':
        allp = [(t, p) for t in TDT for p in PRECS]
        return allp, allp
    base = [(t, rng.choice(PRECS)) for t in TDT]
    other = rng.choice([t for t in TDT if t != OFFSET_SIG[0]])
    # float32 traces with float64 precision are always there (the offset block needs both kernels for that pair); the second
    # pair with the expensive kernels is another dtype in float32 precision
    base = [OFFSET_SIG if t == OFFSET_SIG[0] else ((t, 'float32') if t == other else (t, p)) for t, p in base]
    heavy = [OFFSET_SIG, (other, 'float32')]
    return base, heavy


class HistKind(Kind):
    header = HDR
    case_type = 'bcase'
    check_fn = 'bcheck'
    explain_fn = 'bexpected'
    shard = 12
    fam = 'cpa'
    jit = None            # None: numpy only (all fourteen signatures); 'base' / 'heavy': see signature_plan

    # ------------------------------------------------------------------ generation
    def variants(self, rng, sig, small_ok):
        """Per-case extra arguments of make_case (class sets, metric, ...)."""
        return {}

    def offset_variant(self, i):
        """Overrides of the variants for the i-th case of the offset block."""
        return {}

    def checkpoint_cases(self, quick):
        return 6

    def word_dims(self, rng, kw, shape=None):
        """Word axes of the data: the families whose number of words is free take any shape; template build (one word) and static
        matching (data ignored) take shapes of one element."""
        one_word = self.fam == 'tbuild' or (self.fam == 'tmatch' and kw.get('tmode', 'static') == 'static')
        if self.fam == 'ttest':
            return None
        if shape is None:
            if rng.random() < 0.6:
                return None
            shape = rng.choice(WORD_SHAPES)
        return [1] * len(shape) if one_word else list(shape)

    def layout_choice(self, rng, kw):
        """Word shape, memory layouts and slicing style of an ordinary case.  The numpy-only kinds take every layout for both
        arrays; the kinds with compiled kernels keep C-ordered traces (each layout is another compilation) and vary the data:
        data with >= 2 word axes in any layout (update() flattens them to a fresh C-ordered array), 2-D data C-ordered / read-only."""
        dims = self.word_dims(rng, kw)
        out = {'dims': dims, 'slicing': rng.choice(SLICINGS)}
        if self.jit is None:
            out['tlayout'] = rng.choice(LAYOUTS) if rng.random() < 0.5 else 'C'
            out['dlayout'] = rng.choice(LAYOUTS) if rng.random() < 0.5 else 'C'
        elif dims and len(dims) > 1:
            out['dlayout'] = rng.choice(JIT_DATA_LAYOUTS) if rng.random() < 0.7 else 'C'
        else:
            out['dlayout'] = rng.choice(['C', 'C', 'readonly'])
        return out

    def layout_block(self, lay, shape, slicing, kw, tier):
        """The case of the memory-layout block for layout [lay]."""
        out = {'dims': self.word_dims(None, kw, shape), 'slicing': slicing}
        if self.jit is None:
            out.update(tlayout=lay, dlayout=lay)
            return out
        out['dlayout'] = lay if lay in JIT_DATA_LAYOUTS else 'C'
        # traces: the three strided views share one numba array type (one more compilation per kernel); thorough: F / read-only too
        allowed = NUMBA_A_LAYOUTS if tier == 'quick' else NUMBA_A_LAYOUTS + ['F', 'readonly', 'readonly_F']
        if self.jit == 'heavy' and tier == 'quick':
            allowed = []                 # template build: both kernels, ~10 s per array type
        out['tlayout'] = lay if lay in allowed else 'C'
        return out

    def sigs(self, tier):
        if self.jit is None:
            return [(t, p) for t in TDT for p in PRECS]
        base, heavy = signature_plan(core.make_rng(RUN_SEED(), 'C01/signatures'), tier)
        return heavy if self.jit == 'heavy' else base

    def gen(self, rng, tier):
        WORKER.new_phase()
        quick = tier == 'quick'
        sigs = self.sigs(tier)
        self._heavy = set(signature_plan(core.make_rng(RUN_SEED(), 'C01/signatures'), tier)[1])
        si = 0

        def nxt():
            nonlocal si
            si += 1
            return sigs[si % len(sigs)]

        def mk(n, splits, mode, block):
            sig = nxt()
            kw = self.variants(rng, sig, sig in self._heavy)
            kw.update(self.layout_choice(rng, kw))
            c = make_case(rng, self.fam, sig, n, splits, mode, block, **kw)
            # continue on a copy of the object after one of the updates (copying an object that holds a numba look-up closure
            # recompiles it, ~0.5 s: rare for those kinds, which have their checkpoint block)
            if rng.random() < (0.25 if self.fam not in ('part', 'mia', 'tbuild') else 0.02):
                cps = [''] * len(splits)
                cps[rng.randrange(len(splits))] = rng.choice(['deepcopy', 'pickle'])
                c['checkpoints'] = cps
            return c

        # --- deterministic boundary block: batch of 1 first, batch of 1 last, compute between 2nd and 3rd batch, single batch
        for rep in range(1 if quick else 4):
            for n in (5, 12, 40):
                yield self._with_computes(mk(n, [1, n - 1], 'every', 'one_first'), [1, 1])
                yield self._with_computes(mk(n, [n - 1, 1], 'every', 'one_last'), [1, 1])
                a = max(1, n // 3)
                yield self._with_computes(mk(n, [a, a, n - 2 * a], 'none', 'compute_between_2_and_3'), [0, 1, 1])
                yield self._with_computes(mk(n, [a, a, n - 2 * a], 'none', 'compute_between_2_and_3_twice'), [0, 2, 1])
                yield self._with_computes(mk(n, [n], 'none', 'single_batch'), [1])
                yield self._with_computes(mk(n, [n], 'none', 'single_batch_twice'), [2])
                yield mk(n, [1] * n, 'every' if n <= 12 else 'subset', 'all_ones')
            yield self._with_computes(mk(4, [1, 2, 1], 'none', 'sizes_1_2_1'), [1, 1, 1])
            # memory layout / representation of the arrays handed to update(): every layout x word shapes of 2 and 3 axes (equal
            # and unequal dimensions) x slicing styles (views of ONE parent array, independent copies, per-batch arrays)
            for i, lay in enumerate(LAYOUTS):
                for j in range(2):
                    k = 2 * i + j
                    kw = self.variants(rng, OFFSET_SIG, False)
                    kw.pop('auto', None)
                    kw.update(self.layout_block(lay, WORD_SHAPES[k % len(WORD_SHAPES)], SLICINGS[k % 4], kw, tier))
                    splits = [[4, 4, 4], [1, 5, 6], [6, 6], [12], [2, 9, 1]][k % 5]
                    sig = OFFSET_SIG if self.jit else nxt()
                    yield make_case(rng, self.fam, sig, 12, splits, 'every' if k % 3 else 'doubled', 'memory_layout', **kw)
            # checkpoints: the history continues on copy.deepcopy(obj) / pickle.loads(pickle.dumps(obj)) after the 1st / 2nd / every
            # update (partitioned kinds: class sets <= 9 first, so that the update after the copy goes through kernel 2)
            for i, (how, pos) in enumerate([('deepcopy', [1, 0, 0]), ('pickle', [1, 0, 0]), ('deepcopy', [0, 1, 0]), ('pickle', [1, 1, 1]),
                                            ('deepcopy', [1, 1, 0, 0]), ('pickle', [0, 0, 1, 0])][:self.checkpoint_cases(quick)]):
                kw = self.variants(rng, OFFSET_SIG, True)
                kw.update(self.offset_variant(i))
                kw.pop('auto', None)
                sig = OFFSET_SIG if self.jit else nxt()
                c = make_case(rng, self.fam, sig, 12, [12 // len(pos)] * len(pos), 'every', 'checkpoint', **kw)
                c['checkpoints'] = [how if p else '' for p in pos]
                yield c
            # float32 traces with a large offset, float64 precision, >= 3 batches (the 2nd batch of a partitioned / template build
            # object always goes through its second kernel), class sets <= 9 and > 9
            for i, (off, n, splits) in enumerate([('a', 40, [13, 13, 14]), ('b', 40, [10, 10, 10, 10]), ('a', 24, [1, 11, 6, 6]),
                                                  ('b', 30, [5, 20, 5]), ('a', 12, [4, 4, 4]), ('b', 36, [12, 12, 12])]):
                kw = self.variants(rng, OFFSET_SIG, True)
                kw.update(self.offset_variant(i))
                kw.pop('auto', None)
                c = make_case(rng, self.fam, OFFSET_SIG, n, splits, 'every' if i % 2 == 0 else 'subset', 'float32_offset_float64', offset=off, **kw)
                yield c
        # --- every composition of n, n = 2..7 (exhaustive), compute positions rotating (thorough: all four modes)
        k = 0
        for n in range(2, 8):
            for comp in compositions(n):
                for mode in ([MODES[k % 4]] if quick else MODES):
                    yield mk(n, comp, mode, 'all_compositions')
                k += 1
        # --- random compositions above
        for i in range(24 if quick else 400):
            n = rng.randint(8, 40)
            yield mk(n, random_composition(rng, n), MODES[i % 4], 'random')

    @staticmethod
    def _with_computes(case, computes):
        case['computes'] = list(computes)
        return case

    # ------------------------------------------------------------------ implementation
    def run(self, case):
        obs = WORKER.call(case)
        if 'harness_error' in obs:
            raise HarnessError(obs['harness_error'])
        return obs

    def coq(self, case, obs):
        return coq_case(case, obs)

    def oracle(self, case, obs):
        if 'raised' in obs:
            return f'{self.name}: update/compute raised {obs["raised"]}: {obs["msg"]}'
        if not obs['inputs_unchanged']:
            return 'update/compute modified the arrays passed in'
        if not obs['shapes_ok']:
            return f'compute() returned shape {obs.get("shape")} instead of {expected_shape(case)}'
        if not obs['twice_same']:
            return 'two successive compute() calls without new data returned different values'
        n = len(case['traces'])
        if obs['final_n'] != n:
            return f'processed_traces = {obs["final_n"]} after {n} traces'
        same_classes = not (case['fam'] == 'part' and case['auto']) or obs.get('oneshot_partitions') == obs.get('partitions')
        ends_with_compute = case['computes'][-1] > 0          # (shrinking may leave updates after the last compute())
        if same_classes and ends_with_compute and exact_regime(case) and not _same_bits(obs['computes'][-1]['vals'], obs['oneshot']):
            return ('all running sums are exactly representable, yet the last compute() of the split history differs from the '
                    "code's own one-batch result")
        return None

    def nontrivial(self, case, obs):
        comps = obs.get('computes', [])
        return len(case['splits']) >= 2 and any(v == v for c in comps for v in c['vals'])

    def features(self, case, obs):
        comps = obs.get('computes', [])
        vals = [v for c in comps for v in c['vals']]
        nn = sum(1 for v in vals if v != v)
        f = {'precision': case['prec'] if case['fam'] != 'mia' else case['mia_prec'], 'tdtype': case['tdtype'],
             'block': case['block'], 'mode': case['mode'], 'batches': min(len(case['splits']), 9), 'computes': min(len(comps), 9),
             'nan': 'none' if nn == 0 else ('all' if nn == len(vals) else 'some'), 'exact_sums': exact_regime(case),
             'batch_of_one': 1 in case['splits'], 'word_axes': len(case.get('dims') or [1]), 'tlayout': case.get('tlayout', 'C'),
             'dlayout': case.get('dlayout', 'C'), 'slicing': case.get('slicing', 'view'),
             'checkpoint': '+'.join(sorted({x for x in (case.get('checkpoints') or []) if x})) or 'none'}
        if case['fam'] == 'part':
            f['classes'] = 'auto' if case['auto'] else ('<=9' if len(case['parts']) <= 9 else '>9')
            f['metric'] = case['metric']
        return f

    def tags(self, case, obs):
        return [self.name, f'{self.name}_{case["prec"]}']

    def sample(self, case, obs):
        return {'case': dict(case, traces=case['traces'][:6], data=case['data'][:6]), 'observed': {k: v for k, v in obs.items() if k != 'computes'},
                'computes': obs.get('computes', [])[:2]}

    # ------------------------------------------------------------------ shrinking
    def shrink(self, case):
        WORKER.new_phase()
        n, S, W = len(case['traces']), case['S'], case['W']
        splits, comps = case['splits'], case['computes']
        auto = case.get('auto')
        cps = case.get('checkpoints') or [''] * len(splits)
        if any(cps):
            yield dict(case, checkpoints=[''] * len(splits))
            for i, cp in enumerate(cps):
                if cp and sum(1 for x in cps if x) > 1:
                    yield dict(case, checkpoints=cps[:i] + [''] + cps[i + 1:])
        if case.get('scribble', True):
            yield dict(case, scribble=False)
        # fewer compute() calls
        if sum(comps) > 1:
            for i in range(len(comps)):
                if comps[i] > 0 and sum(comps) - 1 >= 1:
                    c = list(comps)
                    c[i] -= 1
                    if c[-1] == 0 and not any(c):
                        continue
                    yield dict(case, computes=c)
        # merge two adjacent batches (their compute() calls go after the merged batch)
        for i in range(len(splits) - 1):
            if auto and i == 0:
                continue
            sp = splits[:i] + [splits[i] + splits[i + 1]] + splits[i + 2:]
            cp = comps[:i] + [comps[i] + comps[i + 1]] + comps[i + 2:]
            yield dict(case, splits=sp, computes=cp, checkpoints=cps[:i] + cps[i + 1:])
        # plain C-ordered arrays, views of one parent
        if case.get('tlayout', 'C') != 'C':
            yield dict(case, tlayout='C')
        if case.get('dlayout', 'C') != 'C':
            yield dict(case, dlayout='C')
        if case.get('slicing', 'view') != 'view':
            yield dict(case, slicing='view')
        if len(case.get('dims') or [1]) > 1:
            yield dict(case, dims=[W])
        # one sample / one word
        if S > 1:
            for s in range(S):
                c = dict(case, S=1, traces=[[r[s]] for r in case['traces']])
                if case['fam'] == 'tmatch':
                    c['T'] = [[r[s]] for r in case['T']]
                    c['P'] = [[case['P'][s][s]]]
                yield c
        if W > 1 and case['fam'] != 'tbuild':
            for w in range(W):
                yield dict(case, W=1, dims=[1], data=[[r[w]] for r in case['data']])
        # drop one row (keeping every batch non-empty)
        if n > 2:
            pos = 0
            for b, size in enumerate(splits):
                if size > 1 and not (auto and b == 0):
                    for j in ([pos, pos + size - 1] if size > 2 else [pos]):
                        keep = [t for t in range(n) if t != j]
                        sp = list(splits)
                        sp[b] -= 1
                        yield dict(case, traces=[case['traces'][t] for t in keep], data=[case['data'][t] for t in keep], splits=sp)
                pos += size
        # drop a whole batch
        if len(splits) > 2:
            pos = 0
            for b, size in enumerate(splits):
                if not (auto and b == 0):
                    keep = [t for t in range(n) if not (pos <= t < pos + size)]
                    sp = splits[:b] + splits[b + 1:]
                    cp = comps[:b] + comps[b + 1:]
                    if not any(cp):
                        cp[-1] = 1
                    yield dict(case, traces=[case['traces'][t] for t in keep], data=[case['data'][t] for t in keep], splits=sp, computes=cp,
                               checkpoints=cps[:b] + cps[b + 1:])
                pos += size


RULE = ('histories of update(batch) / compute() on ONE real object: every composition of n for n = 2..7, random compositions for '
        'n = 8..40, compute() after no / every / a random subset of the updates, doubled; boundary block: batch of 1 first, batch of 1 '
        'last, all batches of 1, compute between the 2nd and 3rd batch (once, twice), a single batch, sizes 1-2-1, float32 traces with a large offset '
        '(1000 + j/1024, 65536 + j/16) accumulated in float64 over 3-4 batches; 1..4 samples, 1..3 words; '
        'trace dtypes u8/i8/u16/i16/i32/f32/f64 (floats k/8); data with 1..3 word axes; arrays handed to update() as C / Fortran / transposed / '
        'strided / negative-stride / offset-window / read-only / big-endian, as views of one parent, copies or per-batch arrays; every array returned '
        'by compute() (t-test: .mean / .var) is overwritten in place by the harness afterwards; the history continues on a deepcopy / pickle '
        'copy of the object after some updates; every compute() value and processed_traces compared inside Coq with the '
        'one-shot spec on the rows fed before it; non-trivial = at least two batches and a defined value')


class CpaKind(HistKind):
    name = 'cpa'
    fam = 'cpa'
    rule = 'CPADistinguisher, both precisions, data u8/i16/f32: ' + RULE


class CpaAltKind(HistKind):
    name = 'cpa_alt'
    fam = 'cpa_alt'
    rule = 'CPAAlternativeDistinguisher: as cpa'


class DpaKind(HistKind):
    name = 'dpa'
    fam = 'dpa'
    rule = 'DPADistinguisher, uint8 bit data: as cpa'


class PartKind(HistKind):
    fam = 'part'
    jit = 'base'
    metric = 'ANOVA'

    def variants(self, rng, sig, small_ok):
        r = rng.random()
        if small_ok and r < 0.15:
            return {'metric': self.metric, 'auto': True}
        if small_ok and r < 0.7:
            return {'metric': self.metric, 'parts': rng.choice(SMALL_SETS)}
        return {'metric': self.metric, 'parts': rng.choice(LARGE_SETS)}

    def offset_variant(self, i):
        return {'metric': self.metric, 'parts': (SMALL_SETS + LARGE_SETS)[i % 5]}

    def layout_block(self, lay, shape, slicing, kw, tier):
        out = super().layout_block(lay, shape, slicing, kw, tier)
        if out['tlayout'] != 'C':
            kw['parts'] = LARGE_SETS[len(lay) % 2]        # kernel 1 only for the additional array types of the traces
        return out


class AnovaKind(PartKind):
    name = 'anova'
    metric = 'ANOVA'
    rule = ('ANOVADistinguisher: explicit class lists (<= 9 classes: both accumulation kernels; > 9: kernel 1), undeclared values, '
            'partitions=None with the class set frozen at the first batch; data u8/u16/i16; ' + RULE)


class NicvKind(PartKind):
    def checkpoint_cases(self, quick):
        return 3 if quick else 6

    name = 'nicv'
    metric = 'NICV'
    rule = 'NICVDistinguisher: as anova'


class SnrKind(PartKind):
    def checkpoint_cases(self, quick):
        return 3 if quick else 6

    name = 'snr'
    metric = 'SNR'
    rule = 'SNRDistinguisher: as anova'


class MiaKind(HistKind):
    def checkpoint_cases(self, quick):
        return 3 if quick else 6

    name = 'mia'
    fam = 'mia'
    jit = 'base'
    rule = ('MIADistinguisher with explicit uniform bin_edges (2..8 bins) and explicit partitions, accumulators uint32 / float32 / float64, '
            'samples on the edges and outside the window, undeclared values; ' + RULE)

    def variants(self, rng, sig, small_ok):
        return {'parts': rng.choice(MIA_SETS)}

    def gen(self, rng, tier):
        for c in super().gen(rng, tier):
            # the accumulator dtype is tied to the signature so that the number of compiled kernels stays bounded;
            # thorough: the default uint32 accumulators as well
            if tier != 'quick' and rng.random() < 0.4:
                c['mia_prec'] = 'uint32'
            yield c


class TBuildKind(HistKind):
    def checkpoint_cases(self, quick):
        return 3 if quick else 6

    name = 'template_build'
    fam = 'tbuild'
    jit = 'heavy'
    rule = ('_TemplateBuildDistinguisherMixin (the build phase of TemplateAttack): compute() = templates, pooled_covariance read after it; '
            'class lists in any order, undeclared values, empty and singleton classes; ' + RULE)

    def variants(self, rng, sig, small_ok):
        return {'parts': rng.choice(TPL_SETS)}


class TMatchKind(HistKind):
    name = 'template_matching'
    fam = 'tmatch'
    rule = ('TemplateAttackDistinguisherMixin / TemplateDPADistinguisherMixin (the matching phase) with dyadic templates and an arbitrary '
            'dyadic matrix in place of the inverse covariance; ' + RULE)

    def variants(self, rng, sig, small_ok):
        return {'parts': rng.choice(TPL_SETS), 'tmode': rng.choice(['static', 'static', 'dpa'])}


class TtestKind(HistKind):
    name = 'ttest'
    fam = 'ttest'
    jit = 'base'
    rule = 'scared.ttest.TTestThreadAccumulator: update(traces) / compute() -> (mean, var); ' + RULE



# ------------------------------------------------------------------------------------------------- very large batches
LARGE_N = [65535, 65536, 70000, 131072, 200000]
LARGE_FAMS = [('cpa', {}), ('cpa_alt', {}), ('dpa', {}), ('part', {'metric': 'ANOVA'}), ('part', {'metric': 'NICV'}), ('part', {'metric': 'SNR'}),
              ('mia', {}), ('tbuild', {}), ('tmatch', {'tmode': 'static'}), ('tmatch', {'tmode': 'dpa'}), ('ttest', {})]


def make_large(rng, fam, extra, n, i):
    """n traces made of 4..6 distinct rows (small integers), the first one repeated for 2/3 .. 7/8 of the set; fed in ONE update and
    in 3..5 updates.  Integer values, float64 precision: all running sums are exact."""
    S = rng.choice([1, 2])
    R = rng.randint(4, 6)
    while True:
        samples = [[rng.randint(0, 12) for _ in range(S)] for _ in range(R)]
        if all(len({r[s] for r in samples}) >= 3 for s in range(S)) and samples[0] != samples[1]:
            break
    case = {'large': True, 'fam': fam, 'n': n, 'S': S, 'prec': 'float64', 'mia_prec': 'float64', 'auto': False, 'parts': [], 'dden': 1, 'tden': 1,
            'tdtype': 'float32' if fam in ('part', 'mia', 'tbuild', 'ttest') else rng.choice(['uint8', 'int16', 'float32']), 'ddtype': 'uint8',
            'block': 'large_n'}
    case.update(extra)
    if fam in ('cpa', 'cpa_alt'):
        W = rng.choice([1, 2])
        while True:
            data = [[rng.randint(0, 9) for _ in range(W)] for _ in range(R)]
            if all(len({r[w] for r in data}) >= 3 for w in range(W)):
                break
    elif fam == 'dpa':
        W = rng.choice([1, 2])
        data = [[(r + w) % 2 for w in range(W)] for r in range(R)]
    elif fam == 'part':
        W = rng.choice([1, 2])
        parts = (SMALL_SETS + LARGE_SETS)[i % 5]
        data = [[rng.choice(parts) for _ in range(W)] for _ in range(R)]
        data[1] = list(data[0])                      # two different rows in one class: the within-class spread is not zero
        data[2] = [parts[(parts.index(v) + 1) % len(parts)] for v in data[0]]      # and at least two classes
        case['parts'] = list(parts)
    elif fam == 'mia':
        W = rng.choice([1, 2])
        parts = MIA_SETS[i % 3]
        data = [[rng.choice(parts) for _ in range(W)] for _ in range(R)]
        data[2] = [parts[(parts.index(v) + 1) % len(parts)] for v in data[0]]
        case.update(parts=list(parts), edges=[0.0, 4.0, 8.0, 12.0])
    elif fam == 'tbuild':
        W = 1
        parts = TPL_SETS[i % 4]
        data = [[parts[r % len(parts)]] for r in range(R)]
        data[1] = list(data[0])
        case['parts'] = list(parts)
    elif fam == 'tmatch':
        parts = TPL_SETS[i % 4]
        K = len(parts)
        W = 1 if case['tmode'] == 'static' else rng.choice([1, 2])
        data = [[rng.choice(parts) for _ in range(W)] for _ in range(R)] if case['tmode'] == 'dpa' else [[0] for _ in range(R)]
        case.update(parts=list(parts), pden=rng.choice([1, 2, 4]), T=[[rng.randint(-20, 20) for _ in range(S)] for _ in range(K)],
                    P=[[rng.randint(-4, 4) for _ in range(S)] for _ in range(S)])
    else:
        W, data = 0, [[] for _ in range(R)]
    others = rng.randint(n // 8, n // 3)
    share = others // (R - 1)               # balanced minority runs (+-25 %): every class spread stays well conditioned
    counts = [share + rng.randint(-(share // 4), share // 4) for _ in range(R - 2)]
    counts.append(others - sum(counts))
    runs = [[samples[0], data[0], n - others]] + [[samples[r], data[r], counts[r - 1]] for r in range(1, R)]
    if i % 2:
        runs = runs[1:3] + runs[:1] + runs[3:]        # the long run in the middle
    nb = rng.randint(3, 5)
    bcuts = sorted(rng.sample(range(1, n), nb - 1))
    if i % 3 == 0:
        bcuts[0] = 1                                   # a first batch of one trace
    if i % 3 == 1:
        bcuts[-1] = n - 1
    bcuts = sorted(set(bcuts))
    case.update(W=W, runs=runs, splits=[b - a for a, b in zip([0] + bcuts, bcuts + [n])], dims=[W], tlayout='C', dlayout='C', slicing='view')
    return case


def batch_runs(case):
    """The update() batches as runs (row, count)."""
    out, k, left = [], 0, case['runs'][0][2]
    for size in case['splits']:
        b = []
        while size > 0:
            take = min(size, left)
            b.append((case['runs'][k][0], case['runs'][k][1], take))
            size -= take
            left -= take
            if left == 0 and k + 1 < len(case['runs']):
                k += 1
                left = case['runs'][k][2]
        out.append(b)
    return out


def run_large(case):
    share_lut_functions()
    runs = case['runs']
    counts = np.array([r[2] for r in runs], dtype='int64')
    n = int(counts.sum())
    if n != case['n'] or sum(case['splits']) != n:
        raise HarnessError('C01 harness: run lengths do not sum to n')
    tr = np.repeat(np.array([r[0] for r in runs], dtype=case['tdtype']), counts, axis=0)
    if case['W'] > 0:
        da = np.repeat(np.array([r[1] for r in runs], dtype='uint8'), counts, axis=0)
    else:
        da = np.zeros((n, 0), dtype='uint8')
    obs = {'computes': [], 'twice_same': True, 'shapes_ok': True, 'inputs_unchanged': True}
    with warnings.catch_warnings(), np.errstate(all='ignore'):
        warnings.simplefilter('ignore')
        o = _Obj(case)
        pos = 0
        for size in case['splits']:
            o.update(tr[pos:pos + size], da[pos:pos + size])
            pos += size
            vals, _ = o.compute()
            obs['computes'].append({'n': o.processed(), 'vals': vals})
        obs['final_n'] = o.processed()
        o2 = _Obj(case)
        o2.update(tr, da)
        obs['oneshot'], _ = o2.compute()
        obs['oneshot_n'] = o2.processed()
    return obs


def _mia_ln_keys(case):
    """The integers whose logarithm the MIA model needs (numerators / denominators of the probabilities of every prefix), from the
    histogram of the runs (numpy.histogram's bin rule on the integer edges)."""
    edges = case['edges']
    nb = len(edges) - 1
    keys = set()

    def bin_of(x):
        if x < edges[0] or x > edges[-1]:
            return None
        for b in range(nb):
            if edges[b] <= x < edges[b + 1]:
                return b
        return nb - 1
    prefixes, seen = [], []
    for b in batch_runs(case):
        seen = seen + b
        prefixes.append(list(seen))
    for pref in prefixes:
        for s in range(case['S']):
            for w in range(case['W']):
                cell = {}
                for smp, dat, cnt in pref:
                    b = bin_of(smp[s])
                    if b is not None and dat[w] in case['parts']:
                        cell[(b, dat[w])] = cell.get((b, dat[w]), 0) + cnt
                N = sum(cell.values())
                cb, cv = {}, {}
                for (b, v), c in cell.items():
                    cb[b] = cb.get(b, 0) + c
                    cv[v] = cv.get(v, 0) + c
                for (b, v), c in cell.items():
                    f = Fraction(c, cv[v])
                    keys.update((f.numerator, f.denominator))
                for b, c in cb.items():
                    f = Fraction(c, N)
                    keys.update((f.numerator, f.denominator))
    return sorted(k for k in keys if k > 0)


class LargeKind(Kind):
    name = 'large_n'
    header = HDR
    case_type = 'lcase'
    check_fn = 'lcheck'
    explain_fn = 'lexpected'
    shard = 4
    rule = ('all ten kinds (template matching static and DPA) on n = 65535, 65536, 70000, 131072, 200000 traces made of 4..6 distinct integer '
            'rows, one of them repeated for 2/3 .. 7/8 of the set, fed in ONE update() on a fresh object and in 3..5 updates (first batch of one '
            'trace, last batch of one trace) with a compute() after each; float64 precision, float32 / u8 / i16 traces; batches run-length '
            'encoded and evaluated as weighted sums inside Coq (Props/C01.run_length_batch_is_the_expanded_batch); every value within 2^-30 '
            'relative of the exact one-shot result, processed_traces exact; the one-batch and the split result bit-identical')

    def gen(self, rng, tier):
        WORKER.new_phase()
        k = 0
        for rep in range(1 if tier == 'quick' else 3):
            for fam, extra in LARGE_FAMS:
                for n in LARGE_N:
                    yield make_large(rng, fam, extra, n, k)
                    k += 1

    def run(self, case):
        obs = WORKER.call(case)
        if 'harness_error' in obs:
            raise HarnessError(obs['harness_error'])
        return obs

    def coq(self, case, obs):
        def row(r):
            return '((%s, %s), %d%%positive)' % (C.coq_list(r[0], C.coq_z), C.coq_list(r[1], C.coq_z), r[2])
        comps = obs.get('computes', []) if 'raised' not in obs else []
        lnt = [(k, math.log(k)) for k in _mia_ln_keys(case)] if case['fam'] == 'mia' else []
        return ('{| l_kind := %s; l_S := %s; l_W := %s; l_parts := %s; l_edges := %s; l_ln := %s; l_pden := %d%%positive; l_T := %s; l_P := %s; '
                'l_batches := %s; l_obs := %s; l_oneshot := %s |}' % (
                    coq_kind(case), C.coq_nat(case['S']), C.coq_nat(case['W']), C.coq_list(case['parts'], C.coq_z),
                    C.coq_list(case.get('edges', []), F), C.coq_list(lnt, lambda p: '(%s, %s)' % (C.coq_z(p[0]), F(p[1]))), case.get('pden', 1),
                    C.coq_list2(case.get('T', []), C.coq_z), C.coq_list2(case.get('P', []), C.coq_z),
                    C.coq_list(batch_runs(case), lambda b: C.coq_list(b, row)),
                    C.coq_list(comps, lambda c: C.coq_pair(C.coq_z(c['n']), C.coq_list(c['vals'], F))), C.coq_list(obs.get('oneshot', []), F)))

    def oracle(self, case, obs):
        if 'raised' in obs:
            return f'large_n {case["fam"]}: update/compute raised {obs["raised"]}: {obs["msg"]}'
        if obs['final_n'] != case['n'] or obs['oneshot_n'] != case['n']:
            return f'processed_traces = {obs["final_n"]} / {obs["oneshot_n"]} after {case["n"]} traces'
        if case['fam'] != 'tmatch' and not _same_bits(obs['computes'][-1]['vals'], obs['oneshot']):
            return ('integer inputs in float64 (all running sums exact), yet ONE update() with all the traces and the same traces in '
                    f'{len(case["splits"])} updates give different results')
        return None

    def nontrivial(self, case, obs):
        return any(v == v for c in obs.get('computes', []) for v in c['vals'])

    def features(self, case, obs):
        return {'fam': case['fam'] + ('_' + case.get('metric', case.get('tmode', '')) if case['fam'] in ('part', 'tmatch') else ''),
                'n': case['n'], 'batches': len(case['splits']), 'tdtype': case['tdtype']}

    def tags(self, case, obs):
        return ['large_n', f'large_n_{case["fam"]}']

    def sample(self, case, obs):
        return {'case': case, 'observed': obs}

    def shrink(self, case):
        WORKER.new_phase()
        runs = case['runs']
        if len(case['splits']) > 1:
            yield dict(case, splits=[case['n']])
            sp = case['splits']
            yield dict(case, splits=[sp[0] + sp[1]] + sp[2:])
        if len(runs) > 2:
            for j in range(len(runs)):
                rr = runs[:j] + runs[j + 1:]
                n = sum(r[2] for r in rr)
                yield dict(case, runs=rr, n=n, splits=[n // 2, n - n // 2] if len(case['splits']) > 1 else [n])
        for j, r in enumerate(runs):
            if r[2] > 4:
                for c in (r[2] // 2, r[2] - 1):
                    rr = runs[:j] + [[r[0], r[1], c]] + runs[j + 1:]
                    n = sum(x[2] for x in rr)
                    yield dict(case, runs=rr, n=n, splits=[n // 2, n - n // 2] if len(case['splits']) > 1 else [n])
        if case['S'] > 1:
            c = dict(case, S=1, runs=[[r[0][:1], r[1], r[2]] for r in runs])
            if case['fam'] == 'tmatch':
                c['T'] = [r[:1] for r in case['T']]
                c['P'] = [case['P'][0][:1]]
            yield c
        if case['W'] > 1 and case['fam'] != 'tbuild':
            yield dict(case, W=1, dims=[1], runs=[[r[0], r[1][:1], r[2]] for r in runs])


KINDS = [CpaKind(), CpaAltKind(), DpaKind(), AnovaKind(), NicvKind(), SnrKind(), MiaKind(), TBuildKind(), TMatchKind(), TtestKind(), LargeKind()]
