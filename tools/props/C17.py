"""C17 — on simulated leakage every attack ranks the true key first (partial: wiring + noise-free optimum proved, separation
under bounded noise certified per generated campaign).

C-tie = per-campaign certificate.  A campaign: a key, N random plaintexts, ciphertexts by the real cipher; the targeted
state of the REAL cipher under the true key (aes/des.encrypt stop points, independent of the selection functions);
traces = gain * model(state word) + integer noise in [-a, a] at 1-2 leaking samples per attacked word, noise elsewhere
(integers: every running sum is exact).  The REAL attack classes are run through the public pipeline
Container -> selection function -> model -> distinguisher -> discriminant with batch sizes 7 / 50 / default.  Recorded:
.scores (shape, argmax over the guess axis, values at a SUBSET of guesses containing the expected key, the code's best
and runner-up), compute_expected_key(key), and the hypothesis columns model(selection_function(metadata))[:, g, w] of the
subset (the selection function's output is DATA here; C07 is about it).

Inside Coq (Model/Attack.v camp_check): the SPEC statistic of each class (Pearson / difference of class means / F, NICV,
SNR over value classes / mutual information / mean Mahalanobis distance) is applied to those hypothesis columns and the
exported traces, the discriminant over the samples is taken, and it is checked exactly that (0) the hypothesis column at the
expected key IS model(real cipher state) (the C07 fact, on the data), (1) the expected key leads every other evaluated guess
by the margin thr = (best - worst) / 8 >= max|score| / 256 -- otherwise the campaign is DISCARDED for that attack (counted)
--, (2) the code's argmax over ALL guesses is the expected key, (3) the code's scores agree with the model's within thr / 4.
camp_wiring additionally checks the shape of the simulation on the data: traces = gain * leak + noise in [-a, a].
The harness evaluates the same verdict independently (integer sums, fractions) and Coq cross-checks it.

Classes closed in later rounds: the words argument in every form and order; custom tags and extra metadata fields; frames of
length 1 and 2 (list / ndarray / slice) x polarity (gain < 0) x every discriminant that ranks by the leak; precision x offset
(baseline 30000, float64) for every class, the template profile being recomputed by the harness from the building traces.

Round 4: non-default guesses (ranges with a non-zero start, stepped, descending; ndarray subsets and permutations, always holding
the true key values): the certificate works on guess VALUES -- argmax index -> the guess the campaign ASKED for (not sf.guesses
read back); interrupted runs (run(A), run(B) raising after 1-3 batches, run(B) again on every attack object: the rows fed are
A + the processed prefix of B + B); histories in which 2-3 selection function objects with different guesses / words are all
constructed first and used in another order.

Second kind, campaign HISTORIES: one selection function object and one model object re-used for 2-3 campaigns under different
keys / plaintext sets / batch sizes, compute_expected_key asked before the run, after it and once more, attack objects run()
twice on containers of the same key; every campaign of the history is certified as above (state kept between campaigns).
"""
import math
import os
import random
import warnings
from fractions import Fraction

import numpy as np

os.environ.setdefault('NUMBA_NUM_THREADS', '2')     # tiny sets: parallel kernels only contend (see props/C02.py)

from lib.kinds import Kind, HarnessError  # noqa: E402
from lib import core  # noqa: E402
from translate import common as C  # noqa: E402

ID = 'C17'
TRANSLATORS = []
MODEL_TARGETS = ['theories/Model/Attack.vo', 'theories/Proofs/Attack.vo']
PROP_TARGET = 'theories/Props/C17.vo'
EXHAUSTIVE = False
TRUSTED_BASE = [
    'Coq 8.16.1 kernel incl. vm_compute (no native_compute)',
    'Print Assumptions: every theorem of Props/C17.v is closed under the global context (no axioms)',
    'correspondence harness tools/props/C17.py: the campaign simulator (random.Random(data_seed): plaintexts, noise; its own popcount / '
    'bit / identity leakage functions; aes/des.encrypt stop points of the real code for the targeted state -- properties C05/C06), '
    'estraces.read_ths_from_ram, float export by core.float_to_coq, choice of the evaluated guess subset',
    'the specs of the colleagues that the certificate evaluates: Model/Cpa.v pearson_fast / dpa_spec (C03), Model/Partitioned.v '
    'groups / ss_between / var_of_class_means / snr_signal (C04), Model/Mia.v hist_bsum / comp (C13), Model/Template.v spec_score (C14), '
    'Model/Models.v disc_lane (C15)',
    'oracles inside the certificate: math.log for ln 1..N (MIA); numpy.linalg.pinv applied by the HARNESS to the pooled covariance it '
    'computes itself from the building traces (class means and pooled covariance by the definitions of Model/Template.v, exact integer '
    'sums; independent of the attack object), rounded to dyadics',
    'memoisation of scared.distinguishers.partitioned._define_lut_func per class set in the harness (one numba compilation per '
    'distinct partitions instead of one per object)',
]
ASSUMPTIONS = [
    'PARTIAL: the wiring, the noise-free optimum (CPA r = 1 / |r| <= 1, DPA, NICV = 1 / <= 1), the antitonicity of F and SNR in the '
    'within-class spread and the soundness of the certificate are theorems; separation under bounded noise is certified per '
    'generated campaign, not proved for all campaigns (no closed-form margin theorem for arbitrary plaintext sets)',
    'the C07 fact (hypothesis column at the expected key = the targeted state of the real cipher) is an explicit hypothesis of the '
    'wiring theorem; on every campaign it is checked on the data (camp_wiring)',
    'a campaign on which the model itself does not lead by the margin is discarded for that attack and counted in the evidence',
    'combinations in which distinct guesses induce the same partition or an affinely equivalent hypothesis column cannot separate by '
    'design (AddRoundKey targets with partition statistics, DPA, or maxabs) and are not generated: AddRoundKey targets are attacked '
    'with CPA + HammingWeight + nanmax only',
    'static TemplateAttack has no key guesses and no expected-key function; the template class is covered by TemplateDPAAttack',
    'integer traces and hypothesis values: every float sum of the code is exact in the precision of the campaign; traces around a '
    'baseline of 30000 (raw ADC codes) are generated with precision=float64 only (float32 accumulators are not exact there, whatever '
    'the class); "agree" means within thr / 4 >= max|score| / 1024',
    'discriminants: for gain > 0 nanmax / maxabs (CPA, DPA), any of nanmax / maxabs / abssum / nansum for the non-negative statistics; '
    'for gain < 0 (leak = - model) maxabs / opposite_min; sums for CPA only on one-sample frames (a sum over one sample is that sample)',
]

HDR = 'From ScaredV Require Import Model.Attack.\nFrom ScaredV Require Model.Models Model.Partitioned.'

AES_SF = ['FirstAddRoundKey', 'FirstSubBytes', 'LastAddRoundKey', 'LastSubBytes', 'DeltaRLastRounds']
DES_SF = ['FirstAddRoundKey', 'FirstSboxes', 'FeistelRFirstRounds', 'DeltaRFirstRounds',
          'LastAddRoundKey', 'LastSboxes', 'FeistelRLastRounds', 'DeltaRLastRounds']
DES_TARGET = {'FirstAddRoundKey': (0, 2), 'FirstSboxes': (0, 3), 'FeistelRFirstRounds': (0, 7), 'DeltaRFirstRounds': (0, 8),
              'LastAddRoundKey': (15, 2), 'LastSboxes': (15, 3), 'FeistelRLastRounds': (13, 7), 'DeltaRLastRounds': (14, 8)}
DISC_COQ = {'nanmax': 'Models.DNanmax', 'maxabs': 'Models.DMaxabs', 'opposite_min': 'Models.DOppositeMin',
            'nansum': 'Models.DNansum', 'abssum': 'Models.DAbssum'}
KIND_COQ = {'cpa': 'ACpa', 'dpa': 'ADpa', 'anova': '(APart Partitioned.ANOVA)', 'nicv': '(APart Partitioned.NICV)',
            'snr': '(APart Partitioned.SNR)', 'mia': 'AMia', 'tdpa': 'ATdpa'}
CLS = {'cpa': 'CPAAttack', 'dpa': 'DPAAttack', 'anova': 'ANOVAAttack', 'nicv': 'NICVAttack', 'snr': 'SNRAttack', 'mia': 'MIAAttack',
       'tdpa': 'TemplateDPAAttack'}
MIN_SUBSET = 8
# A metadata field named `guesses` is never generated: it is the reserved parameter name of attack selection functions, which fill their
# parameters from the metadata BY NAME by design (a user-side name collision, outside the property's quantifier).

_patched = {}


class Interrupted(Exception):
    pass


def failing_preprocess(after):
    """A preprocess that lets `after` full batches of 7 traces through and raises on the next one (the 1-trace call of
    Container.trace_size is not counted)."""
    import scared
    seen = {'n': 0}

    @scared.preprocess
    def interrupting(traces):
        if traces.shape[0] == 7:
            if seen['n'] == after:
                raise Interrupted('C17: run interrupted')
            seen['n'] += 1
        return traces
    return interrupting


def patch_lut_cache():
    from scared.distinguishers import partitioned as P
    if _patched.get('done') is P:
        return
    real = P._define_lut_func
    cache = {}

    def memo(partitions):
        arr = np.asarray(partitions)
        key = (str(arr.dtype), tuple(int(v) for v in arr.reshape(-1)))
        if key not in cache:
            cache[key] = real(partitions)
        return cache[key]

    P._define_lut_func = memo
    _patched['done'] = P


# ---------------------------------------------------------------------------------------------- the simulator (independent of scared.models)
def leak_fn(model):
    if model[0] == 'hw':
        return lambda v: bin(int(v)).count('1')
    if model[0] == 'monobit':
        return lambda v: (int(v) >> model[1]) & 1
    return int


def is_ark(case):
    return case['sf'] in ('FirstAddRoundKey', 'LastAddRoundKey')


def value_bits(case):
    """Width of one word of the targeted state."""
    if case['cipher'] == 'aes':
        return 8
    return 6 if is_ark(case) else 4


def partitions_of(case):
    bits = value_bits(case)
    if case['model'][0] == 'hw':
        return list(range(bits + 1))
    if case['model'][0] == 'monobit':
        return [0, 1]
    return list(range(2 ** bits))


def real_state(case, pt, key):
    """The targeted state of the REAL cipher under the true key (stop points of aes/des.encrypt; DESIGN C07 table)."""
    from scared import aes, des
    name = case['sf']
    if case['cipher'] == 'aes':
        S = aes.base.Steps
        nr = {16: 10, 24: 12, 32: 14}[len(key)]
        if name == 'FirstAddRoundKey':
            return aes.encrypt(pt, key, at_round=0, after_step=S.ADD_ROUND_KEY)
        if name == 'FirstSubBytes':
            return aes.encrypt(pt, key, at_round=1, after_step=S.SUB_BYTES)
        if name == 'LastAddRoundKey':
            return aes.encrypt(pt, key, at_round=nr, after_step=S.SHIFT_ROWS)
        x = aes.encrypt(pt, key, at_round=nr - 1, after_step=S.ADD_ROUND_KEY)
        if name == 'LastSubBytes':
            return aes.base.shift_rows(x)
        if name == 'DeltaRLastRounds':
            return aes.base.shift_rows(np.bitwise_xor(x, aes.encrypt(pt, key)))
        raise HarnessError(f'C17 harness: unknown AES selection function {name}')
    r, s = DES_TARGET[name]
    return des.encrypt(pt, key, at_round=r, after_step=s)


def simulate(case):
    """Plaintexts, ciphertexts, the leakage intermediate of every attacked word, the traces (and the same for the building set)."""
    from scared import aes, des
    rng = random.Random(case['data_seed'])
    mod = aes if case['cipher'] == 'aes' else des
    blk = 16 if case['cipher'] == 'aes' else 8
    key = np.array(case['key'], dtype='uint8')
    f = leak_fn(case['model'])
    out = {}
    for tag, n in (('attack', case['N']), ('build', case.get('NB', 0))):
        if n == 0:
            continue
        pt = np.array([[rng.randrange(256) for _ in range(blk)] for _ in range(n)], dtype='uint8')
        ct = mod.encrypt(pt, key)
        st = real_state(case, pt, key)
        leak = [[f(st[t][w]) for t in range(n)] for w in case['words']]
        a, off = case['amp'], case.get('offset', 0)
        traces = [[off + rng.randint(-a, a) for _ in range(case['S'])] for _ in range(n)]
        for s in case.get('const', []):          # a constant sample inside the attacked frame (its statistic is undefined: NaN results)
            for t in range(n):
                traces[t][s] = off
        for wi, ss in enumerate(case['leaks']):
            for s in ss:
                for t in range(n):
                    traces[t][s] += case['gain'] * leak[wi][t]
        out[tag] = {'pt': pt, 'ct': ct, 'state': st, 'leak': leak, 'traces': traces}
    return out


# ---------------------------------------------------------------------------------------------- exact mirror of the spec scores
def _cpa(xs, hs):
    n = len(xs)
    sx, sy = sum(xs), sum(hs)
    sxy = sum(x * y for x, y in zip(xs, hs))
    dx = n * sum(x * x for x in xs) - sx * sx
    dy = n * sum(y * y for y in hs) - sy * sy
    if dx == 0 or dy == 0:
        return None
    num = n * sxy - sx * sy
    return Fraction(num * abs(num), dx * dy)


def _dpa(xs, hs):
    o = [x for x, h in zip(xs, hs) if h == 1]
    z = [x for x, h in zip(xs, hs) if h != 1]
    if not o or not z:
        return None
    return Fraction(sum(o), len(o)) - Fraction(sum(z), len(z))


def _groups(parts, xs, hs):
    seen, gs = set(), []
    for p in parts:
        if p in seen:
            continue
        seen.add(p)
        g = [x for x, h in zip(xs, hs) if h == p]
        if g:
            gs.append(g)
    return gs


def _ssd_n(g):
    """n * sum of squared deviations (an integer)."""
    return len(g) * sum(x * x for x in g) - sum(g) ** 2


def _part(metric, parts, xs, hs):
    gs = _groups(parts, xs, hs)
    K = len(gs)
    if K == 0:
        return None
    allx = [x for g in gs for x in g]
    N = len(allx)
    m = Fraction(sum(allx), N)
    means = [Fraction(sum(g), len(g)) for g in gs]
    if metric == 'anova':
        ssw = sum(Fraction(_ssd_n(g), len(g)) for g in gs)
        if K == 1 or N == K or ssw == 0:
            return None
        ssb = sum(len(g) * (mg - m) ** 2 for g, mg in zip(gs, means))
        return (ssb / (K - 1)) / (ssw / (N - K))
    if metric == 'nicv':
        tv = Fraction(_ssd_n(allx), N * N)
        if tv == 0:
            return None
        return sum(Fraction(len(g), N) * (mg - m) ** 2 for g, mg in zip(gs, means)) / tv
    noise = sum(Fraction(_ssd_n(g), len(g) * len(g)) for g in gs) / K
    if noise == 0:
        return None
    return (sum((mg - m) ** 2 for mg in means) / K) / noise


def _bin(edges2, x):
    """numpy.histogram's rule on edges z/2: half-open bins, the last one closed; None outside."""
    nb = len(edges2) - 1
    x2 = 2 * x
    for b in range(nb):
        if edges2[b] <= x2 and (x2 < edges2[b + 1] or (b + 1 == nb and x2 == edges2[b + 1])):
            return b
    return None


def _mia(parts, edges2, lntab, xs, hs):
    nb, nc = len(edges2) - 1, len(parts)
    cls = {}
    for i, p in enumerate(parts):
        cls[p] = i                         # the last declaration wins
    cnt = [[0] * nc for _ in range(nb)]
    for x, h in zip(xs, hs):
        b, k = _bin(edges2, x), cls.get(h)
        if b is not None and k is not None:
            cnt[b][k] += 1
    cb = [sum(cnt[b]) for b in range(nb)]
    cv = [sum(cnt[b][v] for b in range(nb)) for v in range(nc)]
    tot = sum(cb)
    if tot == 0:
        return None

    def ln(k):
        return lntab[k - 1] if 1 <= k <= len(lntab) else Fraction(1000000)

    def phiz(p):
        if p == 0:
            p = Fraction(1)
        return p * (ln(p.numerator) - ln(p.denominator))

    res = Fraction(0)
    for v in range(nc):
        nzc = cv[v] if cv[v] != 0 else 1
        inner = sum(phiz(Fraction(cnt[b][v], nzc)) - phiz(Fraction(cb[b], tot)) for b in range(nb))
        res += inner * Fraction(cv[v], tot)
    return res


def _disc(op, lane):
    d = [v for v in lane if v is not None]
    if op in ('nansum', 'abssum'):
        return sum((abs(v) if op == 'abssum' else v for v in d), Fraction(0))
    if not d:
        return None
    if op == 'maxabs':
        return max(abs(v) for v in d)
    if op == 'opposite_min':
        return max(-v for v in d)
    return max(d)


def mirror_scores(case, att, traces, hyp_cols, lntab, T=None, P=None):
    """Model scores of the evaluated guesses (exact): the same quantity as Model/Attack.v model_scores."""
    parts = partitions_of(case)
    cols = [[r[s] for r in traces] for s in range(case['S'])]
    k = att['cls']
    if k == 'tdpa':
        Tq = [[Fraction(v) for v in r] for r in T]
        Pq = [[Fraction(v) for v in r] for r in P]
        S = case['S']
        cls = {}
        for i, p in enumerate(parts):
            cls[p] = i
        out = []
        for hs in hyp_cols:
            tot = Fraction(0)
            for t, r in enumerate(traces):
                kk = cls.get(hs[t])
                if kk is None:
                    continue
                d = [r[j] - Tq[kk][j] for j in range(S)]
                tot += sum(d[i] * Pq[i][j] * d[j] for i in range(S) for j in range(S))
            out.append(10 - tot / S / len(traces))
        return out
    out = []
    for hs in hyp_cols:
        lane = []
        for xs in cols:
            if k == 'cpa':
                lane.append(_cpa(xs, hs))
            elif k == 'dpa':
                lane.append(_dpa(xs, hs))
            elif k == 'mia':
                lane.append(_mia(parts, case['edges2'], lntab, xs, hs))
            else:
                lane.append(_part(k, parts, xs, hs))
        out.append(_disc(att['disc'], lane))
    return out


def separated(qs, i):
    """thr or None: the rule of Model/Attack.v separated_at (the guess at position i leads every other one by thr)."""
    if i is None or len(qs) < 2 or not 0 <= i < len(qs) or any(q is None for q in qs):
        return None
    best = qs[i]
    thr = (best - min(qs)) / 8
    if thr <= 0 or max(abs(q) for q in qs) / 256 > thr:
        return None
    if any(j != i and q + thr > best for j, q in enumerate(qs)):
        return None
    return thr


def _dyadic(m, bits, frac=None):
    """The matrix rounded to multiples of 2^-k (exact floats): k = frac when given, else such that the largest entry keeps [bits]
    significant bits.  Coq's rationals are binary trees: 53-bit mantissas make the Mahalanobis forms of one campaign cost 12 s,
    these 1 s; the rounding (2^-12 absolute for the class means, 20 bits for the inverse covariance) moves a score by < 0.004 in
    the worst case (S^2 d^2 |P| 2^-20 / S, |d| <= 18), below the tolerance thr / 4 >= 10 / 1024."""
    m = np.asarray(m, dtype='float64')
    top = float(np.max(np.abs(m))) if m.size else 0.0
    if frac is None and (not math.isfinite(top) or top == 0.0):
        return [[float(v) for v in r] for r in m]
    k = frac if frac is not None else max(0, min(60, bits - (math.frexp(top)[1])))
    return [[float(round(float(v) * 2 ** k)) / 2 ** k for v in r] for r in m]


def profile_of(btraces, classes, parts):
    """Profile of the building set by the definitions (Model/Template.v spec_templates / spec_pooled): class means, pooled
    covariance = mean over the DECLARED classes of the unbiased within-class covariance (0 for classes of fewer than two
    traces), and its pseudo-inverse (numpy.linalg.pinv: oracle).  Exact integer sums, one float division each."""
    S = len(btraces[0])
    T = np.zeros((len(parts), S))
    cov = [[Fraction(0)] * S for _ in range(S)]
    for k, p in enumerate(parts):
        rows = [r for r, c in zip(btraces, classes) if c == p]
        n = len(rows)
        if n == 0:
            continue
        sums = [sum(r[j] for r in rows) for j in range(S)]
        T[k] = [float(Fraction(sums[j], n)) for j in range(S)]
        if n > 1:
            for i in range(S):
                for j in range(S):
                    sxy = sum(r[i] * r[j] for r in rows)
                    cov[i][j] += Fraction(n * sxy - sums[i] * sums[j], n * (n - 1))
    C = np.array([[float(v / len(parts)) for v in row] for row in cov])
    return T, np.linalg.pinv(C)


# ---------------------------------------------------------------------------------------------- generators
def attacks_for(rng, case, tier):
    """The attack objects of a campaign: every class that can separate the hypotheses of this target and model, each with a
    discriminant that ranks by the leak for the polarity of the campaign (gain < 0: the leak is minus the model)."""
    m = case['model'][0]
    pos = case['gain'] > 0
    one = frame_len(case) == 1                      # a sum over one sample is that sample
    signed = (['maxabs', 'maxabs', 'nanmax'] + (['abssum', 'nansum'] if one else [])) if pos else \
             (['maxabs', 'opposite_min'] + (['abssum'] if one else []))
    if is_ark(case):                                # the complemented guess has r = -r: only the signed discriminants separate
        return [{'cls': 'cpa', 'disc': rng.choice(['nanmax'] + (['nansum'] if one else [])) if pos else 'opposite_min'}]
    atts = []
    if m == 'monobit':
        atts.append({'cls': 'dpa', 'disc': rng.choice(signed + (['abssum'] if pos else []))})
    atts.append({'cls': 'cpa', 'disc': rng.choice(signed)})
    unsigned = ['nanmax', 'maxabs'] + (['abssum', 'nansum'] if frame_len(case) <= 2 else [])
    nparts = len(partitions_of(case))
    if nparts <= 16 and case['amp'] > 0:
        for k in ('anova', 'snr'):
            atts.append({'cls': k, 'disc': rng.choice(unsigned)})
    if nparts <= 16:
        atts.append({'cls': 'nicv', 'disc': rng.choice(unsigned + ['abssum'])})
        atts.append({'cls': 'mia', 'disc': rng.choice(unsigned)})
        if case.get('NB') and case['amp'] > 0:      # noise-free: zero pooled covariance, every candidate scores 10
            for wi in range(len(case['words']) if tier != 'quick' else 1):
                atts.append({'cls': 'tdpa', 'disc': 'identity', 'word': wi})
    return atts


def frame_idx(case):
    """Sample indices of the attacked frame, in frame order."""
    fr = case.get('frame')
    return list(range(case['S'])) if not fr else list(fr['idx'])


def frame_len(case):
    return len(frame_idx(case))


def frame_obj(case):
    fr = case.get('frame')
    if not fr:
        return None
    if fr['form'] == 'slice':
        return slice(fr['idx'][0], fr['idx'][-1] + 1)
    if fr['form'] == 'ndarray':
        return np.array(fr['idx'])
    return list(fr['idx'])


def framed(case):
    """The campaign as the attack sees it: number of samples and leaking positions inside the frame."""
    idx = frame_idx(case)
    return len(idx), [[idx.index(x) for x in ss if x in idx] for ss in case['leaks']]


def mia_edges2(case):
    """Uniform bin edges (in halves) covering gain * leak + noise."""
    top = max(partitions_of(case)) if case['model'][0] != 'hw' else value_bits(case)
    g, off = case['gain'] * top, case.get('offset', 0)
    lo, hi = off + min(0, g) - case['amp'], off + max(0, g) + case['amp']
    width = 2 if hi - lo <= 16 else -(-(hi - lo + 1) // 8)
    nb = -(-(hi - lo + 1) // width)
    return [2 * (lo + width * i) - 1 for i in range(nb + 1)]


def choose_words(rng, case, nwords, k, wform=None):
    """words argument of the selection function: the attacked words IN THE REQUESTED ORDER (case['words']) and the form they are
    given in.  Descending / rotated runs of consecutive words, unordered samples, ascending samples, slices (step 1 or 2), one int."""
    wform = wform or rng.choice(['desc', 'desc', 'rot', 'shuffled', 'shuffled', 'sorted', 'slice', 'int'])
    case['words_slice'] = None
    if wform == 'int':
        case['words'], case['words_form'] = [rng.randrange(nwords)], 'int'
    elif wform == 'slice':
        step = rng.choice([1, 1, 2])
        a = rng.randrange(nwords - step * (k - 1))
        case['words'], case['words_form'] = [a + step * i for i in range(k)], 'slice'
        case['words_slice'] = [a, a + step * (k - 1) + 1, step]
    else:
        if wform in ('desc', 'rot'):
            a = rng.randrange(nwords - k + 1)
            run = list(range(a, a + k))
            ws = run[::-1] if (wform == 'desc' or k < 3) else [run[-1]] + run[:-1]
        else:
            ws = rng.sample(range(nwords), k)
            if wform == 'sorted':
                ws = sorted(ws)
        case['words'], case['words_form'] = ws, rng.choice(['list', 'ndarray'])
    case['words_kind'] = wform


TARGET_IS_PLAINTEXT = {'FirstAddRoundKey', 'FirstSubBytes', 'FirstSboxes', 'FeistelRFirstRounds', 'DeltaRFirstRounds'}


def choose_metadata(rng, case, extra=None, mtags=None):
    """Names under which the trace set carries the targeted text and how compute_expected_key is given the key (custom tags), and
    ADDITIONAL metadata fields of random bytes named like the inner parameters of the selection functions."""
    pt_target = case['sf'] in TARGET_IS_PLAINTEXT
    if mtags is None:
        mtags = {'target': rng.choice([None, None, 'pt_in' if pt_target else 'ct_out', 'input']),
                 'key': rng.choice([None, None, 'master_key'])}
    if extra is None:
        extra = [n for n in ('data', 'key') if rng.random() < 0.4]
        if mtags['target'] and rng.random() < 0.7:
            extra.append('other')          # fields called plaintext / ciphertext that are NOT the texts of the campaign
    case['mtags'], case['extra'] = mtags, extra


def metadata_of(case, A):
    """(metadata arrays of the trace set, keyword arguments of the selection function constructor, of compute_expected_key)."""
    rng = random.Random(case['data_seed'] ^ 0xE17A)
    n, blk = len(A['pt']), A['pt'].shape[1]

    def junk(width):
        return np.array([[rng.randrange(256) for _ in range(width)] for _ in range(n)], dtype='uint8')

    pt_target = case['sf'] in TARGET_IS_PLAINTEXT
    tag = case.get('mtags', {}).get('target')
    ktag = case.get('mtags', {}).get('key')
    extra = case.get('extra', [])
    md, sfkw = {}, {}
    if tag:
        md[tag] = A['pt'] if pt_target else A['ct']
        sfkw['plaintext_tag' if pt_target else 'ciphertext_tag'] = tag
        if 'other' in extra:
            md['plaintext'], md['ciphertext'] = junk(blk), junk(blk)
        else:
            md['ciphertext' if pt_target else 'plaintext'] = A['ct'] if pt_target else A['pt']
    else:
        md['plaintext'], md['ciphertext'] = A['pt'], A['ct']
    if 'data' in extra:
        md['data'] = junk(blk)
    ekkw = {ktag or 'key': np.array(case['key'], dtype='uint8')}
    if ktag:
        sfkw['key_tag'] = ktag
    if 'key' in extra:
        md['key'] = junk(len(case['key']))
        if ktag:
            ekkw['key'] = md['key'][0]          # compute_expected_key called with the metadata of the trace set + the master key
    return md, sfkw, ekkw


def truth_key(case):
    """Round key the campaign leaks under (key schedules of the real code, properties C10): one value per word of the cipher."""
    from scared import aes, des
    key = np.array(case['key'], dtype='uint8')
    sched = aes.key_schedule(key) if case['cipher'] == 'aes' else des.key_schedule(key)
    return [int(v) for v in (sched[0] if case['sf'] in TARGET_IS_PLAINTEXT else sched[-1])]


def default_guesses(case):
    return 256 if case['cipher'] == 'aes' else 64


def asked_guesses(case):
    """(values, constructor argument) of the guesses the campaign asks for: None = the default; ranges with a non-zero start, stepped
    and descending ranges, ndarray subsets and permutations -- always containing the true key value of every attacked word."""
    G0 = default_guesses(case)
    spec = case.get('guesses')
    if not spec:
        return list(range(G0)), None
    rng = random.Random(spec['seed'])
    tk = truth_key(case)
    need = sorted({tk[w] for w in case['words']})
    lo, hi = need[0], need[-1]
    kind = spec['kind']
    if kind == 'range_step' and len(need) == 1:
        step = rng.choice([2, 3, 5])
        start = lo - step * rng.randint(0, lo // step)
        stop = min(G0, hi + 1 + step * rng.randint(0, (G0 - 1 - hi) // step))
        r = range(start, stop, step)
    elif kind == 'range_desc':
        r = range(rng.randint(hi, G0 - 1), rng.randint(-1, lo - 1), -1)
    elif kind in ('range', 'range_step'):
        r = range(rng.randint(1, lo) if lo >= 1 else 0, rng.randint(hi + 1, G0))
    else:
        pool = [g for g in range(G0) if g not in need]
        rng.shuffle(pool)
        vals = need + (pool if kind == 'perm' else pool[:max(6, G0 // 4) - len(need)])
        rng.shuffle(vals)
        return vals, np.array(vals, dtype='uint8')
    return list(r), r


def words_obj(case):
    f = case.get('words_form', 'list')
    if f == 'int':
        return int(case['words'][0])
    if f == 'slice':
        return slice(*case['words_slice'])
    if f == 'ndarray':
        return np.array(case['words'], dtype=['uint8', 'int64', 'int32'][case['data_seed'] % 3])
    return list(case['words'])


def make_case(rng, tier, cipher=None, sf=None, keysize=None, model=None, amp=None, batch=None, N=None, fips=False, wform=None,
              extra=None, mtags=None, frame=None, neg=None, offset=None, precision=None, NB=None, guesses=None, interrupt=None):
    cipher = cipher or rng.choice(['aes', 'aes', 'des'])
    sf = sf or rng.choice(AES_SF if cipher == 'aes' else DES_SF)
    keysize = (keysize or rng.choice([16, 24, 32])) if cipher == 'aes' else 8
    if fips:
        key = list(range(keysize)) if cipher == 'aes' else [0x13, 0x34, 0x57, 0x79, 0x9B, 0xBC, 0xDF, 0xF1]
    else:
        key = [rng.randrange(256) for _ in range(keysize)]
    case = {'cipher': cipher, 'sf': sf, 'key': key}
    ark = is_ark(case)
    if model is None:
        model = ['hw'] if ark else rng.choice([['hw'], ['hw'], ['monobit', rng.randrange(4 if cipher == 'des' else 8)], ['value']])
        if model[0] == 'value' and cipher == 'aes' and rng.random() < 0.5:
            model = ['hw']
    case['model'] = model
    nwords = 16 if cipher == 'aes' else 8
    k = 2 if tier == 'quick' else rng.choice([2, 3])
    frame = frame or rng.choice(['full'] * 6 + ['one', 'one', 'two'])
    if frame == 'one':                               # a one-sample frame shows one word
        k = 1
        wform = wform or rng.choice(['int', 'sorted'])
    choose_words(rng, case, nwords, k, wform)
    k = len(case['words'])
    S = rng.randint(max(4, k + 1), 6)
    case['S'] = S
    slots = rng.sample(range(S), min(S, k + rng.randint(0, min(2, S - k))))
    leaks = [[slots[i]] for i in range(k)]
    for more in slots[k:]:
        leaks[rng.randrange(k)].append(more)
    case['leaks'] = [sorted(x) for x in leaks]
    free = [x for x in range(S) if x not in slots]
    case['const'] = [rng.choice(free)] if free and rng.random() < 0.4 else []
    case['frame'] = None
    if frame == 'one':
        case['frame'] = {'idx': [leaks[0][0]], 'form': rng.choice(['list', 'slice', 'ndarray'])}
    elif frame == 'two':
        idx = [leaks[0][0], leaks[1][0]] if k >= 2 else [leaks[0][0], (leaks[0][0] + 1) % S]
        if rng.random() < 0.5:
            idx = sorted(idx)
        case['frame'] = {'idx': idx, 'form': 'slice' if (idx[1] == idx[0] + 1 and rng.random() < 0.5) else rng.choice(['list', 'ndarray'])}
    case['amp'] = amp if amp is not None else rng.choice([0, 1, 1, 2, 2])
    case['gain'] = {'hw': rng.choice([1, 1, 2]), 'monobit': rng.choice([3, 4]), 'value': 1}[model[0]]
    if neg if neg is not None else rng.random() < 0.35:        # negative polarity: the leak is minus the model
        case['gain'] = -case['gain']
    case['offset'] = offset if offset is not None else rng.choice([0, 0, 30000])
    case['N'] = N or (rng.choice([100, 120]) if case['amp'] >= 2 else rng.choice([80, 100, 120]))
    case['batch'] = batch if batch is not None else rng.choice([7, 50, 0])
    case['precision'] = precision or rng.choice(['float32', 'float32', 'float64'])
    if case['offset']:                               # raw ADC codes around a baseline need double precision accumulators: float32 is
        case['precision'] = 'float64'                # not exact there, float64 is
    case['tdtype'] = 'int16' if (tier == 'quick' or not case['offset'] or rng.random() < 0.5) else 'uint16'
    case['data_seed'] = rng.getrandbits(48)
    case['NB'] = 0
    if not ark and len(partitions_of(case)) <= 16 and rng.random() < (0.35 if tier == 'quick' else 0.6):
        case['NB'] = rng.choice([150, 200])
    if NB is not None:
        case['NB'] = NB
    case['edges2'] = mia_edges2(case)
    gk = guesses if guesses is not None else rng.choice(['default'] * 6 + ['range', 'range_desc', 'range_step', 'subset', 'perm'])
    case['guesses'] = None if gk == 'default' else {'kind': gk, 'seed': rng.getrandbits(32)}
    if interrupt if interrupt is not None else rng.random() < 0.12:
        # run(A), run(B) interrupted after `after` batches, run(B) again, on every attack object: the code keeps the batches processed
        # before the failure, so the rows fed are A + B[:after * 7] + B
        case['batch'], case['NB'] = 7, 0
        case['interrupt'] = {'cut': rng.randint(20, case['N'] - 28), 'after': rng.choice([1, 2, 3])}
    case['attacks'] = attacks_for(rng, case, tier)
    choose_metadata(rng, case, extra, mtags)
    return case


def boundary(rng, tier):
    """Deterministic structure: every selection function x key size, FIPS keys, every batch size, noise-free and noisy."""
    batches = [7, 50, 0]
    i = 0
    for ks in (16, 24, 32):
        for sf in AES_SF:
            if tier == 'quick' and ks != 16 and sf in ('FirstAddRoundKey', 'DeltaRLastRounds'):
                continue
            yield make_case(rng, tier, cipher='aes', sf=sf, keysize=ks, batch=batches[i % 3], fips=(i % 4 == 0),
                            model=(['hw'] if i % 3 else None), amp=(2 if i % 5 == 0 else None))
            i += 1
    for sf in DES_SF:
        yield make_case(rng, tier, cipher='des', sf=sf, batch=batches[i % 3], fips=(i % 4 == 0), model=(['hw'] if i % 2 else None))
        i += 1
    # the calibration point of DESIGN C17 at the size the certificate evaluates: S-box, HW at two samples, noise +-2, every class
    c = make_case(rng, tier, cipher='aes', sf='FirstSubBytes', keysize=16, model=['hw'], amp=2, N=120, batch=50)
    yield c
    c = make_case(rng, tier, cipher='aes', sf='LastSubBytes', keysize=16, model=['monobit', 0], amp=1, N=100, batch=7)
    yield c
    # DPA with Monobit on both ciphers, Value leakage
    # ... with non-default guesses (ranges with a non-zero start, descending, stepped; ndarray subsets and permutations) and with an
    # interrupted run between two successful ones
    yield make_case(rng, tier, cipher='aes', sf='FirstSubBytes', keysize=24, model=['monobit', 7], amp=2, N=120, batch=0, guesses='range')
    yield make_case(rng, tier, cipher='des', sf='FirstSboxes', model=['monobit', 3], amp=1, batch=50, guesses='range_desc', interrupt=True)
    yield make_case(rng, tier, cipher='des', sf='LastSboxes', model=['monobit', 0], amp=2, N=120, batch=7, guesses='subset')
    yield make_case(rng, tier, cipher='aes', sf='LastSubBytes', keysize=32, model=['value'], amp=2, batch=50, guesses='perm', interrupt=True)
    yield make_case(rng, tier, cipher='des', sf='FeistelRLastRounds', model=['value'], amp=1, batch=0, guesses='range_step', wform='int')
    # noise-free: r = 1, NICV = 1 at the true key
    yield make_case(rng, tier, cipher='aes', sf='FirstSubBytes', keysize=16, model=['hw'], amp=0, N=80, batch=0)
    yield make_case(rng, tier, cipher='des', sf='FirstSboxes', model=['value'], amp=0, N=80, batch=7)
    # degenerate frames x polarity x discriminant; precision x offset (raw ADC codes around a baseline of 30000, float64)
    c = make_case(rng, tier, cipher='aes', sf='FirstSubBytes', keysize=16, model=['hw'], amp=1, frame='one', neg=True, offset=0, NB=0)
    c['attacks'] = [{'cls': 'cpa', 'disc': d} for d in ('maxabs', 'opposite_min', 'abssum')] + [a for a in c['attacks'] if a['cls'] != 'cpa']
    yield c
    c = make_case(rng, tier, cipher='des', sf='FirstSboxes', model=['monobit', 1], amp=1, frame='one', neg=True, offset=0, NB=0)
    c['attacks'] = [{'cls': 'dpa', 'disc': d} for d in ('maxabs', 'opposite_min', 'abssum')] + [a for a in c['attacks'] if a['cls'] not in ('dpa', 'mia', 'snr')]
    yield c
    c = make_case(rng, tier, cipher='aes', sf='LastSubBytes', keysize=16, model=['hw'], amp=1, frame='one', neg=False, offset=0, NB=0)
    c['attacks'] = [{'cls': 'cpa', 'disc': d} for d in ('nanmax', 'nansum', 'abssum', 'maxabs')] + [a for a in c['attacks'] if a['cls'] in ('nicv', 'anova')]
    yield c
    yield make_case(rng, tier, cipher='aes', sf='FirstSubBytes', keysize=32, model=['hw'], amp=2, N=120, frame='two', neg=True, NB=0)
    yield make_case(rng, tier, cipher='aes', sf='FirstSubBytes', keysize=16, model=['hw'], amp=1, frame='full', neg=False, offset=30000,
                    NB=200, wform='int')
    yield make_case(rng, tier, cipher='des', sf='LastSboxes', model=['hw'], amp=2, N=120, frame='full', offset=30000, NB=150)
    # words forms and metadata names that the random stream may miss in the quick tier
    yield make_case(rng, tier, cipher='aes', sf='FirstSubBytes', keysize=16, model=['hw'], wform='desc', extra=['data'], mtags={'target': None, 'key': None})
    yield make_case(rng, tier, cipher='des', sf='LastSboxes', model=['hw'], wform='desc', extra=['data', 'key', 'other'],
                    mtags={'target': 'ct_out', 'key': 'master_key'})
    yield make_case(rng, tier, cipher='aes', sf='LastSubBytes', keysize=24, model=['hw'], wform='int', extra=['key'], mtags={'target': None, 'key': 'master_key'})


class CampaignKind(Kind):
    name = 'campaign'
    header = HDR
    case_type = 'camp_case'
    check_fn = 'camp_check'
    corr_fn = 'camp_wiring'
    explain_fn = 'camp_explain'
    shard = 3
    rule = ('simulated campaign: AES-128/192/256 First/LastAddRoundKey, First/LastSubBytes, DeltaRLastRounds and DES First/Last AddRoundKey, '
            'Sboxes, FeistelR, DeltaR selection functions (encrypt namespace), FIPS and random keys, 80-120 random plaintexts, 2-3 attacked '
            'words, HammingWeight / Monobit / Value leakage at 1-2 of 4-6 samples + integer noise in [-a, a], a in 0..2, batch sizes 7 / 50 / '
            'default, float32 / float64; CPAAttack, DPAAttack(Monobit), ANOVA/NICV/SNR/MIAAttack (explicit partitions and bin_edges), '
            'TemplateDPAAttack (own building set) on the same container; non-trivial = the model separates for at least one attack')

    def gen(self, rng, tier):
        for c in boundary(rng, tier):
            yield c
        for _ in range(1 if tier == 'quick' else 120):
            yield make_case(rng, tier)

    # ------------------------------------------------------------------------------------------ driving the real code
    def _sf(self, case, words):
        from scared import aes, des
        mod = aes if case['cipher'] == 'aes' else des
        pt_target = case['sf'] in TARGET_IS_PLAINTEXT
        tags = case.get('mtags', {})
        kw = {}
        if tags.get('target'):
            kw['plaintext_tag' if pt_target else 'ciphertext_tag'] = tags['target']
        if tags.get('key'):
            kw['key_tag'] = tags['key']
        gobj = asked_guesses(case)[1]
        if gobj is not None:
            kw['guesses'] = gobj
        return getattr(mod.selection_functions.encrypt, case['sf'])(words=words, **kw)

    def _model(self, case):
        import scared
        m = case['model']
        return scared.HammingWeight() if m[0] == 'hw' else (scared.Monobit(m[1]) if m[0] == 'monobit' else scared.Value())

    def run(self, case):
        return self.drive(case)

    def drive(self, case, shared=None):
        """One campaign on the real pipeline.  shared = {'sf', 'model'}: objects re-used from earlier campaigns of a history (the
        attack objects then all receive that one selection function and model object); None: fresh objects everywhere."""
        import scared
        import estraces
        patch_lut_cache()
        sim = simulate(case)
        A = sim['attack']
        N, words = case['N'], case['words']
        key = np.array(case['key'], dtype='uint8')
        idx = frame_idx(case)
        S_eff, leaks_eff = framed(case)
        view = [[r[i] for i in idx] for r in A['traces']]             # the traces as the attack sees them: samples[:, frame]
        obs = {'S': S_eff, 'leaks': leaks_eff}
        eff = dict(case, S=S_eff)
        tdtype = case.get('tdtype', 'int16')
        samples = np.array(A['traces'], dtype=tdtype)
        frame = frame_obj(case)
        cut = case.get('split', 0)
        pieces = [(0, N)] if not 0 < cut < N else [(0, cut), (cut, N)]      # two run() calls of every attack object on the same key
        intr = case.get('interrupt')
        rows = list(range(N))
        if intr:                                     # run(A); run(B) interrupted after `after` batches of 7; run(B) again
            a0, kept = intr['cut'], intr['after'] * 7
            pieces = [(0, a0), (a0, N)]
            rows = list(range(a0)) + list(range(a0, a0 + kept)) + list(range(a0, N))
        parts = partitions_of(case)
        edges = [e / 2 for e in case['edges2']]
        results = []
        md, _, ekkw = metadata_of(case, A)
        one = case.get('words_form') == 'int'
        sf = shared['sf'] if shared else self._sf(case, words_obj(case))
        model = shared['model'] if shared else self._model(case)
        calls = [np.asarray(sf.compute_expected_key(**ekkw)).reshape(-1)]          # before any run
        try:
            scared.set_batch_size(case['batch'] if case['batch'] else None)
            def cont_of(a, b, preprocesses=None):
                ths = estraces.read_ths_from_ram(samples=samples[a:b], **{k: v[a:b] for k, v in md.items()})
                return scared.Container(ths, frame=frame, **({'preprocesses': preprocesses} if preprocesses else {}))

            conts = [cont_of(a, b) for a, b in pieces]
            obs['container_batch_size'] = int(conts[0].batch_size)
            with warnings.catch_warnings():
                warnings.simplefilter('ignore')
                for att in case['attacks']:
                    k = att['cls']
                    kw = dict(model=model if shared else self._model(case), precision=case['precision'])
                    if k == 'tdpa':
                        B = sim['build']
                        w = words[att['word']]
                        bths = estraces.read_ths_from_ram(samples=np.array(B['traces'], dtype=tdtype), tgt=B['state'])
                        rsf = scared.reverse_selection_function(lambda tgt: tgt, words=w)
                        a = scared.TemplateDPAAttack(container_building=scared.Container(bths, frame=frame), reverse_selection_function=rsf,
                                                     selection_function=self._sf(case, w), partitions=parts, **kw)
                        a.build()
                    else:
                        kw.update(selection_function=sf if shared else self._sf(case, words_obj(case)), discriminant=getattr(scared, att['disc']))
                        if k in ('anova', 'nicv', 'snr', 'mia'):
                            kw['partitions'] = parts
                        if k == 'mia':
                            kw['bin_edges'] = edges
                        a = getattr(scared, CLS[k])(**kw)
                    if intr:
                        a.run(conts[0])
                        try:
                            a.run(cont_of(*pieces[1], preprocesses=[failing_preprocess(intr['after'])]))
                        except Interrupted:
                            pass
                        else:
                            raise HarnessError('C17 harness: the interrupted run did not raise')
                        a.run(conts[1])
                    else:
                        for cont in conts:
                            a.run(cont)
                    results.append(a)
        finally:
            scared.set_batch_size(None)
        # expected key (asked again, twice) and the hypothesis data, from the same selection function / model objects
        asked = asked_guesses(case)[0]
        G = len(asked)                                 # the guesses the campaign asked for (not sf.guesses read back)
        calls.append(np.asarray(sf.compute_expected_key(**ekkw)).reshape(-1))
        calls.append(np.asarray(sf.compute_expected_key(**ekkw)).reshape(-1))
        obs['expected_calls'] = [[int(c[w]) for w in words] for c in calls]
        obs['expected'] = obs['expected_calls'][-1]
        hyp = np.asarray(model(sf(**md)))
        if one and hyp.shape == (N, G):
            hyp = hyp.reshape(N, G, 1)
        if hyp.shape != (N, G, len(words)):
            raise ValueError(f'model(selection_function(**metadata)) has shape {hyp.shape}, not (traces, guesses, words) = {(N, G, len(words))}; '
                             f'.scores shapes: {[tuple(np.asarray(a.scores).shape) for a in results]}')
        obs['n_guesses'] = G
        obs['asked_guesses'] = asked
        view = [view[t] for t in rows]               # exactly the rows fed to the attack objects, in order
        state = [[int(col[t]) for t in rows] for col in A['leak']]
        obs['traces'], obs['state'] = view, state
        # per attack and word: shape, argmax, candidates for the evaluated subset
        per = []
        cand = [set() for _ in words]
        for att, a in zip(case['attacks'], results):
            sc = np.asarray(a.scores)
            wis = [att['word']] if att['cls'] == 'tdpa' else list(range(len(words)))
            want = (G,) if (att['cls'] == 'tdpa' or one) else (G, len(words))
            entry = {'shape': [int(v) for v in sc.shape], 'shape_ok': tuple(sc.shape) == want, 'dtype': str(sc.dtype)}
            if entry['shape_ok']:
                sc2 = sc.reshape(G, -1)
                am = np.asarray(sc.argmax(axis=0)).reshape(-1)
                entry['argmax'] = [int(v) for v in am]
                for j, wi in enumerate(wis):
                    col = np.where(np.isnan(sc2[:, j]), -np.inf, sc2[:, j].astype('float64'))
                    order = np.argsort(-col, kind='stable')
                    cand[wi].update(int(v) for v in order[:2])
                    cand[wi].add(int(am[j]))
                entry['_scores'] = sc2
            if att['cls'] == 'tdpa':
                B = sim['build']
                Tm, Pm = profile_of([[r[i] for i in idx] for r in B['traces']], B['leak'][att['word']], parts)
                entry['T'] = _dyadic(Tm, None, 12)
                entry['P'] = _dyadic(Pm, 20)
            per.append(entry)
        rng = random.Random(case['data_seed'] ^ 0x5EED)
        obs['words'] = []
        for wi in range(len(words)):
            e = obs['expected'][wi]
            s = set(cand[wi])                      # POSITIONS on the guess axis
            if e in asked:
                s.add(asked.index(e))
            pool = [g for g in range(G) if g not in s]
            rng.shuffle(pool)
            while len(s) < min(MIN_SUBSET, G) and pool:
                s.add(pool.pop())
            ps = sorted(s)
            gs = [asked[q] for q in ps]            # the guess VALUES the campaign asked for at these positions
            cols = [[int(hyp[t, q, wi]) for t in rows] for q in ps]
            obs['words'].append({'positions': ps, 'guesses': gs, 'hyp': cols, 'state_ok': (e in gs and cols[gs.index(e)] == state[wi])})
        lntab = [Fraction(math.log(k)) for k in range(1, len(rows) + 1)]
        obs['ln'] = [math.log(k) for k in range(1, len(rows) + 1)]
        obs['attacks'] = []
        for att, entry in zip(case['attacks'], per):
            sc2 = entry.pop('_scores', None)
            wis = [att['word']] if att['cls'] == 'tdpa' else list(range(len(words)))
            for j, wi in enumerate(wis):
                o = {'cls': att['cls'], 'disc': att['disc'], 'word': wi, 'shape': entry['shape'], 'shape_ok': entry['shape_ok']}
                W = obs['words'][wi]
                if entry['shape_ok']:
                    o['scores'] = [float(sc2[q, j]) for q in W['positions']]
                    o['argmax'] = asked[entry['argmax'][j]]          # index on the guess axis -> the guess value asked for
                if 'T' in entry:
                    o['T'], o['P'] = entry['T'], entry['P']
                ms = mirror_scores(eff, att, view, W['hyp'], lntab, entry.get('T'), entry.get('P'))
                e = obs['expected'][wi]
                pos = W['guesses'].index(e) if e in W['guesses'] else None
                thr = separated(ms, pos)
                o['sep'] = thr is not None
                if thr is not None:
                    o['margin'] = float(thr)
                    o['lead_rel'] = float(thr * 8 / max(abs(q) for q in ms)) if any(ms) else 0.0
                obs['attacks'].append(o)
        return obs

    # ------------------------------------------------------------------------------------------ Coq literal
    def coq(self, case, obs):
        if 'raised' in obs or not all(a['shape_ok'] for a in obs['attacks']):
            # nothing to evaluate: the oracle reports the failure
            return ('{| cc_S := 1%nat; cc_offset := 0%Z; cc_gain := 1%Z; cc_amp := 0%Z; cc_traces := [[0%Z]]; cc_words := []; cc_parts := []; cc_edges := []; '
                    'cc_ln := []; cc_attacks := [] |}')
        words = []
        for wi, W in enumerate(obs['words']):
            words.append('{| wo_expected := %s; wo_guesses := %s; wo_hyp := %s; wo_state := %s; wo_leak := %s |}' % (
                C.coq_z(obs['expected'][wi]), C.coq_list(W['guesses'], C.coq_z), C.coq_list2(W['hyp'], C.coq_z),
                C.coq_list(obs['state'][wi], C.coq_z), C.coq_list(obs['leaks'][wi], C.coq_nat)))
        atts = []
        for a in obs['attacks']:
            atts.append('{| ao_kind := %s; ao_disc := %s; ao_word := %s; ao_T := %s; ao_P := %s; ao_scores := %s; ao_argmax := %s; ao_sep := %s |}' % (
                KIND_COQ[a['cls']], DISC_COQ.get(a['disc'], 'Models.DNanmax'), C.coq_nat(a['word']),
                C.coq_list2(a.get('T', []), core.float_to_coq), C.coq_list2(a.get('P', []), core.float_to_coq),
                C.coq_list(a['scores'], core.float_to_coq), C.coq_z(a['argmax']), C.coq_bool(a['sep'])))
        return ('{| cc_S := %s; cc_offset := %s; cc_gain := %s; cc_amp := %s; cc_traces := %s; cc_words := %s; cc_parts := %s; cc_edges := %s; cc_ln := %s; '
                'cc_attacks := %s |}' % (
                    C.coq_nat(obs['S']), C.coq_z(case.get('offset', 0)), C.coq_z(case['gain']), C.coq_z(case['amp']), C.coq_list2(obs['traces'], C.coq_z),
                    C.coq_list(words), C.coq_list(partitions_of(case), C.coq_z), C.coq_list(case['edges2'], C.coq_z),
                    C.coq_list(obs['ln'], core.float_to_coq), C.coq_list(atts)))

    # ------------------------------------------------------------------------------------------ oracle on the code alone
    def oracle(self, case, obs):
        if 'raised' in obs:
            return f'the pipeline raised {obs["raised"]}: {obs["msg"]}'
        G = obs['n_guesses']
        if any(c != obs['expected'] for c in obs['expected_calls']):
            return (f'compute_expected_key(key) for the same key returned {obs["expected_calls"]} (before run, after run, asked again) '
                    f'for words {case["words"]}')
        for wi, e in enumerate(obs['expected']):
            if e not in obs['asked_guesses']:
                return f'compute_expected_key gives {e} for word {case["words"][wi]}: not one of the guesses of the campaign'
        for a in obs['attacks']:
            if not a['shape_ok']:
                return f'{CLS[a["cls"]]}.scores has shape {a["shape"]}, not (guesses, words) = ({G}, {len(case["words"])})'
        for wi, W in enumerate(obs['words']):
            if not W['state_ok']:
                return (f'word {case["words"][wi]}: model(selection_function(...))[:, g, w] at g = compute_expected_key(key) = {obs["expected"][wi]} is not '
                        f'model(the targeted state of the real cipher under the true key)')
        for a in obs['attacks']:
            e = obs['expected'][a['word']]
            if a['sep'] and a['argmax'] != e:
                return (f'{CLS[a["cls"]]} / {a["disc"]}, word {case["words"][a["word"]]}: guesses[scores.argmax(axis=0)] = {a["argmax"]}, expected key {e} '
                        f'(the spec statistic ranks the expected key first with relative lead {a["lead_rel"]:.3f})')
        return None

    def nontrivial(self, case, obs):
        return 'raised' not in obs and any(a['sep'] for a in obs['attacks'])

    def tags(self, case, obs):
        return [self.name, f'{self.name}_{case["cipher"]}_{case["sf"]}']

    def features(self, case, obs):
        f = {'cipher_sf': f'{case["cipher"]}.{case["sf"]}', 'keysize': len(case['key']), 'model': case['model'][0], 'amp': case['amp'],
             'batch': case['batch'] or 'default', 'N': case['N'], 'precision': case['precision'], 'words': len(case['words']),
             'constant_sample_in_frame': bool(case.get('const')) or case['amp'] == 0,
             'words_arg': f"{case.get('words_kind')}/{case.get('words_form')}", 'extra_metadata': '+'.join(sorted(case.get('extra', []))) or 'none',
             'guesses': (case.get('guesses') or {}).get('kind', 'default'), 'interrupted_run': bool(case.get('interrupt')),
             'frame': ('full' if not case.get('frame') else f"{len(case['frame']['idx'])}/{case['frame']['form']}"),
             'polarity': 'negative' if case['gain'] < 0 else 'positive', 'offset': case.get('offset', 0), 'trace_dtype': case.get('tdtype', 'int16'),
             'custom_tags': '+'.join(k for k, v in sorted(case.get('mtags', {}).items()) if v) or 'none'}
        if 'raised' not in obs:
            n = len(obs['attacks'])
            d = sum(1 for a in obs['attacks'] if not a['sep'])
            f['discarded_attack_words'] = f'{d}/{n}'
            for a in obs['attacks']:
                _STATS[(a['cls'], 'sep' if a['sep'] else 'discarded')] = _STATS.get((a['cls'], 'sep' if a['sep'] else 'discarded'), 0) + 1
        return f

    def sample(self, case, obs):
        small = {k: v for k, v in obs.items() if k in ('expected', 'n_guesses', 'container_batch_size')}
        if 'attacks' in obs:
            small['attacks'] = [{k: a.get(k) for k in ('cls', 'disc', 'word', 'argmax', 'sep', 'lead_rel')} for a in obs['attacks']]
        return {'case': case, 'observed': small}

    def shrink(self, case):
        # one attack object at a time
        if len(case['attacks']) > 1:
            for a in case['attacks']:
                yield dict(case, attacks=[a])


_STATS = {}


# ---------------------------------------------------------------------------------------------- campaign histories: objects re-used
def make_history(rng, tier, n=None, keysizes=None, **kw):
    """2-3 campaigns attacked with ONE selection function object and ONE model object: different keys (AES: different key sizes
    too), plaintext sets, trace counts, batch sizes; in at least one campaign every attack object is run twice (two containers of
    the same key)."""
    base = make_case(rng, tier, guesses='default', interrupt=False, **kw)      # one object: one guesses setting for every campaign
    base['NB'] = 0
    atts = [a for a in base['attacks'] if a['cls'] != 'tdpa']       # TemplateDPA needs words=int: another selection function object
    keep = [a for a in atts if a['cls'] in ('cpa', 'dpa')]
    rest = [a for a in atts if a['cls'] not in ('cpa', 'dpa')]
    rng.shuffle(rest)
    base['attacks'] = keep + sorted(rest[:2], key=lambda a: a['cls'])
    n = n or rng.choice([2, 2, 3])
    camps = []
    twice = rng.randrange(n)
    for i in range(n):
        c = {k: (list(v) if isinstance(v, list) else v) for k, v in base.items()}
        if c['cipher'] == 'aes':
            ks = keysizes[i] if keysizes else rng.choice([16, 24, 32])
        else:
            ks = 8
        c['key'] = [rng.randrange(256) for _ in range(ks)]
        c['data_seed'] = rng.getrandbits(48)
        c['N'] = rng.choice([100, 120]) if c['amp'] >= 2 else rng.choice([80, 100, 120])
        c['batch'] = rng.choice([7, 50, 0])
        c['split'] = rng.randint(30, c['N'] - 30) if (i == twice or rng.random() < 0.3) else 0
        camps.append(c)
    return {'campaigns': camps}


def make_presets(rng, tier, n=None, **kw):
    """2-3 campaigns of the same selection function class, each with its OWN selection function object (own guesses -- subsets /
    permutations / ranges containing the true key values --, own words, own key), all objects constructed before any is used, then
    used in another order."""
    n = n or rng.choice([2, 3])
    first = make_case(rng, tier, NB=0, interrupt=False, frame='full', **kw)
    camps = [first]
    for _ in range(n - 1):
        camps.append(make_case(rng, tier, cipher=first['cipher'], sf=first['sf'], NB=0, interrupt=False, frame='full',
                               model=first['model'], guesses=rng.choice(['subset', 'perm', 'range', 'range_desc'])))
    kinds = ['subset', 'perm', 'range_desc']
    for i, c in enumerate(camps):
        if i == 0 or not c['guesses']:
            c['guesses'] = {'kind': kinds[i % 3], 'seed': rng.getrandbits(32)}
        keep = [a for a in c['attacks'] if a['cls'] in ('cpa', 'dpa')]
        rest = [a for a in c['attacks'] if a['cls'] not in ('cpa', 'dpa', 'tdpa')]
        c['attacks'] = keep + rest[:1]
    order = list(range(n))
    while order == list(range(n)):
        rng.shuffle(order)
    return {'mode': 'presets', 'campaigns': camps, 'order': order}


class HistoryKind(CampaignKind):
    name = 'history'
    case_type = 'list camp_case'
    check_fn = 'forallb camp_check'
    corr_fn = 'forallb camp_wiring'
    explain_fn = 'map camp_explain'
    shard = 1
    rule = ('campaign HISTORY: one selection function object and one model object (and the module-level discriminant) re-used for 2-3 '
            'campaigns under different keys (AES: different key sizes), plaintext sets, trace counts and batch sizes; compute_expected_key '
            'asked before the run, after it and once more in every campaign; in at least one campaign every attack object is run() twice '
            'on two containers of the same key; every campaign certified like a single one (the expected key of campaign i must be that '
            'of key i)')

    def gen(self, rng, tier):
        yield make_history(rng, tier, cipher='aes', sf='FirstSubBytes', model=['hw'], n=2, keysizes=[16, 16])
        yield make_history(rng, tier, cipher='aes', sf='LastSubBytes', model=['hw'], n=3, keysizes=[16, 32, 24])
        yield make_history(rng, tier, cipher='des', sf='FirstSboxes', n=2)
        yield make_history(rng, tier, cipher='des', sf='LastSboxes', model=['monobit', rng.randrange(4)], n=2)
        yield make_history(rng, tier, cipher='aes', sf='LastAddRoundKey', n=2, keysizes=[24, 16])
        yield make_presets(rng, tier, n=2, cipher='aes', sf='FirstSubBytes', keysize=16, model=['hw'])
        yield make_presets(rng, tier, n=3, cipher='des', sf='LastSboxes')
        for _ in range(0 if tier == 'quick' else 30):
            yield make_history(rng, tier)
        for _ in range(0 if tier == 'quick' else 12):
            yield make_presets(rng, tier)

    def run(self, case):
        cs = case['campaigns']
        if case.get('mode') == 'presets':
            # every selection function object (own guesses, own words) is constructed FIRST, then they are used in another order
            objs = [{'sf': self._sf(c, words_obj(c)), 'model': self._model(c)} for c in cs]
            out = [None] * len(cs)
            for i in case['order']:
                out[i] = self.drive(cs[i], objs[i])
            return {'campaigns': out}
        shared = {'sf': self._sf(cs[0], words_obj(cs[0])), 'model': self._model(cs[0])}
        return {'campaigns': [self.drive(c, shared) for c in cs]}

    def coq(self, case, obs):
        if 'raised' in obs:
            return '[]'
        return C.coq_list([CampaignKind.coq(self, c, o) for c, o in zip(case['campaigns'], obs['campaigns'])])

    def oracle(self, case, obs):
        if 'raised' in obs:
            return f'the pipeline raised {obs["raised"]}: {obs["msg"]}'
        for i, (c, o) in enumerate(zip(case['campaigns'], obs['campaigns'])):
            r = CampaignKind.oracle(self, c, o)
            if r:
                how = ('with its own selection function object, all objects constructed first and used in the order ' + str(case.get('order'))
                       if case.get('mode') == 'presets' else 'with the selection function and model objects of the earlier campaigns')
                return f'campaign {i + 1} of {len(case["campaigns"])} (key {bytes(c["key"]).hex()}) attacked {how}: {r}'
        return None

    def nontrivial(self, case, obs):
        return 'raised' not in obs and all(any(a['sep'] for a in o['attacks']) for o in obs['campaigns'])

    def tags(self, case, obs):
        c = case['campaigns'][0]
        return [self.name, f'{self.name}_{c["cipher"]}_{c["sf"]}']

    def features(self, case, obs):
        c0 = case['campaigns'][0]
        f = {'cipher_sf': f'{c0["cipher"]}.{c0["sf"]}', 'campaigns': len(case['campaigns']), 'model': c0['model'][0],
             'keysizes': '/'.join(str(len(c['key'])) for c in case['campaigns']),
             'attack_objects_run_twice': sum(1 for c in case['campaigns'] if c.get('split')), 'mode': case.get('mode', 'shared_objects')}
        if 'raised' not in obs:
            for c, o in zip(case['campaigns'], obs['campaigns']):
                CampaignKind.features(self, c, o)
        return f

    def sample(self, case, obs):
        if 'raised' in obs:
            return {'case': case, 'observed': obs}
        return {'case': case, 'observed': [CampaignKind.sample(self, c, o)['observed'] for c, o in zip(case['campaigns'], obs['campaigns'])]}

    def shrink(self, case):
        cs = case['campaigns']
        if case.get('mode') == 'presets':
            if len(cs) > 2:
                for i in range(len(cs)):
                    keep = [j for j in range(len(cs)) if j != i]
                    yield {'mode': 'presets', 'campaigns': [cs[j] for j in keep], 'order': [keep.index(j) for j in case['order'] if j != i]}
            return
        if len(cs) > 2:
            for i in range(len(cs)):
                for j in range(i + 1, len(cs)):
                    yield {'campaigns': [cs[i], cs[j]]}
        if len(cs[0]['attacks']) > 1:
            for k in range(len(cs[0]['attacks'])):
                yield {'campaigns': [dict(c, attacks=[c['attacks'][k]]) for c in cs]}


def coverage_extra():
    tot = {}
    for (cls, what), n in sorted(_STATS.items()):
        tot.setdefault(cls, {})[what] = n
    return {'certificate': {'per_attack_class': tot,
                            'rule': 'sep = the spec pipeline ranks the expected key first among the evaluated guesses with margin (best - worst)/8 >= max|score|/256; '
                                    'discarded = it does not (nothing is asserted for that attack object and word)'}}


KINDS = [CampaignKind(), HistoryKind()]
