"""C04 — ANOVA, NICV and SNR results equal their definitions over value classes.

C-tie: the real scared.ANOVADistinguisher / NICVDistinguisher / SNRDistinguisher (history update, compute, update,
compute, ..., compute, compute) and ANOVAAttack / NICVAttack / SNRAttack (.results after run(Container) and after a second
compute_results()) are driven on small integer inputs; every (word, sample) entry of EVERY returned table is compared, inside Coq (Model/Partitioned.v: part_check), with the SPEC
(F statistic / NICV / SNR over the groups of samples by class value) and with the impl-model (accumulators + the
_compute_metric bodies).  A second kind validates the hand-written spec itself against scipy / numpy references.
"""
import warnings

import numpy as np

from lib.kinds import Kind, HarnessError
from lib import core
from translate import common as C

ID = 'C04'
TRANSLATORS = []
MODEL_TARGETS = ['theories/Model/Partitioned.vo', 'theories/Proofs/Partitioned.vo']
PROP_TARGET = 'theories/Props/C04.vo'
EXHAUSTIVE = False
TRUSTED_BASE = [
    'Coq 8.16.1 kernel incl. vm_compute (no native_compute)',
    'Print Assumptions: every theorem of Props/C04.v is closed under the global context (no axioms)',
    'correspondence harness tools/props/C04.py: numpy array construction, float.hex export, the scripted selection function of the attack cases '
    '(returns a pre-computed (n, guesses, words) matrix held as metadata), C-order flattening of (guesses, words)',
    'tolerance rule of Model/Partitioned.v obs_ok: |observed - spec| <= 64 u (scale_num + spec scale_den) / den with the scales computed exactly '
    'from the inputs; an entry whose denominator is below 128 u scale_den accepts any non-infinite value',
    'modelled, not verified: numba kernels _accumulate_core_1/2 and the vectorized LUT (hand-written impl-model, held by the correspondence check); '
    'numpy float division semantics (x/0 = inf, 0/0 = nan, x/inf = 0)',
]
ASSUMPTIONS = [
    'class values lie in [0, 2^17) and data values in [-2^15, 2^17): a negative data value v is an undeclared value (ignored), the jitted table '
    'read lut[v] wraps once to lut[2^17 + v] and the harness never declares the class 2^17 + v; values >= 2^17 or < -2^17 index outside the table',
    'class lists without duplicates for the spec theorems (the impl-model and the C-tie also cover duplicates: last declaration wins)',
    'NaN-for-undefined is checked on inputs whose float sums are exact (|x| <= 63 for float32, 16-bit integers for float64, <= 48 traces)',
    'the first batch of an automatic class set is not empty',
]

HDR = 'From ScaredV Require Import Model.Partitioned.'
METRICS = ['ANOVA', 'NICV', 'SNR']
TRACE_DTYPES = ['uint8', 'uint16', 'int16']
DATA_MAX = {'uint8': 255, 'uint16': 65535, 'int8': 127, 'int16': 32767, 'int32': 2 ** 17 - 1}
# negative values of signed data are UNDECLARED values (no class list contains them).  They stay above -2^15 so that the
# jitted table read lut[v] (numba wraps a negative index once: lut[2^17 + v]) remains inside the table, and the harness never
# declares the class 2^17 + v that such a read would hit.
DATA_MIN = {'int8': -128, 'int16': -32768, 'int32': -32768}
LUT_SIZE = 2 ** 17
NMAX = 48


# ---------------------------------------------------------------------------------------------- generators
def _sample_range(prec, tdtype):
    if prec == 'float32':
        return (0, 63) if tdtype.startswith('u') else (-63, 63)
    info = np.iinfo(tdtype)
    return int(info.min), int(info.max)


def _gen_samples(rng, n, S, lo, hi, classes0, spats=None):
    """n x S samples; column patterns: random / const / class_fn (zero within-class spread for word 0) / narrow."""
    cols = []
    fn = {}
    for s in range(S):
        pat = spats[s] if spats else rng.choice(['random', 'random', 'narrow', 'const', 'class_fn', 'class_noise'])
        if pat == 'random':
            col = [rng.randint(lo, hi) for _ in range(n)]
        elif pat == 'narrow':
            c = rng.randint(lo, hi - 3) if hi - lo > 3 else lo
            col = [c + rng.randint(0, 3) for _ in range(n)]
        elif pat == 'const':
            c = rng.randint(lo, hi)
            col = [c] * n
        else:
            col = []
            for t in range(n):
                k = classes0[t]
                if k not in fn:
                    fn[k] = rng.randint(lo, hi - 1 if hi > lo else hi)
                v = fn[k]
                if pat == 'class_noise' and rng.random() < 0.3:
                    v = min(hi, v + 1)
                col.append(v)
        cols.append(col)
    return [[cols[s][t] for s in range(S)] for t in range(n)]


def _gen_word(rng, n, pat, declared, undeclared):
    """One data word column of n values."""
    if not declared:
        pat = 'all_undeclared'
    if pat == 'all_undeclared' and not undeclared:
        pat = 'const'
    if pat == 'const':
        c = rng.choice(declared)
        return [c] * n
    if pat == 'distinct':
        pool = list(declared)
        rng.shuffle(pool)
        col = pool[:n]
        while len(col) < n:
            col.append(rng.choice(undeclared) if undeclared else rng.choice(declared))
        rng.shuffle(col)
        return col
    if pat == 'all_undeclared':
        return [rng.choice(undeclared) for _ in range(n)]
    if pat == 'sparse':
        used = rng.sample(declared, min(len(declared), rng.randint(1, 3)))
        return [rng.choice(used) for _ in range(n)]
    if pat == 'two':
        used = rng.sample(declared, min(len(declared), 2))
        return [used[t % len(used)] for t in range(n)]
    if pat == 'negmix' and any(v < 0 for v in undeclared):
        negs = [v for v in undeclared if v < 0]
        return [rng.choice(negs) if rng.random() < 0.3 else rng.choice(declared) for _ in range(n)]
    if pat == 'mix' and undeclared:
        return [rng.choice(undeclared) if rng.random() < 0.3 else rng.choice(declared) for _ in range(n)]
    # unbalanced: geometric weights over a shuffled class list
    pool = list(declared)
    rng.shuffle(pool)
    col = []
    for _ in range(n):
        i = 0
        while i < len(pool) - 1 and rng.random() < 0.55:
            i += 1
        col.append(pool[i])
    return col


QUICK = {'on': False}
# numba compiles one kernel per (trace dtype, precision): kernel 1 costs ~1 s, kernel 2 (second update of an object with <= 9 classes)
# ~4 s.  The quick tier exercises kernel 2 on two signatures only; the thorough tier on all six.
def _limit_signature(P, nbatches, tdtype, prec):
    if QUICK['on'] and P <= 9 and nbatches >= 2:
        return ('uint8', prec) if prec == 'float32' else ('int16', prec)
    return tdtype, prec


def _splits(rng, n, nb):
    """nb positive batch sizes summing to n (fewer when n is small)."""
    nb = max(1, min(nb, n))
    cuts = sorted(rng.sample(range(1, n), nb - 1)) if nb > 1 else []
    return [b - a for a, b in zip([0] + cuts, cuts + [n])]


def _negatives(rng, parts, ddtype, k=4):
    """Negative undeclared values for a signed data dtype.  For a contiguous class set 0..P-1 they stay in [-P, -1]: should an
    implementation mistake a negative value for an index from the end, the result is wrong but no memory is overwritten."""
    if ddtype not in DATA_MIN:
        return []
    lo = DATA_MIN[ddtype]
    P = len(parts)
    if list(parts) == list(range(P)) and P > 0:
        lo = max(lo, -P)
        cand = [-1, -2, -P, -max(1, P // 2)] + [-rng.randint(1, P) for _ in range(4)]
    else:
        cand = [-1, -2, -128, lo, lo + 1] + [-rng.randint(1, -lo) for _ in range(4)]
    s = set(parts)
    out = []
    for v in cand:
        if lo <= v < 0 and (LUT_SIZE + v) not in s and v not in out:
            out.append(v)
    if len(out) > k:
        out = out[:2] + rng.sample(out[2:], k - 2)
    return out


def _undeclared_pool(rng, parts, dmax, ddtype=None, k=6):
    s = set(parts)
    out = _negatives(rng, parts, ddtype)
    k += len(out)
    tries = 0
    while len(out) < k and tries < 200:
        tries += 1
        v = rng.choice([rng.randint(0, min(dmax, 300)), rng.randint(0, dmax), dmax])
        if v not in s and v not in out:
            out.append(v)
    return out


def explicit_case(rng, metric, prec, parts, ddtype, tdtype, n, nb, W=3, S=3, wpats=None, spats=None, ptype='list', via='dist', **kw):
    dmax = DATA_MAX[ddtype]
    declared = sorted(set(parts))
    undeclared = _undeclared_pool(rng, parts, dmax, ddtype)
    negs = [v for v in undeclared if v < 0]
    choices = ['unbalanced', 'unbalanced', 'mix', 'sparse', 'const', 'distinct', 'two', 'all_undeclared'] + (['negmix', 'negmix', 'mix'] if negs else [])
    pats = wpats or [rng.choice(choices) for _ in range(W)]
    if negs and wpats:
        pats = ['negmix' if q == 'mix' and w % 2 else q for w, q in enumerate(pats)]
    words = [_gen_word(rng, n, pats[w], declared, undeclared) for w in range(W)]
    splits = _splits(rng, n, nb)
    if via == 'attack':
        splits = _attack_splits({'traces': [0] * n, 'batch': kw.get('batch', 'default')})
    tdtype, prec = _limit_signature(len(parts), len(splits), tdtype, prec)
    lo, hi = _sample_range(prec, tdtype)
    traces = _gen_samples(rng, n, S, lo, hi, words[0], spats)
    data = [[words[w][t] for w in range(W)] for t in range(n)]
    c = {'via': via, 'metric': metric, 'prec': prec, 'parts': list(parts), 'ptype': ptype, 'ddtype': ddtype, 'tdtype': tdtype,
         'traces': traces, 'data': data, 'splits': splits}
    c.update(kw)
    return c


def auto_case(rng, metric, prec, mx, ddtype, tdtype, n, nb, W=3, S=3, later_max=None, mn=0, via='dist', spats=None, **kw):
    """partitions=None; the first batch has maximum mx (and minimum >= mn); later batches may go up to later_max."""
    splits = _splits(rng, n, nb)
    n0 = splits[0]
    if via == 'attack':
        splits = _attack_splits({'traces': [0] * n, 'batch': kw.get('batch', 'default')})
        n0 = min(n0, splits[0])
    tdtype, prec = _limit_signature(9 if mx < 9 else 64, len(splits), tdtype, prec)
    lo, hi = _sample_range(prec, tdtype)
    vals = list(range(max(mn, 0), mx + 1))
    first = [[rng.choice(vals) if rng.random() < 0.8 else rng.choice(vals[:3]) for _ in range(W)] for _ in range(n0)]
    first[rng.randrange(n0)][rng.randrange(W)] = mx
    if mn < 0:
        first[0][0] = mn
    lm = min(mx if later_max is None else later_max, DATA_MAX[ddtype])
    rest = [[rng.randint(0, lm) if rng.random() < 0.7 else rng.choice(vals) for _ in range(W)] for _ in range(n - n0)]
    if ddtype in DATA_MIN and via != 'attack':
        # signed data: negative (hence undeclared) values arrive after the first batch (the first one would be refused)
        P = 9 if mx < 9 else (64 if mx < 64 else 256)
        negs = _negatives(rng, list(range(P)), ddtype)
        for r in rest:
            for w in range(W):
                if rng.random() < 0.25:
                    r[w] = rng.choice(negs)
    data = first + rest
    traces = _gen_samples(rng, n, S, lo, hi, [r[0] for r in data], spats)
    c = {'via': via, 'metric': metric, 'prec': prec, 'parts': None, 'ptype': 'none', 'ddtype': ddtype, 'tdtype': tdtype,
         'traces': traces, 'data': data, 'splits': splits}
    c.update(kw)
    return c


def _rand_parts(rng, P, dmax, style):
    if style == 'arange':
        return list(range(P))
    if style == 'offset':
        a = rng.randint(0, max(0, min(dmax, 300) - P))
        return list(range(a, a + P))
    hi = dmax if style == 'wide' else min(dmax, 40)
    hi = max(hi, P)
    parts = rng.sample(range(0, hi + 1), P)
    if style == 'sorted':
        parts.sort()
    elif style == 'reversed':
        parts.sort(reverse=True)
    return parts


class PartKind(Kind):
    name = 'partitioned'
    header = HDR
    case_type = 'part_case'
    check_fn = 'part_check'
    explain_fn = 'part_expected'
    shard = 6
    rule = ('ANOVA/NICV/SNR Distinguisher (history update, compute, update, compute, ..., compute, compute: EVERY compute() is compared with the '
            'statistic of the rows fed so far) and <X>Attack.results through a Container (after run and after a second compute_results()) on integer traces (u8/u16/i16) and '
            'integer data (u8/u16/i8/i16/i32; signed data carry negative, hence undeclared, values -1, -2, -128, -32768, ... in explicit-class '
            'cases and in the later batches of automatic ones, through both kernels): explicit class lists of 1..12 values (unsorted, gaps, values up to 2^17-1, list/ndarray/range, '
            'duplicates) and automatic class sets (first-batch maxima 0,1,8,9,10,63,64,65,254,255; refused >255 and <0), words that are '
            'unbalanced / constant (K=1) / all distinct (N=K) / sparse / partly or wholly undeclared, samples that are random / constant / '
            'a function of the class (zero within-class variance), 1..3 batches, float32 and float64; every (word, sample) entry compared '
            'with the spec and the impl-model inside Coq; non-trivial = some entry defined and some data word with >= 2 non-empty classes')

    # ------------------------------------------------------------------ generation
    def gen(self, rng, tier):
        quick = tier == 'quick'
        QUICK['on'] = quick
        mi = 0

        def nxt():
            nonlocal mi
            mi += 1
            return METRICS[mi % 3], ('float32', 'float64')[(mi // 3) % 2]

        # --- deterministic boundary block
        # every metric x precision on the full set of word / sample patterns, explicit classes
        for metric in METRICS:
            for prec in ('float32', 'float64'):
                yield explicit_case(rng, metric, prec, [3, 1, 7, 20, 5], 'uint8' if prec == 'float32' else 'int8', 'int16', 24, 2, W=6, S=4,
                                    wpats=['unbalanced', 'const', 'distinct', 'mix', 'all_undeclared', 'two'],
                                    spats=['random', 'const', 'class_fn', 'narrow'])
        # class list sizes 1..12 (unsorted, gaps), rotating metric / precision / dtypes / container type
        for P in range(1, 13):
            metric, prec = nxt()
            ddtype = ['uint8', 'uint16', 'int16', 'int32'][P % 4]
            yield explicit_case(rng, metric, prec, _rand_parts(rng, P, DATA_MAX[ddtype], ['gaps', 'wide', 'reversed', 'sorted'][P % 4]),
                                ddtype, TRACE_DTYPES[P % 3], rng.randint(P, 3 * P + 6), 1 + P % 3, ptype=['list', 'ndarray', 'ndarray_u16'][P % 3])
        # range / arange declarations, 2^17 - 1 as a class, single trace, N = K, K = 1, K = 0, duplicates (last wins)
        metric, prec = nxt()
        yield explicit_case(rng, metric, prec, list(range(10)), 'int8', 'uint8', 30, 2, ptype='range')
        # signed data with negative (undeclared) values on contiguous class sets: first call (kernel 1) with <= 9 classes; > 9 classes
        yield explicit_case(rng, 'SNR', 'float64', list(range(4)), 'int8', 'int16', 14, 1, W=3, S=2, wpats=['negmix', 'mix', 'unbalanced'], ptype='ndarray')
        yield explicit_case(rng, 'ANOVA', 'float32', list(range(12)), 'int16', 'uint8', 30, 3, W=3, S=2, wpats=['negmix', 'negmix', 'all_undeclared'])
        metric, prec = nxt()
        yield explicit_case(rng, metric, prec, [2 ** 17 - 1, 0, 65536, 70000], 'int32', 'int16', 20, 2)
        for metric in METRICS:
            yield explicit_case(rng, metric, 'float64', [4, 9, 2], 'uint8', 'int16', 1, 1, W=2, S=2, wpats=['const', 'all_undeclared'])
            yield explicit_case(rng, metric, 'float32', [4, 9, 2, 11, 30, 8], 'uint8', 'uint8', 6, 1, W=3, S=3, wpats=['distinct', 'const', 'two'],
                                spats=['random', 'class_fn', 'const'])
            yield explicit_case(rng, metric, 'float64', [6, 6, 3, 6, 1, 3], 'uint8', 'int16', 16, 2, W=2, S=2, wpats=['unbalanced', 'mix'])
        # automatic class sets: first-batch maxima at and around the brackets; later batches beyond the class set
        for i, mx in enumerate([0, 1, 8, 9, 10, 63, 64, 65, 254, 255]):
            metric, prec = nxt()
            yield auto_case(rng, metric, prec, mx, 'uint8' if i % 2 == 0 else ('int16' if i % 4 == 1 else 'uint16'), TRACE_DTYPES[i % 3], 20 + 2 * i, 1 + i % 3,
                            later_max=[None, 255, 300][i % 3] if i % 2 else [None, 255][i % 2])
        for metric in METRICS:
            yield auto_case(rng, metric, 'float64', 9, 'int8', 'int16', 18, 2, later_max=70)
        # refused: max > 255, min < 0
        yield auto_case(rng, 'ANOVA', 'float32', 256, 'uint16', 'uint8', 8, 1)
        yield auto_case(rng, 'SNR', 'float64', 5, 'int16', 'uint8', 8, 1, mn=-1)

        # --- random structure
        n_rand = 24 if quick else 600
        for _ in range(n_rand):
            metric, prec = nxt()
            tdtype = rng.choice(TRACE_DTYPES)
            r = rng.random()
            if r < 0.3:
                mx = rng.choice([0, 2, 7, 8, 9, 12, 40, 63, 64, 100, 200, 255])
                yield auto_case(rng, metric, prec, mx, rng.choice(['uint8', 'uint16', 'int16', 'int8' if mx <= 127 else 'int16']), tdtype, rng.randint(2, NMAX), rng.randint(1, 3),
                                W=rng.randint(1, 3), S=rng.randint(1, 3), later_max=rng.choice([None, None, 255, 260]))
            else:
                ddtype = rng.choice(['uint8', 'uint8', 'uint16', 'int8', 'int16', 'int32'])
                P = rng.randint(1, 12)
                parts = _rand_parts(rng, P, DATA_MAX[ddtype], rng.choice(['gaps', 'gaps', 'wide', 'sorted', 'reversed', 'arange', 'offset']))
                yield explicit_case(rng, metric, prec, parts, ddtype, tdtype, rng.randint(1, NMAX), rng.randint(1, 3),
                                    W=rng.randint(1, 4), S=rng.randint(1, 3), ptype=rng.choice(['list', 'ndarray', 'ndarray_u16' if max(parts) < 65536 else 'ndarray']))

        # --- the attack classes through a Container
        att = []
        for metric in METRICS:
            att.append(explicit_case(rng, metric, 'float64', [5, 2, 9, 30], 'int8', 'int16', 14, 1, W=6, S=3, via='attack', guesses=3,
                                     batch='set:5', wpats=['unbalanced', 'mix', 'two', 'sparse', 'const', 'distinct'], spats=['random', 'class_fn', 'narrow']))
            att.append(auto_case(rng, metric, 'float32', 9, 'uint8', 'uint8', 16, 3, W=4, S=2, via='attack', guesses=2, batch='conv:6', later_max=40))
        n_att = 6 if quick else 80
        for _ in range(n_att):
            metric, prec = nxt()
            G = rng.randint(1, 3)
            Wd = rng.randint(1, 2)
            n = rng.randint(2, 30)
            batch = rng.choice(['default', 'set:%d' % rng.randint(1, n), 'conv:%d' % rng.randint(1, n)])
            if rng.random() < 0.4:
                att.append(auto_case(rng, metric, prec, rng.choice([0, 3, 8, 9, 30, 63, 64, 255]), 'uint8', rng.choice(TRACE_DTYPES), n, 2, W=G * Wd,
                                     S=rng.randint(1, 3), via='attack', guesses=G, batch=batch, later_max=rng.choice([None, 255])))
            else:
                P = rng.randint(1, 12)
                dd = rng.choice(['uint8', 'int8', 'int16'])
                att.append(explicit_case(rng, metric, prec, _rand_parts(rng, P, DATA_MAX[dd], rng.choice(['gaps', 'sorted', 'reversed', 'arange'])), dd,
                                         rng.choice(TRACE_DTYPES), n, 1, W=G * Wd, S=rng.randint(1, 3), via='attack', guesses=G, batch=batch))
        for c in att:
            yield c

    # ------------------------------------------------------------------ implementation
    def run(self, case):
        with warnings.catch_warnings():
            warnings.simplefilter('ignore')
            if case['via'] == 'attack':
                return _run_attack(case)
            return _run_dist(case)

    # ------------------------------------------------------------------ Coq literal
    def coq(self, case, obs):
        splits = obs.get('batch_sizes') or case['splits']
        rows = list(zip(case['traces'], case['data']))
        batches, o = [], 0
        for k in splits:
            batches.append(rows[o:o + k])
            o += k
        if o < len(rows):
            batches.append(rows[o:])
        bl = C.coq_list(batches, lambda b: C.coq_list(b, lambda r: C.coq_pair(C.coq_list(r[0], C.coq_z), C.coq_list(r[1], C.coq_z))))
        parts = 'None' if case['parts'] is None else '(Some %s)' % C.coq_list(case['parts'], C.coq_z)
        if obs.get('refused') == 'ValueError':
            ob = 'None'
        elif 'tables' in obs:
            ob = '(Some %s)' % C.coq_list(obs['tables'], lambda kt: C.coq_pair(C.coq_nat(kt[0]), C.coq_list(
                kt[1], lambda w: C.coq_list(w, core.float_to_coq))))
        else:
            ob = '(Some [])'          # unexpected exception: never accepted
        return ('{| pc_metric := %s; pc_prec := %s; pc_parts := %s; pc_batches := %s; pc_obs_parts := %s; pc_obs := %s |}' % (
            case['metric'], 'F32' if case['prec'] == 'float32' else 'F64', parts, bl,
            C.coq_list(obs.get('partitions', []), C.coq_z), ob))

    def oracle(self, case, obs):
        if 'raised' in obs:
            return f'{case["metric"]} ({case["via"]}) raised {obs["raised"]}: {obs["msg"]}'
        if obs.get('refused') and obs['refused'] != 'ValueError':
            return f'first update raised {obs["refused"]}'
        if obs.get('input_modified'):
            return 'input arrays modified by update()'
        if obs.get('dtype') and obs['dtype'] != case['prec']:
            return f'result dtype {obs["dtype"]} is not the requested precision {case["prec"]}'
        if 'results' in obs and obs.get('shape') != obs.get('expected_shape'):
            return f'result shape {obs.get("shape")} instead of {obs.get("expected_shape")}'
        return None

    def nontrivial(self, case, obs):
        if 'results' not in obs:
            return False
        defined = any(v == v for _, t in obs['tables'] for w in t for v in w)
        declared = set(obs.get('partitions', []))
        W = len(case['data'][0])
        multi = any(len({r[w] for r in case['data']} & declared) >= 2 for w in range(W))
        return defined and multi

    def features(self, case, obs):
        f = {'metric': case['metric'], 'prec': case['prec'], 'via': case['via'], 'classes': 'auto' if case['parts'] is None else 'explicit',
             'tdtype': case['tdtype'], 'ddtype': case['ddtype'], 'batches': len(obs.get('batch_sizes') or case['splits'])}
        if 'partitions' in obs:
            P = len(obs['partitions'])
            f['P'] = str(P) if P <= 12 else ('<=64' if P <= 64 else '<=256')
        if 'results' in obs:
            vals = [v for _, t in obs['tables'] for w in t for v in w]
            f['computes'] = len(obs['tables'])
            nn = sum(1 for v in vals if v != v)
            f['nan'] = 'none' if nn == 0 else ('all' if nn == len(vals) else 'some')
        if obs.get('refused'):
            f['refused'] = obs['refused']
        return f

    def tags(self, case, obs):
        return ['partitioned', case['metric'].lower(), 'part_' + case['via'], 'part_auto' if case['parts'] is None else 'part_explicit']

    def sample(self, case, obs):
        c = dict(case, traces=case['traces'][:6], data=case['data'][:6])
        return {'case': c, 'observed': obs}

    def shrink(self, case):
        n = len(case['traces'])
        W = len(case['data'][0])
        S = len(case['traces'][0])
        att = case['via'] == 'attack'

        def rebuild(c):
            if att:
                c['splits'] = _attack_splits(c)
            return c

        # one word / one sample
        if not att and W > 1:
            for w in range(W):
                yield dict(case, data=[[r[w]] for r in case['data']])
        if S > 1:
            for s in range(S):
                yield rebuild(dict(case, traces=[[r[s]] for r in case['traces']]))
        # a single batch
        if not att and len(case['splits']) > 1 and case['parts'] is not None:
            yield dict(case, splits=[n])
        # drop rows (keeping the first batch of an automatic class set intact)
        keep0 = case['splits'][0] if case['parts'] is None else 0
        if not att and n - keep0 > 0:
            h = (n - keep0 + 1) // 2
            for lo, hi in ((keep0, keep0 + h), (keep0 + h, n)):
                if hi > lo and (hi - lo) < n:
                    idx = [i for i in range(n) if not (lo <= i < hi)]
                    if not idx:
                        continue
                    sp, o = [], 0
                    for k in case['splits']:
                        m = sum(1 for i in idx if o <= i < o + k)
                        o += k
                        if m:
                            sp.append(m)
                    yield dict(case, traces=[case['traces'][i] for i in idx], data=[case['data'][i] for i in idx], splits=sp)
            if n - keep0 <= 8:
                for j in range(keep0, n):
                    if n == 1:
                        break
                    idx = [i for i in range(n) if i != j]
                    sp, o = [], 0
                    for k in case['splits']:
                        m = sum(1 for i in idx if o <= i < o + k)
                        o += k
                        if m:
                            sp.append(m)
                    yield dict(case, traces=[case['traces'][i] for i in idx], data=[case['data'][i] for i in idx], splits=sp)


def _attack_splits(c):
    """Batch sizes the Container will deliver (model of container.batches for an int batch size / convergence step)."""
    n = len(c['traces'])
    mode = c.get('batch', 'default')
    if mode == 'default':
        return [n]
    bs = int(mode.split(':')[1])
    out = [bs] * (n // bs)
    if n % bs:
        out.append(n % bs)
    return out


def _parts_arg(case):
    p = case['parts']
    if p is None:
        return None
    t = case.get('ptype', 'list')
    if t == 'ndarray':
        return np.array(p, dtype='int32')
    if t == 'ndarray_u16' and max(p) < 65536:
        return np.array(p, dtype='uint16')
    if t == 'ndarray_u16':
        return np.array(p, dtype='int64')
    if t == 'range':
        assert p == list(range(len(p)))
        return range(len(p))
    return list(p)


def _flt(a):
    return [[float(v) for v in row] for row in np.asarray(a, dtype='float64')]


def _run_dist(case):
    import scared
    cls = {'ANOVA': scared.ANOVADistinguisher, 'NICV': scared.NICVDistinguisher, 'SNR': scared.SNRDistinguisher}[case['metric']]
    d = cls(partitions=_parts_arg(case), precision=case['prec'])
    tr = np.array(case['traces'], dtype=case['tdtype'])
    da = np.array(case['data'], dtype=case['ddtype'])
    if tr.tolist() != case['traces'] or da.tolist() != case['data']:
        raise HarnessError('generated values do not fit the dtypes')
    tr0, da0 = tr.copy(), da.copy()
    W, S = da.shape[1], tr.shape[1]
    o = 0
    tables, shapes, dtypes = [], [], []

    def grab(k):
        r = d.compute()
        tables.append([k, _flt(r)])
        shapes.append(list(r.shape))
        dtypes.append(str(r.dtype))

    # history: update, compute, update, compute, ..., compute, compute  (every compute() must be the statistic so far)
    for i, k in enumerate(case['splits']):
        try:
            d.update(tr[o:o + k], da[o:o + k])
        except ValueError as e:
            if i == 0 and case['parts'] is None:
                return {'refused': 'ValueError', 'msg': str(e)[:120], 'partitions': []}
            raise
        o += k
        grab(i + 1)
    grab(len(case['splits']))
    bad_shape = [sh for sh in shapes if sh != [W, S]]
    bad_dtype = [dt for dt in dtypes if dt != case['prec']]
    return {'tables': tables, 'results': tables[-1][1], 'shape': bad_shape[0] if bad_shape else [W, S], 'expected_shape': [W, S],
            'dtype': bad_dtype[0] if bad_dtype else case['prec'],
            'partitions': [int(v) for v in np.asarray(d.partitions).tolist()],
            'input_modified': not (np.array_equal(tr, tr0) and np.array_equal(da, da0)),
            'processed': int(d.processed_traces)}


def _run_attack(case):
    import scared
    import estraces
    from scared import container as _container
    cls = {'ANOVA': scared.ANOVAAttack, 'NICV': scared.NICVAttack, 'SNR': scared.SNRAttack}[case['metric']]
    G = case['guesses']
    tr = np.array(case['traces'], dtype=case['tdtype'])
    da = np.array(case['data'], dtype=case['ddtype'])
    if tr.tolist() != case['traces'] or da.tolist() != case['data']:
        raise HarnessError('generated values do not fit the dtypes')
    W = da.shape[1]
    Wd = W // G
    seen = []

    @scared.attack_selection_function(guesses=range(G))
    def sf(d, guesses):
        seen.append(int(d.shape[0]))
        return d.reshape((d.shape[0], len(guesses), Wd))

    ths = estraces.read_ths_from_ram(samples=tr, d=da)
    cont = scared.Container(ths)
    mode = case.get('batch', 'default')
    conv = int(mode.split(':')[1]) if mode.startswith('conv:') else None
    a = cls(selection_function=sf, model=scared.Value(), discriminant=scared.maxabs, partitions=_parts_arg(case),
            precision=case['prec'], convergence_step=conv)
    try:
        if mode.startswith('set:'):
            _container.set_batch_size(int(mode.split(':')[1]))
        try:
            a.run(cont)
        except ValueError as e:
            if case['parts'] is None and len(seen) == 1:
                return {'refused': 'ValueError', 'msg': str(e)[:120], 'partitions': [], 'batch_sizes': seen}
            raise
    finally:
        _container.set_batch_size(None)
    r = np.asarray(a.results)
    S = tr.shape[1]
    nb = len(seen)
    tables = [[nb, _flt(r.reshape((-1, S)))]]
    # results computed once more on the same state (public compute_results): must be the same statistic
    a.compute_results()
    r2 = np.asarray(a.results)
    tables.append([nb, _flt(r2.reshape((-1, S)))])
    return {'tables': tables, 'results': tables[0][1], 'shape': list(r.shape) if list(r.shape) != [G, Wd, S] else list(r2.shape),
            'expected_shape': [G, Wd, S], 'dtype': str(r.dtype) if str(r.dtype) != case['prec'] else str(r2.dtype),
            'partitions': [int(v) for v in np.asarray(a.partitions).tolist()], 'batch_sizes': seen,
            'processed': int(a.processed_traces)}


# ---------------------------------------------------------------------------------------------- validation of the spec itself
class RefKind(Kind):
    name = 'spec_reference'
    header = HDR
    case_type = 'ref_case'
    check_fn = 'ref_check'
    explain_fn = 'ref_expected'
    shard = 60
    rule = ('the Coq SPEC (F_stat / nicv_def / snr_def) against reference implementations on random integer groups: scipy.stats.f_oneway, '
            'numpy average((means-m)^2, weights=n)/var(all), mean((means-m)^2)/mean(var(g)); validates the hand-written spec, not the code')

    def gen(self, rng, tier):
        n = 60 if tier == 'quick' else 600
        for i in range(n):
            K = rng.randint(2, 8)
            style = i % 5
            gs = []
            for _ in range(K):
                m = rng.randint(1, 9)
                if style == 3:
                    c = rng.randint(-50, 50)
                    gs.append([c] * m)
                elif style == 4:
                    gs.append([rng.randint(-3, 3) for _ in range(1)])
                else:
                    base = rng.randint(-1000, 1000)
                    gs.append([base + rng.randint(-20, 20) for _ in range(m)])
            yield {'metric': METRICS[i % 3], 'groups': gs}

    def run(self, case):
        gs = [np.array(g, dtype='float64') for g in case['groups']]
        allv = np.concatenate(gs)
        means = np.array([g.mean() for g in gs])
        ns = np.array([len(g) for g in gs], dtype='float64')
        with warnings.catch_warnings(), np.errstate(all='ignore'):
            warnings.simplefilter('ignore')
            if case['metric'] == 'ANOVA':
                from scipy import stats
                v = float(stats.f_oneway(*gs).statistic)
            elif case['metric'] == 'NICV':
                v = float(np.average((means - allv.mean()) ** 2, weights=ns) / np.var(allv))
            else:
                v = float(np.mean((means - allv.mean()) ** 2) / np.mean([np.var(g) for g in gs]))
        return {'value': v}

    def coq(self, case, obs):
        return '{| rf_metric := %s; rf_groups := %s; rf_obs := %s |}' % (
            case['metric'], C.coq_list2(case['groups'], C.coq_z), core.float_to_coq(obs['value']) if 'value' in obs else 'PInf')

    def oracle(self, case, obs):
        if 'raised' in obs:
            return f'reference implementation raised {obs["raised"]}: {obs["msg"]}'
        return None

    def tags(self, case, obs):
        return ['spec_reference', 'ref_' + case['metric'].lower()]

    def features(self, case, obs):
        v = obs.get('value')
        return {'metric': case['metric'], 'value': 'nan' if v != v else ('inf' if v in (float('inf'), float('-inf')) else 'finite')}


KINDS = [PartKind(), RefKind()]
