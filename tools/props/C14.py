"""C14 — templates are class means with pooled covariance; matching is Mahalanobis.

C-tie: the real scared.TemplateAttack / scared.TemplateDPAAttack are driven through Containers as a HISTORY of
operations (run before build, build, build again, run on a wrong trace length, run, run again).  After every build the
public .partitions / .templates / .pooled_covariance / .pooled_covariance_inv are exported exactly; after every run the
public .scores and processed_traces.  Inside Coq (Model/Template.v: tcase_check) the templates and the covariance are
compared with the SPEC (class means; average over declared classes of the unbiased within-class covariance) and with
the accumulator impl-model; the scores are compared with 10 - mean squared Mahalanobis distance computed exactly with
THE CODE'S OWN pooled_covariance_inv as P (so the numerics of numpy.linalg.pinv are not part of the comparison), and
P itself is tied to the covariance by the generalized-inverse equation C P C = C.
"""
import json
import os
import subprocess
import sys
import traceback

import numpy as np

from lib.kinds import Kind
from lib import core
from translate import common as C

ID = 'C14'
TRANSLATORS = []
MODEL_TARGETS = ['theories/Model/Template.vo']
PROP_TARGET = 'theories/Props/C14.vo'
EXHAUSTIVE = False
TRUSTED_BASE = [
    'Coq 8.16.1 kernel incl. vm_compute (no native_compute)',
    'Print Assumptions: every theorem of Props/C14.v is closed under the global context (no axioms)',
    'numpy.linalg.pinv is an oracle: the theorems hold for EVERY matrix P; the check only requires C P C = C within the '
    'backward error of an SVD pseudo-inverse (vacuous when the estimated conditioning exceeds 2^20)',
    'correspondence harness tools/props/C14.py: read_ths_from_ram sets, Container batching through scared.set_batch_size, '
    'float.hex export, HammingWeight class values recomputed by popcount in the harness',
    'modelled, not verified: numba kernels _accumulate_core_1/2 (both exercised: the code alternates them), numpy '
    'broadcasting/dot/sum, Python control flow of build()/run() (hand-written impl-model, held by the correspondence check)',
]
ASSUMPTIONS = [
    'class values and hypothesis values lie in [0, 2^17) (size of the look-up table); hypothesis values of TemplateDPAAttack '
    'are declared classes (an undeclared hypothesis value has no template; the code silently uses the LAST template)',
    'class lists without duplicates in the C-tie (the model implements last-declaration-wins; duplicates are exercised only there)',
    'every matching run uses the trace length of the building set, or is the first update of the object (the length test is '
    'made at the first update only)',
    'samples are integers or dyadic k/2,k/4,k/8 small enough for the float32/float64 running sums to be exact',
    'build() is not called again once matching has started',
]

HDR = 'From ScaredV Require Import Model.Template.'
LUT_SIZE = 2 ** 17


# ------------------------------------------------------------------------------------------------- driving the real code

def _popcount(v):
    return bin(int(v)).count('1')


def _class_value(case, v):
    """Class value of a raw intermediate value after the leakage model (recomputed independently of scared)."""
    return _popcount(v) if case['model'] == 'hw' else int(v)


def _samples(case, rows):
    a = np.array(rows, dtype='float64').reshape(len(rows), -1) / case['den']
    return a.astype(case['sdtype'])


def _make_attack(case):
    import scared
    S, den = case['S'], case['den']
    brows = case['build_rows']
    vdt = case['vdtype']
    ths = scared.traces.read_ths_from_ram(samples=_samples(case, [r[1] for r in brows]),
                                          v=np.array([[r[0]] for r in brows], dtype=vdt))
    rsf = scared.reverse_selection_function(lambda v: v)
    model = scared.HammingWeight() if case['model'] == 'hw' else scared.Value()
    pk = case['parts_kind']
    parts = case['parts']
    if pk == 'none':
        p = None
    elif pk == 'range':
        p = range(parts[0], parts[-1] + 1)
    elif pk == 'ndarray':
        p = np.array(parts, dtype=case.get('pdtype', 'int64'))
    else:
        p = list(parts)
    kw = dict(container_building=scared.Container(ths), reverse_selection_function=rsf, model=model, partitions=p, precision=case['prec'])
    if case['mode'] == 'dpa':
        G, W, w = case['G'], case['W'], case['w']

        def f(h, guesses):
            return h.reshape(h.shape[0], G, W)
        asf = scared.attack_selection_function(f, guesses=range(G), words=w)
        return scared.TemplateDPAAttack(selection_function=asf, **kw)
    return scared.TemplateAttack(**kw)


def _match_container(case, op):
    import scared
    rows = op['rows']
    samples = _samples(case, [r[1] for r in rows])
    if case['mode'] == 'dpa':
        h = np.array([r[0] for r in rows], dtype=case['vdtype']).reshape(len(rows), case['G'] * case['W'])
        ths = scared.traces.read_ths_from_ram(samples=samples, h=h)
    else:
        ths = scared.traces.read_ths_from_ram(samples=samples, v=np.zeros((len(rows), 1), dtype='uint8'))
    return scared.Container(ths)


def _mat(a):
    a = np.asarray(a, dtype='float64')
    return [[float(v) for v in row] for row in a.reshape(a.shape[0], -1)]


def run_case(case):
    import logging
    import warnings
    import scared
    logging.getLogger('scared').setLevel(logging.ERROR)
    obs = []
    try:
        att = _make_attack(case)
        for op in case['ops']:
            scared.set_batch_size(int(op['bs']))
            if op['op'] == 'build':
                with warnings.catch_warnings():
                    warnings.simplefilter('ignore')
                    att.build()
                obs.append({'partitions': [int(v) for v in np.asarray(att.partitions).reshape(-1)],
                            'templates': _mat(att.templates), 'cov': _mat(att.pooled_covariance),
                            'pinv': _mat(att.pooled_covariance_inv), 'is_build': bool(att.is_build),
                            'templates_dtype': str(att.templates.dtype)})
            else:
                before = int(att.processed_traces)
                try:
                    with warnings.catch_warnings():
                        warnings.simplefilter('ignore')
                        att.run(_match_container(case, op))
                    sc = np.asarray(att.scores)
                    obs.append({'scores': [float(v) for v in sc.reshape(-1)], 'shape': list(sc.shape),
                                'processed': int(att.processed_traces), 'dtype': str(sc.dtype)})
                except scared.DistinguisherError as e:
                    obs.append({'refused': 'DistinguisherError', 'msg': str(e)[:120],
                                'processed_before': before, 'processed_after': int(att.processed_traces)})
    finally:
        scared.set_batch_size(None)
    return {'ops': obs}


# ------------------------------------------------------------------------------------------------- recycled worker
# Every attack object compiles a fresh numba.vectorize look-up function (scared.distinguishers.partitioned._define_lut_func)
# whose machine code is never released: ~6 MB per case.  The thorough tier therefore runs the cases in a child process
# that is replaced every RECYCLE cases (the cases are generated grouped by (storage dtype, precision), so that a child
# compiles the two accumulation kernels for one or two pairs only).  Quick tier, shrinking and replay run in-process.
RECYCLE = 110


def _worker_main():
    out = os.fdopen(os.dup(1), 'w')
    os.dup2(2, 1)                      # anything the library prints goes to stderr, the protocol keeps the real stdout
    for line in sys.stdin:
        case = json.loads(line)
        try:
            obs = run_case(case)
        except Exception as e:
            obs = {'raised': type(e).__name__, 'msg': str(e)[:200], 'tb': traceback.format_exc()[-600:]}
        out.write(json.dumps(obs) + '\n')
        out.flush()


class _Worker:
    def __init__(self):
        self.p = None
        self.n = 0

    def stop(self):
        if self.p is not None:
            try:
                self.p.stdin.close()
                self.p.wait(timeout=20)
            except Exception:
                self.p.kill()
            self.p = None

    def run(self, case):
        if self.p is None or self.n >= RECYCLE or self.p.poll() is not None:
            self.stop()
            tools = os.path.dirname(os.path.dirname(os.path.abspath(__file__)))
            code = 'import sys; sys.path.insert(0, %r); from props import C14; C14._worker_main()' % tools
            self.p = subprocess.Popen([sys.executable, '-c', code], stdin=subprocess.PIPE, stdout=subprocess.PIPE, text=True)
            self.n = 0
        self.n += 1
        try:
            self.p.stdin.write(json.dumps(case) + '\n')
            self.p.stdin.flush()
            line = self.p.stdout.readline()
            if not line:
                raise RuntimeError('worker exited with code %s' % self.p.poll())
            return json.loads(line)
        except Exception as e:
            self.stop()
            return {'raised': 'WorkerDied', 'msg': str(e)[:200], 'tb': ''}


# ------------------------------------------------------------------------------------------------- Coq printers

def _split(rows, bs):
    return [rows[i:i + bs] for i in range(0, len(rows), bs)]


def _zl(xs):
    return C.coq_list(xs, C.coq_z)


def _fmat(m):
    return C.coq_list2(m, core.float_to_coq)


def _hyps(case, r):
    """The G hypothesis class values of one matching row (selected word, after the model)."""
    if case['mode'] != 'dpa':
        return []
    G, W, w = case['G'], case['W'], case['w']
    return [_class_value(case, r[0][g * W + w]) for g in range(G)]


def coq_case(case, obs):
    hist, ol = [], []
    oops = obs.get('ops', [])
    parts = case['parts']
    for i, op in enumerate(case['ops']):
        o = oops[i] if i < len(oops) else None
        if op['op'] == 'build':
            rows = ['(%s, %s)' % (C.coq_z(_class_value(case, r[0])), _zl(r[1])) for r in case['build_rows']]
            hist.append('OpBuild %s' % C.coq_list(_split(rows, op['bs']), lambda b: C.coq_list(b)))
            if o is not None and 'templates' in o:
                if case['parts_kind'] == 'none' and i == [k for k, q in enumerate(case['ops']) if q['op'] == 'build'][0]:
                    parts = o['partitions']          # automatic class set: the model is given what the code chose (C12 proves the rule)
                ol.append('ObsBuild %s %s %s %s' % (_zl(o['partitions']), _fmat(o['templates']), _fmat(o['cov']), _fmat(o['pinv'])))
            else:
                ol.append('ObsRefused')
        else:
            rows = ['(%s, %s)' % (_zl(_hyps(case, r)), _zl(r[1])) for r in op['rows']]
            hist.append('OpRun %s' % C.coq_list(_split(rows, op['bs']), lambda b: C.coq_list(b)))
            if o is not None and 'scores' in o:
                ol.append('ObsScores %s %s' % (C.coq_z(o['processed']), C.coq_list(o['scores'], core.float_to_coq)))
            else:
                ol.append('ObsRefused')
    G = case['G'] if case['mode'] == 'dpa' else len(parts)
    return ('{| tc_prec := %s; tc_mode := %s; tc_parts := %s; tc_S := %s; tc_G := %s; tc_den := %d%%positive; tc_hist := %s; tc_obs := %s |}' % (
        'F32' if case['prec'] == 'float32' else 'F64', 'Dpa' if case['mode'] == 'dpa' else 'Static', _zl(parts),
        C.coq_nat(case['S']), C.coq_nat(G), case['den'], C.coq_list(hist), C.coq_list(ol)))


# ------------------------------------------------------------------------------------------------- generators

def _sample_row(rng, case_S, lo, hi):
    return [rng.randint(lo, hi) for _ in range(case_S)]


def _class_list(rng, K, kind):
    """(parts, parts_kind): sorted 0..K-1, range with offset, reversed, permuted, gapped, large values."""
    if kind == 'arange':
        return list(range(K)), rng.choice(['list', 'range', 'ndarray'])
    if kind == 'offset':
        a = rng.randint(1, 40)
        return list(range(a, a + K)), rng.choice(['list', 'range'])
    if kind == 'reversed':
        return list(range(K))[::-1], 'list'
    if kind == 'permuted':
        p = list(range(K))
        while p == sorted(p):
            rng.shuffle(p)
        return p, rng.choice(['list', 'ndarray'])
    if kind == 'gapped':
        p = rng.sample(range(0, 60), K)
        return p, 'list'
    if kind == 'large':
        p = rng.sample(range(0, 256), K - 1) + [rng.choice([256, 300, 1000, 65535, 65536, 70000, LUT_SIZE - 1])]
        rng.shuffle(p)
        return p, rng.choice(['list', 'ndarray'])
    raise ValueError(kind)


def _sizes(rng, K, kind, nmax):
    """Number of building traces per class."""
    if kind == 'balanced':
        n = rng.randint(2, max(2, nmax // K))
        return [n] * K
    if kind == 'unbalanced':
        return [rng.randint(2, max(2, (2 * nmax) // K)) for _ in range(K)]
    if kind == 'singleton':
        s = [rng.randint(2, max(2, nmax // K)) for _ in range(K)]
        for k in rng.sample(range(K), rng.randint(1, max(1, K // 2))):
            s[k] = 1
        return s
    if kind == 'empty':
        s = [rng.randint(2, max(2, nmax // K)) for _ in range(K)]
        for k in rng.sample(range(K), rng.randint(1, max(1, K // 2))):
            s[k] = 0
        if sum(s) == 0:
            s[0] = 2
        return s
    if kind == 'mixed':       # empty, singleton and larger classes together
        s = [rng.choice([0, 1, 1, 2, 3, 5, rng.randint(2, max(2, nmax // K))]) for _ in range(K)]
        if sum(s) == 0:
            s[rng.randrange(K)] = 3
        return s
    if kind == 'dyadic':      # sizes 0, 1, 2: means and covariances are dyadic, the float64 result must be exact
        s = [rng.choice([0, 1, 2, 2, 2]) for _ in range(K)]
        if 2 not in s:
            s[rng.randrange(K)] = 2
        return s
    raise ValueError(kind)


def make_case(rng, mode=None, K=None, S=None, ckind=None, skind=None, prec=None, den=None, sdtype=None, model='value',
              pre_run=None, wrong_len=None, builds=None, runs=None, undeclared=None, nmax=24, sdtypes=None):
    mode = mode or rng.choice(['static', 'dpa'])
    K = K or rng.randint(2, 6)
    S = S or rng.randint(1, 4)
    prec = prec or rng.choice(['float32', 'float64'])
    ckind = ckind or rng.choice(['arange', 'offset', 'reversed', 'permuted', 'gapped', 'large'])
    skind = skind or rng.choice(['balanced', 'unbalanced', 'singleton', 'empty', 'mixed', 'dyadic'])
    if model == 'hw':
        # classes are Hamming weights 0..8 of byte values; the class list is a set of weights
        parts = rng.sample(range(0, 9), K)
        pk = 'list'
        raw_of = {p: [v for v in range(256) if _popcount(v) == p] for p in range(9)}
    else:
        parts, pk = _class_list(rng, K, ckind)
        raw_of = None
    sdtype = sdtype or rng.choice(sdtypes or ['uint8', 'int16', 'float32', 'float64'])
    if den is None:
        den = rng.choice([1, 1, 2, 4, 8]) if sdtype.startswith('float') else 1
    if sdtype == 'uint8':
        lo, hi = 0, 255
    elif den == 1:
        lo, hi = rng.choice([(-300, 300), (0, 255), (-20, 20), (100, 140)])
    else:
        lo, hi = -63, 63                      # z/den with |z| <= 63: products of two samples stay exact in float32 sums
    sizes = _sizes(rng, K, skind, nmax)
    vmax = max(parts)
    vdtype = 'uint8' if (vmax < 256 and rng.random() < 0.7) or model == 'hw' else ('uint16' if vmax < 65536 and rng.random() < 0.5 else rng.choice(['uint32', 'int32']))
    # building rows: (raw value, samples); class centres so that the templates differ
    centres = [[rng.randint(lo, hi) for _ in range(S)] for _ in range(K)]
    spread = max(1, (hi - lo) // rng.choice([4, 8, 16]))

    def around(k):
        return [min(hi, max(lo, c + rng.randint(-spread, spread))) for c in centres[k]]

    def raw(p):
        return rng.choice(raw_of[p]) if raw_of else p
    brows = []
    for k, n in enumerate(sizes):
        for _ in range(n):
            brows.append([raw(parts[k]), around(k)])
    # some building traces with undeclared values (ignored by the code)
    if undeclared is None:
        undeclared = rng.random() < 0.3
    if undeclared:
        und = [v for v in range(0, min(256, vmax + 6)) if (_popcount(v) if model == 'hw' else v) not in parts]
        for _ in range(rng.randint(1, 3)):
            if und:
                brows.append([rng.choice(und), _sample_row(rng, S, lo, hi)])
    rng.shuffle(brows)
    nb = len(brows)
    case = {'mode': mode, 'parts': parts, 'parts_kind': pk, 'S': S, 'den': den, 'sdtype': sdtype, 'vdtype': vdtype,
            'prec': prec, 'model': model, 'build_rows': brows, 'sizes': sizes, 'ckind': ckind if model != 'hw' else 'hw', 'skind': skind}
    if pk == 'ndarray':
        case['pdtype'] = rng.choice(['int32', 'int64', 'uint32'] + (['uint16'] if vmax < 65536 else []) + (['uint8'] if vmax < 256 else []))
    if mode == 'dpa':
        case['G'] = rng.randint(1, 5)
        case['W'] = rng.randint(1, 2)
        case['w'] = rng.randrange(case['W'])
    else:
        case['G'], case['W'], case['w'] = K, 1, 0

    def match_rows(n, S_):
        rows = []
        for _ in range(n):
            k = rng.randrange(K)
            x = around(k)[:S_] if S_ <= S else around(k) + _sample_row(rng, S_ - S, lo, hi)
            if rng.random() < 0.2:
                x = _sample_row(rng, S_, lo, hi)
            h = [raw(rng.choice(parts)) for _ in range(case['G'] * case['W'])] if mode == 'dpa' else []
            rows.append([h, x])
        return rows

    def bsize(n):
        return rng.choice([1, 2, 3, max(1, n // 2), max(1, n - 1), n, n + 5])
    ops = []
    if pre_run is None:
        pre_run = rng.random() < 0.35
    if pre_run:
        n = rng.randint(1, 4)
        ops.append({'op': 'run', 'bs': bsize(n), 'rows': match_rows(n, S)})
    builds = builds or (2 if rng.random() < 0.15 else 1)
    for _ in range(builds):
        ops.append({'op': 'build', 'bs': bsize(nb)})
    if wrong_len is None:
        wrong_len = rng.random() < 0.15
    if wrong_len:
        S2 = rng.choice([s for s in (S - 1, S + 1, S + 2) if s >= 1])
        n = rng.randint(1, 3)
        ops.append({'op': 'run', 'bs': bsize(n), 'rows': match_rows(n, S2)})
    runs = runs or rng.choice([1, 1, 2, 3])
    for _ in range(runs):
        n = rng.randint(1, 9)
        ops.append({'op': 'run', 'bs': bsize(n), 'rows': match_rows(n, S)})
    case['ops'] = ops
    return case


def witness_case(mode):
    """The inputs named by the fix commits: classes declared as [2,0,1]; the class 2 has the single trace [41,13,5]."""
    brows = [[0, [10, 20, 30]], [2, [41, 13, 5]], [1, [7, 9, 11]], [0, [14, 22, 26]], [1, [9, 9, 15]], [1, [8, 12, 13]]]
    mrows = [[40, 14, 6], [12, 20, 28], [8, 10, 12], [41, 13, 5]]
    hyps = [[2, 0, 1], [0, 1, 2], [1, 2, 0], [2, 2, 1]]
    case = {'mode': mode, 'parts': [2, 0, 1], 'parts_kind': 'list', 'S': 3, 'den': 1, 'sdtype': 'uint8', 'vdtype': 'uint8',
            'prec': 'float64', 'model': 'value', 'build_rows': brows, 'sizes': [1, 2, 3], 'ckind': 'permuted', 'skind': 'singleton',
            'G': 3, 'W': 1, 'w': 0}
    rows = [[h if mode == 'dpa' else [], x] for h, x in zip(hyps, mrows)]
    case['ops'] = [{'op': 'run', 'bs': 2, 'rows': rows[:2]}, {'op': 'build', 'bs': 4}, {'op': 'run', 'bs': 3, 'rows': rows}]
    return case


class TemplateKind(Kind):
    name = 'template_attack'
    header = HDR
    case_type = 'tcase'
    check_fn = 'tcase_check'
    explain_fn = 'tcase_expected'
    shard = 12
    rule = ('TemplateAttack / TemplateDPAAttack through Containers as a history [run before build (refused)], build '
            '[, build again], [run on another trace length (refused)], run [, run ...]; trace lengths 1..4, 2..6 classes '
            '(0..K-1 as list/range/ndarray, offset, reversed, permuted, gapped, values up to 2^17-1, Hamming-weight classes, '
            'automatic class set), class sizes balanced / unbalanced / with singleton / with empty classes / mixed / '
            'dyadic (sizes <= 2, exact comparison), building traces with undeclared values, batch sizes 1..n+5 for both '
            'phases, float32/float64 precision, uint8/int16/float32/float64 storage, integer and dyadic samples, 1..5 '
            'candidates and 1..2 words for TemplateDPA; non-trivial = at least one class with >= 2 traces, >= 1 accepted '
            'matching run and a non-zero pooled_covariance_inv')

    _worker = None

    def gen(self, rng, tier):
        # every new (storage dtype, precision) pair costs ~5 s of numba compilation of the two kernels: two storage types in the quick tier
        sdt = ['uint8', 'float32'] if tier == 'quick' else ['uint8', 'int16', 'float32', 'float64']
        cases = list(self._gen(rng, tier, sdt))
        if tier != 'quick':
            cases.sort(key=lambda c: (c['sdtype'], c['prec']))      # stable: generation order kept inside a group
            self._worker = _Worker()
            self._pending = len(cases)
        return cases

    def _gen(self, rng, tier, sdt):
        # ---- deterministic boundary block (structure fixed, values from rng except for the two witnesses)
        for mode in ('static', 'dpa'):
            yield witness_case(mode)
            for S in (1, 2, 3, 4):
                for K in (2, 3, 6):
                    yield make_case(rng, mode=mode, K=K, S=S, pre_run=(S % 2 == 1), wrong_len=(K == 3),
                                    ckind=['permuted', 'gapped', 'reversed', 'large'][S - 1],
                                    skind=['singleton', 'empty', 'mixed', 'unbalanced'][(S + K) % 4],
                                    prec=['float64', 'float32'][(S + K) % 2], sdtypes=sdt)
            # more of the shapes the fix commits are about: singleton classes, permuted / reversed class lists
            yield make_case(rng, mode=mode, K=3, S=3, ckind='permuted', skind='singleton', prec='float64', sdtype='uint8', pre_run=True)
            yield make_case(rng, mode=mode, K=2, S=1, ckind='reversed', skind='singleton', prec='float32', sdtype='uint8')
            # exact regime: class sizes <= 2, K a power of two
            for K in (2, 4):
                for S in (1, 2, 3):
                    yield make_case(rng, mode=mode, K=K, S=S, skind='dyadic', prec='float64', den=1, sdtype=sdt[S % len(sdt)])
            # Hamming-weight classes (model applied in both phases)
            yield make_case(rng, mode=mode, K=4, S=2, model='hw', sdtype='uint8')
            # build twice, several runs
            yield make_case(rng, mode=mode, K=3, S=2, builds=2, runs=3, ckind='gapped', skind='mixed', sdtypes=sdt)
        # automatic class set (partitions=None): values below 9 -> arange(9)
        for mode in ('static', 'dpa'):
            c = make_case(rng, mode=mode, K=5, S=2, ckind='arange', skind='mixed', undeclared=False, sdtypes=sdt)
            c['parts_kind'] = 'none'
            c['parts'] = list(range(9))       # expected automatic set; hypothesis values are drawn from the declared 0..4
            if mode == 'static':
                c['G'] = 9
            yield c
        # ---- random structure
        n = 40 if tier == 'quick' else 850
        for i in range(n):
            yield make_case(rng, model='hw' if i % 11 == 5 else 'value', sdtypes=sdt)

    def run(self, case):
        if self._worker is None:
            return run_case(case)
        obs = self._worker.run(case)
        self._pending -= 1
        if self._pending <= 0:           # generated cases done: shrinking / replays run in-process
            self._worker.stop()
            self._worker = None
        return obs

    def coq(self, case, obs):
        if 'raised' in obs:
            obs = {'ops': []}
        return coq_case(case, obs)

    def oracle(self, case, obs):
        if 'raised' in obs:
            return f'{case["mode"]} template attack raised {obs["raised"]}: {obs["msg"]}'
        built = False
        for op, o in zip(case['ops'], obs['ops']):
            if op['op'] == 'build':
                built = True
                if not o.get('is_build'):
                    return 'is_build is False after build()'
            elif 'refused' in o:
                if o['processed_before'] != o['processed_after']:
                    return 'a refused run changed processed_traces'
            elif not built:
                return 'matching before build was not refused'
        return None

    def nontrivial(self, case, obs):
        if 'raised' in obs:
            return False
        ok_run = any('scores' in o for o in obs['ops'])
        nz = any(any(v != 0 for row in o['pinv'] for v in row) for o in obs['ops'] if 'pinv' in o)
        return max(case['sizes']) >= 2 and ok_run and nz

    def features(self, case, obs):
        pre = case['ops'][0]['op'] == 'run'
        nb = sum(1 for o in case['ops'] if o['op'] == 'build')
        nr = sum(1 for o in (obs.get('ops') or []) if 'scores' in o)
        nref = sum(1 for o in (obs.get('ops') or []) if 'refused' in o)
        bb = [o['bs'] for o in case['ops'] if o['op'] == 'build'][0]
        return {'mode': case['mode'], 'S': case['S'], 'K': len(case['parts']), 'classes': case['ckind'], 'sizes': case['skind'],
                'prec': case['prec'], 'storage': case['sdtype'], 'den': case['den'], 'model': case['model'],
                'parts_kind': case['parts_kind'], 'pre_run': pre, 'builds': nb, 'accepted_runs': nr, 'refused_runs': nref,
                'build_batches': -(-len(case['build_rows']) // bb), 'has_singleton': 1 in case['sizes'], 'has_empty': 0 in case['sizes']}

    def tags(self, case, obs):
        t = ['template_attack', 'template_' + case['mode']]
        if 'raised' in obs:
            t.append(f'template_{case["mode"]}_{obs["raised"]}')
        return t

    def sample(self, case, obs):
        return {'case': case, 'observed': obs}

    def shrink(self, case):
        ops = case['ops']
        # drop operations (keep one build)
        for i, op in enumerate(ops):
            if op['op'] == 'run' or sum(1 for o in ops if o['op'] == 'build') > 1:
                yield dict(case, ops=ops[:i] + ops[i + 1:])
        # one batch per operation
        if any(op['bs'] < 1000 for op in ops):
            yield dict(case, ops=[dict(op, bs=1000) for op in ops])
        # drop building rows (halves, then single rows)
        rows = case['build_rows']
        if len(rows) > 1:
            h = len(rows) // 2
            for part in (rows[:h], rows[h:]):
                yield dict(case, build_rows=part)
            if len(rows) <= 12:
                for i in range(len(rows)):
                    yield dict(case, build_rows=rows[:i] + rows[i + 1:])
        # drop matching rows
        for i, op in enumerate(ops):
            if op['op'] == 'run' and len(op['rows']) > 1:
                h = len(op['rows']) // 2
                for part in (op['rows'][:h], op['rows'][h:]):
                    yield dict(case, ops=ops[:i] + [dict(op, rows=part)] + ops[i + 1:])


KINDS = [TemplateKind()]
