"""C02 — Analysis.run on a Container equals the one-shot statistic on the whole trace set.

C-tie: the real scared.<X>Attack / <X>Reverse (CPA, DPA, ANOVA, NICV, SNR, MIA with explicit bin_edges) are run on
read_ths_from_ram sets through Container(ths, frame, preprocesses) under every kind of set_batch_size setting.  A
harness subclass overrides the public update() and logs every row it receives (traces after frame + chain, flattened
data): inside Coq (c02_check) that log is compared exactly with the slices of Model/Container.v cut out of the SPEC rows
(chain(frame(samples)), model(sf(metadata))) of the whole set — slicing, order, pairing — and with the accumulator of the
impl-model of run(); container.batch_size is compared with batch_size_rule; .results / .scores are compared with a fresh
distinguisher of the same class updated ONCE with the whole set by the real code, and .scores with the discriminant of
.results computed in Coq.
"""
import os
import warnings

# The numba kernels of the partitioned / MIA distinguishers are parallel=True: on the tiny sets used here 16 worker threads
# only contend (0.02 s -> 1 s per run() on a loaded machine).  One thread, unless the caller decided otherwise.  (Thread-count
# independence of the results is property C11; the inputs here are exactly summable.)
os.environ.setdefault('NUMBA_NUM_THREADS', '1')

import numpy as np  # noqa: E402

from lib.kinds import Kind  # noqa: E402
from lib import core  # noqa: E402
from translate import common as C  # noqa: E402

ID = 'C02'
TRANSLATORS = []
MODEL_TARGETS = ['theories/Model/Models.vo', 'theories/Model/Container.vo', 'theories/Model/Analysis.vo']
PROP_TARGET = 'theories/Props/C02.vo'
EXTRA_PROPS = ['C02EndToEnd']   # composition theorems (run o batching o statistic), audited with C02
EXHAUSTIVE = False
TRUSTED_BASE = [
    'Coq 8.16.1 kernel incl. vm_compute (no native_compute)',
    'Print Assumptions: every theorem of Props/C02.v is closed under the global context (no axioms)',
    'correspondence harness tools/props/C02.py: the logging subclass (public update()), exact export of integer-valued traces and of '
    'floats (float.hex), the harness-side selection function (plaintext xor guess), the six harness preprocesses',
    'harness: scared.distinguishers.partitioned._define_lut_func is memoised per class set (the real function is called once per '
    'distinct partitions; avoids one numba compilation per object)',
    'trusted, not verified: estraces TraceHeaderSet slicing ths[a:b] / ths[a:] is Python slicing of samples and metadata together',
    'modelled, not verified: the Python control flow of run()/process()/compute_results() (hand-written impl-model, held by the '
    'correspondence check); that each real distinguisher is an additive accumulator is property C01',
]
ASSUMPTIONS = [
    'preprocesses are row-wise (the property\'s wording); frames are None / Ellipsis / slice / range / index list or array',
    'containers are non-empty (compute() raises on an object that has processed no trace)',
    'partitioned analyses: explicit class set, or automatic class set already determined by the first batch; MIA with explicit bin_edges',
    'batch-size tables answer for the trace size (first threshold <= size) and hold sizes >= 1; the corners where the code returns None '
    'or divides by zero are stated in Props/C02.v (batch_size_corners) and exercised by the batch_size_rule kind',
    'results are compared with the one-shot results on inputs whose float sums are exact (small integers), tolerance 64 u',
]

HDR = 'From ScaredV Require Import Model.Models Model.Container Model.Analysis.'

CLASSES = ['CPA', 'DPA', 'ANOVA', 'NICV', 'SNR', 'MIA']
PARTITIONED = ('ANOVA', 'NICV', 'SNR', 'MIA')
PREPS = ['add1', 'reverse', 'square', 'pairprod', 'subfirst', 'cumsum']
NAN_CODE, PINF_CODE, NINF_CODE = 1000001, 1000002, 1000003      # non-finite samples, as integers of the Coq model (Container.nan_code)
PREP_COQ = {'add1': 'PAdd1', 'reverse': 'PReverse', 'square': 'PSquare', 'pairprod': 'PPairProd', 'subfirst': 'PSubFirst',
            'cumsum': 'PCumsum', 'zeronan': 'PZeroNan'}
DISCS = {'maxabs': 'DMaxabs', 'nanmax': 'DNanmax', 'opposite_min': 'DOppositeMin'}
ITEMSIZE = {'uint8': 1, 'int8': 1, 'int16': 2, 'uint16': 2, 'float32': 4, 'int32': 4, 'float64': 8}

_patched = {}


def patch_lut_cache():
    """Memoise partitioned._define_lut_func per class set (one numba compilation per distinct partitions)."""
    from scared.distinguishers import partitioned as P
    if _patched.get('done') is P:
        return
    try:        # also when NUMBA_NUM_THREADS was exported by the caller: mask the pool down to one worker
        import numba
        numba.set_num_threads(1)
    except Exception:
        pass
    real = P._define_lut_func
    cache = {}

    def memo(partitions):
        arr = np.asarray(partitions)
        key = (str(arr.dtype), tuple(int(v) for v in arr.reshape(-1)))
        if key not in cache:
            cache[key] = real(partitions)
        return cache[key]

    P._define_lut_func = memo
    _patched['done'] = P


_preps = {}


def prep_functions():
    """The six row-wise preprocesses of Model/Container.v (prep_row), computed in float64 (exact on the generated values)."""
    if _preps:
        return _preps
    import scared

    @scared.preprocess
    def add1(traces):
        return traces.astype('float64') + 1

    @scared.preprocess
    def reverse(traces):
        return np.ascontiguousarray(traces.astype('float64')[:, ::-1])

    @scared.preprocess
    def square(traces):
        return traces.astype('float64') ** 2

    @scared.preprocess
    def pairprod(traces):
        t = traces.astype('float64')
        return np.ascontiguousarray(t[:, :-1] * t[:, 1:])

    @scared.preprocess
    def subfirst(traces):
        t = traces.astype('float64')
        return t - t[:, :1]

    @scared.preprocess
    def cumsum(traces):
        return np.cumsum(traces.astype('float64'), axis=1)

    @scared.preprocess
    def zeronan(traces):
        t = traces.astype('float64')
        return np.where(t == 0, np.nan, t)

    _preps.update(add1=add1, reverse=reverse, square=square, pairprod=pairprod, subfirst=subfirst, cumsum=cumsum, zeronan=zeronan)
    return _preps


# ------------------------------------------------------------------------------------------- pure-Python mirror (generator side)

def py_frame(fr, row):
    k = fr[0]
    if k in ('all', 'none'):
        return list(row)
    if k in ('slice', 'range', 'pyslice'):
        return list(row[fr[1]:fr[2]:fr[3]])
    return [row[i] for i in fr[1]]


def py_prep(p, x):
    if p == 'add1':
        return [v + 1 for v in x]
    if p == 'reverse':
        return x[::-1]
    if p == 'square':
        return [v * v for v in x]
    if p == 'pairprod':
        return [a * b for a, b in zip(x[:-1], x[1:])]
    if p == 'subfirst':
        return [v - x[0] for v in x]
    if p == 'zeronan':
        return [NAN_CODE if v == 0 else v for v in x]
    if p == 'cumsum':
        out, s = [], 0
        for v in x:
            s += v
            out.append(s)
        return out
    raise ValueError(p)


def py_chain(chain, x):
    for p in chain:
        x = py_prep(p, x)
    return x


def py_frame_obj(fr):
    k = fr[0]
    if k == 'none':
        return None
    if k == 'all':
        return ...
    if k in ('slice', 'pyslice'):
        return slice(fr[1], fr[2], fr[3])
    if k == 'range':
        return range(fr[1], fr[2], fr[3])
    if k == 'list':
        return list(fr[1])
    return np.array(fr[1], dtype='int64')


def setting_obj(st):
    if st[0] == 'int':
        return int(st[1])
    if st[0] == 'table':
        return [(int(a), int(b)) for a, b in st[1]]
    return st[1] / 2 ** 20           # MB float; int(f * 2**20) == st[1] exactly


def py_floor_msd(num, den):
    q = num // den
    if q < 1:
        return 0
    m = 1
    while 10 * m <= q:
        m *= 10
    return q // m * m


def py_table_rule(m, t):
    for i in range(len(t)):
        if i + 1 < len(t):
            if t[i][0] <= m < t[i + 1][0]:
                return t[i][1]
        elif t[i][0] <= m:
            return t[i][1]
    return None


def py_bs(st, trace_size, input_size, itemsize):
    if st[0] == 'int':
        return st[1]
    if st[0] == 'table':
        return py_table_rule(max(trace_size, input_size), st[1])
    if input_size * itemsize <= 0:
        return None
    return max(py_floor_msd(st[1], input_size * itemsize), 10)


# ------------------------------------------------------------------------------------------- building the real objects

class PoisonError(Exception):
    """Raised on purpose by the harness preprocess / selection function on the poisoned trace of a failing run()."""


SENTINEL_SAMPLE = 77       # every sample of a poisoned trace (generated samples are <= 10)
SENTINEL_META = 200        # every metadata word of a poisoned trace (only in cases whose metadata are < 16)


def make_sf(guesses, poison=False):
    import scared

    def guard(plaintext):
        if poison and np.any(plaintext == SENTINEL_META):
            raise PoisonError('selection function refuses this batch')

    if guesses is None:
        @scared.reverse_selection_function
        def rsf(plaintext):
            guard(plaintext)
            return plaintext
        return rsf

    @scared.attack_selection_function(guesses=np.array(guesses, dtype='uint8'))
    def asf(plaintext, guesses):
        guard(plaintext)
        out = np.empty((plaintext.shape[0], len(guesses), plaintext.shape[1]), dtype=plaintext.dtype)
        for i, g in enumerate(guesses):
            out[:, i, :] = np.bitwise_xor(plaintext, g)
        return out
    return asf


def make_model(m):
    import scared
    if m[0] == 'value':
        return scared.Value()
    if m[0] == 'hw':
        return scared.HammingWeight()
    if m[0] == 'hww':
        return scared.HammingWeight(nb_words=int(m[1]))
    return scared.Monobit(int(m[1]))


def analysis_kwargs(case, convergence_step=None):
    import scared
    poison = any(r.get('fail') is not None and r.get('fail_how') == 'sf' for r in case.get('runs', []))
    kw = {'selection_function': make_sf(case['guesses'], poison), 'model': make_model(case['model']), 'precision': case['prec']}
    if case['guesses'] is not None:
        kw['discriminant'] = getattr(scared, case['disc'])
        if convergence_step is not None:
            kw['convergence_step'] = convergence_step
    if case['cls'] in PARTITIONED:
        kw['partitions'] = None if case['partitions'] is None else np.array(case['partitions'], dtype='int32')
    if case['cls'] == 'MIA':
        kw['bin_edges'] = bin_edges_of(case)
    return kw


def grid_values(spec):
    """A uniform grid of float64 values 0 .. 1 built in one of several ways: uniform within the validation tolerance of MIA's
    bin_edges, but NOT bit-identical to one another (np.linspace(0, 1, 11)[3] != 3 / 10 != cumsum value)."""
    kind, n = spec[0], spec[1]
    if kind == 'linspace':
        return np.linspace(0, 1, n)
    if kind == 'arange_div':
        return np.arange(n) / (n - 1)
    if kind == 'literal':                       # what a user types: [0, .1, .2, ...] (correctly rounded decimals)
        return [float(repr(k / (n - 1))) for k in range(n)]
    if kind == 'cumsum':
        return np.cumsum([0.0] + [1.0 / (n - 1)] * (n - 1))
    if kind == 'arange_step':
        return np.arange(n) * (1.0 / (n - 1))
    raise ValueError(kind)


def bin_edges_of(case):
    be = case['bin_edges']
    if be and be[0] == 'grid':
        return grid_values(be[1])
    return [float(v) for v in be]


def oneshot_distinguisher(case):
    """The STANDALONE distinguisher of the class (scared.<X>Distinguisher), configured like the analysis: automatic classes stay automatic."""
    import scared
    kw = {'precision': case['prec']}
    if case['cls'] in PARTITIONED:
        kw['partitions'] = None if case['partitions'] is None else np.array(case['partitions'], dtype='int32')
    if case['cls'] == 'MIA':
        kw['bin_edges'] = bin_edges_of(case)
    return getattr(scared, case['cls'] + 'Distinguisher')(**kw)


def wide_frame_indices(w):
    """A long index frame: s, s+1, ..., s+n-1 with the middle part [m0, m1) moved by d columns."""
    idx = list(range(w['s'], w['s'] + w['n']))
    for i in range(w['m0'], w['m1']):
        idx[i] += w['d']
    return idx


def wide_full_samples(run):
    import random as _random
    w = run['wide']
    r = _random.Random(f'C02-wide-{w["seed"]}')
    return [[r.randint(0, 7) for _ in range(w['L'])] for _ in range(len(run['meta']))]


def frame_obj(run, frame=None):
    """The frame object given to Container for this run (wide runs: the long index list / array, not the probed one)."""
    if run.get('wide') and frame is None:
        idx = wide_frame_indices(run['wide'])
        return np.array(idx, dtype='int64') if run['wide']['kind'] == 'array' else idx
    return py_frame_obj(run['frame'] if frame is None else frame)


def raw_array(run):
    n = len(run['samples'])
    if run.get('wide'):
        return np.array(wide_full_samples(run), dtype=run['dtype']).reshape(n, -1)
    if run.get('nans'):
        a = np.array(run['samples'], dtype='float64').reshape(n, -1)
        for code, v in ((NAN_CODE, np.nan), (PINF_CODE, np.inf), (NINF_CODE, -np.inf)):
            a[a == code] = v
        return a.astype(run['dtype'])
    a = np.array(run['samples'], dtype=run['dtype']).reshape(n, -1)
    if run.get('grid'):       # samples lie EXACTLY on the values of the grid (= the bin edges of the case): entry k is grid[k]
        g = np.asarray(grid_values(run['grid']), dtype='float64')
        return g[np.array(run['samples'], dtype='int64').reshape(n, -1)]
    return a


def analysis_class(case):
    import scared
    return getattr(scared, case['cls'] + ('Attack' if case['guesses'] is not None else 'Reverse'))


def make_ths(run):
    import estraces
    n = len(run['samples'])
    samples = raw_array(run)
    pt = np.array(run['meta'], dtype=run.get('meta_dtype', 'uint8')).reshape(n, -1)
    return estraces.read_ths_from_ram(samples=samples, plaintext=pt)


_poison = {}


def poison_preprocess():
    """Identity, but refuses a batch holding the poisoned trace (all samples = SENTINEL_SAMPLE)."""
    if not _poison:
        import scared

        @scared.preprocess
        def poison(traces):
            if np.any(np.all(traces == SENTINEL_SAMPLE, axis=1)):
                raise PoisonError('preprocess refuses this batch')
            return traces
        _poison['f'] = poison
    return _poison['f']


def chain_functions(run, chain=None):
    P = prep_functions()
    fs = [P[p] for p in (run['chain'] if chain is None else chain)]
    if run.get('fail') is not None and run.get('fail_how') == 'preprocess':
        fs = [poison_preprocess()] + fs
    return fs


def make_container(run, ths=None):
    import scared
    return scared.Container(make_ths(run) if ths is None else ths, frame=frame_obj(run), preprocesses=chain_functions(run))


def install(cont, frame, chain, how, frame_changed=True, run=None):
    """Re-assign / mutate in place the public attributes of a Container that was already used."""
    P = prep_functions()
    new = [P[p] for p in chain]
    if how == 'append' and len(new) == len(cont.preprocesses) + 1:
        cont.preprocesses.append(new[-1])
    elif how == 'insert0' and len(new) == len(cont.preprocesses) + 1:
        cont.preprocesses.insert(0, new[0])
    elif how == 'reverse' and len(new) == len(cont.preprocesses):
        cont.preprocesses.reverse()
    elif how == 'setitem' and len(new) == len(cont.preprocesses):
        for i, f in enumerate(new):
            cont.preprocesses[i] = f
    elif how == 'slice_assign':
        cont.preprocesses[:] = new
    else:
        cont.preprocesses = new
    if frame_changed:
        fo = frame_obj(run) if run is not None and run.get('wide') else py_frame_obj(frame)
        cont.frame = ... if fo is None else fo


def build_container(case, run, containers, other_analysis, thss=None):
    """The Container of a run(): a new one, a new one that was already used with other attribute values, an earlier one, or a new
    one on the trace set object of an earlier run."""
    if run.get('reuse') is not None:
        cont = containers[run['reuse']]
        install(cont, run['frame'], run['chain'], run.get('how', 'assign'), run=run)
        return cont
    if run.get('same_ths') is not None and thss is not None:
        return make_container(run, ths=thss[run['same_ths']])
    pre = run.get('pre')
    if not pre:
        return make_container(run)
    cont = make_container(dict(run, frame=pre['frame'], chain=pre['chain']))
    if pre['use'] == 'run':
        other_analysis().run(cont)
    elif pre['use'] == 'batch_size':
        cont.batch_size
    elif pre['use'] == 'trace_size':
        cont.trace_size
    else:
        for b in cont.batches():
            b.samples
            break
    install(cont, run['frame'], run['chain'], pre['how'])
    return cont


def int_rows(a, grid=None, nonfinite=False):
    """Rows of a 2-D array as lists of ints; None when a value is not an integer.  With grid: the values must be EXACTLY float64
    values of the grid (their indices are returned) — a value that went through float32 or an integer dtype is not."""
    a = np.asarray(a)
    if grid:
        if a.dtype != np.dtype('float64'):
            return None
        a = a.reshape(a.shape[0], -1)
        g = np.asarray(grid_values(grid), dtype='float64')
        k = np.clip(np.round(a * (len(g) - 1)), 0, len(g) - 1).astype('int64')
        if not np.all(np.isfinite(a)) or not np.all(g[k] == a):
            return None
        return [[int(v) for v in r] for r in k]
    a = a.reshape(a.shape[0], -1).astype('float64')
    if nonfinite:
        a = np.where(np.isnan(a), NAN_CODE, np.where(a == np.inf, PINF_CODE, np.where(a == -np.inf, NINF_CODE, a)))
    if not np.all(np.isfinite(a)) or not np.all(a == np.round(a)):
        return None
    return [[int(v) for v in r] for r in a]


def flt(a):
    return [float(v) for v in np.asarray(a, dtype='float64').reshape(-1)]


def fl(xs):
    return C.coq_list(xs, core.float_to_coq)


def coq_setting(st):
    if st[0] == 'int':
        return '(BInt %s)' % C.coq_z(st[1])
    if st[0] == 'table':
        return '(BTable %s)' % C.coq_list(st[1], lambda e: '(%s, %s)' % (C.coq_z(e[0]), C.coq_z(e[1])))
    return '(BMb %s)' % C.coq_z(st[1])


def coq_frame(fr, L=None):
    if fr[0] == 'pyslice':       # backward / negative / open bounds: resolved by Python's own slice semantics, given to Coq as indices
        return '(FIdx %s)' % C.coq_list(list(range(L))[fr[1]:fr[2]:fr[3]], C.coq_nat)
    if fr[0] in ('all', 'none'):
        return 'FAll'
    if fr[0] in ('slice', 'range'):
        return '(FSlice %s %s %s)' % (C.coq_nat(fr[1]), C.coq_nat(fr[2]), C.coq_nat(fr[3]))
    return '(FIdx %s)' % C.coq_list(fr[1], C.coq_nat)


def coq_model(m):
    if m[0] == 'hww':
        return '(MHwWords %s)' % C.coq_nat(m[1])
    return {'value': 'MValue', 'hw': 'MHw'}.get(m[0]) or '(MMonobit %s)' % C.coq_n(m[1])


def coq_zrow(a, b):
    return '(%s, %s)' % (C.coq_list(a, C.coq_z), C.coq_list(b, C.coq_z))


# ------------------------------------------------------------------------------------------- generators

def gen_frame(rng, L, kind=None):
    kind = kind or rng.choice(['none', 'all', 'slice', 'slice', 'range', 'list', 'list', 'array', 'pyslice'])
    if kind in ('none', 'all'):
        return [kind]
    if kind == 'pyslice':     # backward slices (reaching sample 0 or not), open and negative bounds
        while True:
            fr = rng.choice([[None, None, -1], [None, None, -2], [rng.randint(0, L - 1), None, -1], [rng.randint(0, L - 1), None, -2],
                             [None, rng.randint(0, L - 1), -1], [-1, None, -1], [-rng.randint(1, L), None, 1], [None, -rng.randint(1, L - 1) if L > 1 else None, 1],
                             [-rng.randint(1, L), -rng.randint(1, L), rng.choice([1, -1])], [rng.randint(0, L - 1), 0, -1],
                             [-1, -L - 1, -1], [None, None, 2]])
            if len(list(range(L))[fr[0]:fr[1]:fr[2]]) >= 1:
                return ['pyslice'] + fr
    if kind in ('slice', 'range'):
        a = rng.randint(0, L - 1)
        b = rng.randint(a + 1, L + (1 if kind == 'slice' else 0))     # a slice may stop beyond the end (clipped)
        return [kind, a, b, rng.choice([1, 1, 2, 3])]
    k = rng.randint(1, L + 1)
    return [kind, [rng.randrange(L) for _ in range(k)]]               # order changed, repeats


def gen_chain(rng, L1, nmax=3):
    """A chain of 0..nmax preprocesses keeping at least one sample."""
    chain = []
    L = L1
    for _ in range(rng.choice([0, 1, 1, 2, 2, 3][:nmax + 3])):
        p = rng.choice(PREPS)
        if p == 'pairprod':
            if L < 2:
                continue
            L -= 1
        chain.append(p)
    return chain


def gen_setting(rng, bs, size, L_in, itemsize, no_table=False):
    """A set_batch_size setting that makes container.batch_size == bs (bs >= 10 for the MB kind)."""
    kind = rng.choice(['int', 'int', 'table', 'table', 'mb'] if bs >= 10 and bs in (10, 20, 30, 40) else ['int', 'int', 'table'])
    if no_table and kind == 'table':
        kind = 'int'
    if kind == 'int':
        return ['int', bs]
    if kind == 'mb':
        # bytes / (L_in * itemsize) in [bs, bs + 10): floored to bs (bs in 10..40 step 10; below 10 -> 10)
        lo = bs * L_in * itemsize
        hi = (bs + 10) * L_in * itemsize - 1
        if bs == 10:
            lo = rng.choice([1, L_in * itemsize, 5 * L_in * itemsize, lo])
        return ['mb', rng.randint(lo, hi)]
    other = [rng.randint(1, 60) for _ in range(3)]
    shape = rng.choice(['first', 'middle', 'last', 'exact_lo', 'exact_hi', 'single'])
    if shape == 'single':
        return ['table', [[rng.randint(0, size), bs]]]
    if shape == 'first':
        return ['table', [[0, bs], [size + 1, other[0]], [size + 7, other[1]]]]
    if shape == 'middle':
        return ['table', [[0, other[0]], [max(1, size - rng.randint(0, 2)), bs], [size + 1 + rng.randint(0, 3), other[1]]]]
    if shape == 'last':
        return ['table', [[0, other[0]], [max(1, size - 3), other[1]], [size, bs]]]
    if shape == 'exact_lo':          # threshold exactly the size: [size, ...) answers
        return ['table', [[0, other[0]], [size, bs], [size + 1, other[1]]]]
    return ['table', [[0, bs], [size + 1, other[0]]]]   # size + 1 is the first size NOT in the first interval


def data_values(case, meta_row):
    gs = case['guesses']
    m = case['model']

    def f(v):
        if m[0] == 'value':
            return v
        if m[0] == 'hw':
            return bin(v).count('1')
        return (v >> m[1]) & 1
    if gs is None:
        return [f(v) for v in meta_row]
    return [f(v ^ g) for g in gs for v in meta_row]


SAME_LEN = ['add1', 'reverse', 'square', 'subfirst', 'cumsum']     # preprocesses that keep the trace length


def vary_chain(rng, chain):
    """Another chain giving traces of the same length; returns (new chain, how it can be installed on a used Container)."""
    keep = [p for p in chain]
    r = rng.random()
    if r < 0.35 or not keep:
        return keep + [rng.choice(SAME_LEN)], rng.choice(['append', 'assign', 'slice_assign'])
    if r < 0.6 and len(keep) >= 2 and keep != keep[::-1]:
        return keep[::-1], rng.choice(['assign', 'slice_assign', 'reverse'])
    i = rng.randrange(len(keep))
    if keep[i] == 'pairprod':
        return [rng.choice(SAME_LEN)] + keep, rng.choice(['insert0', 'assign'])
    new = rng.choice([p for p in SAME_LEN if p != keep[i]])
    return keep[:i] + [new] + keep[i + 1:], rng.choice(['assign', 'slice_assign', 'setitem'])


def vary_frame(rng, frame, L):
    """Another frame selecting as many samples, or the same one."""
    if frame[0] in ('list', 'array'):
        return [frame[0], [rng.randrange(L) for _ in frame[1]]]
    if frame[0] == 'slice' and frame[3] == 1 and frame[1] >= 1 and frame[2] <= L:
        return ['slice', frame[1] - 1, frame[2] - 1, 1]
    return frame


def make_case(rng, cls, attack, sizes_bs, L=None, frame_kind=None, nchain=3, dtype=None, leak=None, step=None, history=None,
              wide=False, scaled=False, fail=None, nans=False, wide16=False):
    """sizes_bs: list of (N, bs) — one per run().  step: convergence_step (attacks).  history: None | 'reuse' | 'pre' | 'both':
    the SAME Container object is used again after its public attributes were re-assigned / mutated in place.
    wide: full-byte metadata and guesses with the library's models incl. HammingWeight(nb_words = 2, 3) (class sets beyond 0..8).
    scaled = grid spec (MIA): float64 samples lying exactly on the bin edges, which are built as the spec says (grid_values).
    fail = (run index, 'preprocess' | 'sf'): that run() raises on the batch holding a poisoned trace."""
    L = L or rng.randint(3, 7)
    dtype = dtype or rng.choice(['uint8', 'uint8', 'int16', 'float32'])
    if scaled:
        dtype = 'float64'
        history = None          # the chains of a history do arithmetic: k/10 would not stay exact
    if nans:                    # a few NaN / inf samples, raw and produced by a preprocess; chains that do no arithmetic on them
        dtype = rng.choice(['float32', 'float64'])
        history = None
    if wide16:                  # 16-bit metadata words: intermediate values beyond one byte, growing after the first batch / run
        wide = False
    W = rng.randint(1, 2)
    top_meta = 255 if wide else 15
    if wide16:
        model = ['monobit', rng.randint(0, 8)] if cls == 'DPA' else ['value']       # Monobit only knows bits 0..8
        if cls in PARTITIONED:
            model = ['value']
    elif cls == 'DPA':
        model = ['monobit', rng.randint(0, 7 if wide else 3)]
    elif wide:
        model = rng.choice([['value'], ['hw'], ['hww', 2], ['hww', 2], ['hww', 3], ['monobit', rng.randint(0, 7)]])
        if model[0] == 'hww':
            W = model[1] * rng.choice([1, 1, 2] if model[1] == 2 else [1])
    elif cls in PARTITIONED:
        model = rng.choice([['value'], ['hw'], ['hw']])
    else:
        model = rng.choice([['value'], ['hw'], ['monobit', rng.randint(0, 3)]])
    guesses = sorted(rng.sample(range(top_meta + 1), rng.randint(2, 4))) if attack else None
    frame = gen_frame(rng, L, frame_kind)
    L1 = len(py_frame(frame, list(range(L))))
    chain = gen_chain(rng, L1, nchain)
    if scaled:
        chain = rng.choice([[], [], ['reverse']])
    elif nans:
        chain = rng.choice([[], [], ['reverse'], ['zeronan'], ['zeronan', 'reverse'], ['reverse', 'zeronan']])
    elif cls in PARTITIONED and not chain:
        # one numba compilation per (trace dtype, layout, precision, kernel): the partitioned classes always see float64 traces
        chain = ['add1']
    case = {'cls': cls, 'guesses': guesses, 'model': model, 'disc': rng.choice(list(DISCS)), 'prec': 'float64',
            'partitions': None, 'bin_edges': None, 'runs': [], 'step': step if attack else None}
    leak = rng.random() < 0.5 if leak is None else leak
    lo = 0 if dtype == 'uint8' else -3
    for ri, (N, bs) in enumerate(sizes_bs):
        meta = [[rng.randint(0, top_meta) for _ in range(W)] for _ in range(N)]
        if wide16:
            # the first run (or at least its first two traces) stays below 256, later values use the 16 bits
            small = 2 if (ri == 0 and len(sizes_bs) == 1) or (ri == 0 and rng.random() < 0.3) else (N if ri == 0 else 0)
            meta = [[rng.randint(0, 255) if i < small else rng.choice([rng.randint(256, 65535), rng.randint(0, 65535), 65535 - rng.randint(0, 3)])
                     for _ in range(W)] for i in range(N)]
        if scaled:
            samples = [[rng.randint(0, scaled[1] - 1) for _ in range(L)] for _ in range(N)]
        elif leak:       # the metadata determines the samples (plus a little noise): a mis-pairing ruins the statistic
            samples = [[min(7, max(lo, (bin(m[0]).count('1') + (m[-1] >> (j % 3)) + j) % 6 + rng.choice([0, 0, 0, 1])))
                        for j in range(L)] for m in meta]
        else:
            samples = [[rng.randint(lo, 7) for _ in range(L)] for _ in range(N)]
        fr = frame
        if ri > 0 and frame[0] in ('list', 'array') and rng.random() < 0.5:    # another frame of the same length
            fr = [frame[0], [rng.randrange(L) for _ in frame[1]]]
        if nans:
            samples = [list(r) for r in samples]
            for _ in range(rng.choice([1, 1, 2, 3]) if N > 1 or ri == 0 else 0):
                samples[rng.randrange(N)][rng.randrange(L)] = rng.choice([NAN_CODE, NAN_CODE, PINF_CODE, NINF_CODE])
        case['runs'].append({'samples': samples, 'meta': meta, 'dtype': dtype, 'frame': fr, 'chain': chain, 'bs': bs})
        if nans:
            case['runs'][-1]['nans'] = True
        if wide16:
            case['runs'][-1]['meta_dtype'] = 'uint16'
        if scaled:
            case['runs'][-1]['grid'] = scaled
    # container histories: "each run uses the attribute values current at that run"
    if history in ('reuse', 'both'):
        for ri in range(1, len(case['runs'])):
            run = case['runs'][ri]
            root = case['runs'][0]
            run['reuse'] = 0
            run['samples'], run['meta'] = root['samples'], root['meta']
            prev = case['runs'][ri - 1]
            run['chain'], run['how'] = vary_chain(rng, prev['chain'])
            run['frame'] = vary_frame(rng, prev['frame'], L) if rng.random() < 0.4 and prev['frame'][0] != 'none' else prev['frame']
            if run['frame'][0] == 'none':
                run['frame'] = prev['frame']
    if history in ('pre', 'both'):
        run = case['runs'][0]
        f0 = gen_frame(rng, L)
        if f0[0] == 'none' and run['frame'][0] != 'none':
            f0 = ['all']
        c0 = gen_chain(rng, len(py_frame(f0, list(range(L)))), 2)
        if rng.random() < 0.5:          # only the chain differs (what a snapshot of the chain would miss)
            f0 = run['frame']
            c0 = [p for p in vary_chain(rng, run['chain'])[0]] if rng.random() < 0.5 else run['chain'][:-1]
        if cls in PARTITIONED and not c0:
            c0 = ['square']
        run['pre'] = {'frame': f0, 'chain': c0, 'use': rng.choice(['run', 'run', 'batch_size', 'trace_size', 'batches']),
                      'how': rng.choice(['assign', 'slice_assign'])}
    # automatic class set: make sure the first trace already shows a value >= 9 (bracket 64 from the first batch on)
    if cls in PARTITIONED and wide:
        # the library's models on full bytes: automatic classes (bracket fixed by the first trace) or the explicit full class set
        g0 = guesses[0] if guesses else 0
        case['runs'][0]['meta'][0] = [255 ^ g0] * W          # value 255 / all-ones words / bit 1 for guess g0 in the first trace
        if rng.random() < 0.7:
            case['partitions'] = None
        else:
            case['partitions'] = list(range({'value': 256, 'hw': 9, 'monobit': 2}.get(model[0], 8 * (model[1] if model[0] == 'hww' else 1) + 1)))
    elif cls in PARTITIONED and wide16:
        # explicit classes above 255: the values that occur (the LUT of the partitioned distinguishers holds 2^17 values)
        gs = guesses if guesses else [0]
        case['partitions'] = sorted({v ^ g for r in case['runs'] for m in r['meta'] for v in m for g in gs})
    elif cls in PARTITIONED:
        top = 15 if model[0] == 'value' else 4
        if model[0] == 'value' and rng.random() < 0.25:
            g0 = guesses[0] if guesses else 0
            case['runs'][0]['meta'][0][0] = 15 ^ g0
            case['partitions'] = None
        elif model[0] == 'hw' and rng.random() < 0.25:
            case['partitions'] = None            # hw <= 4 < 9: arange(9) whatever the first batch
        else:
            case['partitions'] = list(range(top + 1))
    # a run() that raises: one poisoned trace (not the first one: Container.trace_size reads it)
    if fail is not None and history is None:
        ri, how = fail
        run = case['runs'][ri]
        n = len(run['samples'])
        if n >= 2 and not (how == 'sf' and wide):
            pidx = rng.randint(max(1, n // 2), n - 1) if rng.random() < 0.7 else rng.randint(1, n - 1)
            run['fail'], run['fail_how'] = pidx, how
            run['samples'] = [list(r) for r in run['samples']]
            run['meta'] = [list(r) for r in run['meta']]
            if how == 'preprocess':
                run['samples'][pidx] = [SENTINEL_SAMPLE] * L
            else:
                run['meta'][pidx] = [SENTINEL_META] * W
    # settings, processed values, precision
    vals = []
    for run in case['runs']:
        rows = [py_chain(run['chain'], py_frame(run['frame'], s)) for i, s in enumerate(run['samples'])
                if not (run.get('fail') == i and run.get('fail_how') == 'preprocess')]
        vals += [v for r in rows for v in r if v < NAN_CODE]
        size = max(len(rows[0]), len(py_frame(run['frame'], run['samples'][0])))
        # a used Container keeps its first trace_size (cached): histories stay away from tables, which look at it
        run['setting'] = gen_setting(rng, run.pop('bs'), size, len(py_frame(run['frame'], run['samples'][0])), ITEMSIZE[dtype],
                                     no_table=history is not None)
    big = max([abs(v) for v in vals] or [0])
    if big > 2 ** 20:
        return None
    if big <= 2 ** 8 and rng.random() < 0.5 and not wide16:      # 16-bit intermediate values: sums of squares need float64
        case['prec'] = 'float32'
    if cls == 'MIA':
        lo_v, hi_v = min(vals), max(vals)
        nb = rng.randint(2, 5)
        w = -(-(hi_v - lo_v + 1) // nb)
        case['bin_edges'] = ['grid', scaled] if scaled else [lo_v + w * i for i in range(nb + 1)]
        case['prec'] = rng.choice(['float64', 'float64', 'float32', 'uint32'])     # MIA accepts any dtype for its counters
    return case


def make_wide_case(rng, cls, mode, kind):
    """Wide traces (1001..1500 samples framed by a long index list / array), few rows, reverse CPA / DPA.  Two runs on the SAME
    trace set object whose frames agree on their ends and differ only in the middle: through two Containers (mode 'same_ths'),
    through re-assignment of container.frame (mode 'reuse'), or on a fresh trace set (mode 'fresh').  Coq sees the projection of
    the case on a few probe positions (ends, borders and inside of the part that differs); the chain is element-wise."""
    n = rng.randint(1001, 1500)
    s0 = rng.randint(0, 20)
    m0 = rng.randint(200, 500)
    m1 = m0 + rng.randint(50, 300)
    d = rng.randint(3, 40)
    L = s0 + n + 45
    N = rng.randint(2, 4)
    W = rng.randint(1, 2)
    bs = rng.choice([N, N + 3, 25000]) if mode != 'fresh' or rng.random() < 0.7 else max(1, N - 1)
    model = ['monobit', rng.randint(0, 3)] if cls == 'DPA' else rng.choice([['value'], ['hw']])
    chain = rng.choice([[], [], ['add1'], ['square'], ['add1', 'square']])
    probe = sorted({0, 1, 2, n - 3, n - 2, n - 1, m0 - 1, m0, m0 + 1, (m0 + m1) // 2, m1 - 2, m1 - 1, m1, rng.randrange(n), rng.randrange(m0, m1)})
    meta = [[rng.randint(0, 15) for _ in range(W)] for _ in range(N)]
    seed = rng.randrange(10 ** 9)
    case = {'cls': cls, 'guesses': None, 'model': model, 'disc': 'maxabs', 'prec': rng.choice(['float32', 'float64']), 'partitions': None,
            'bin_edges': None, 'step': None, 'probe': probe, 'runs': []}
    variants = [dict(s=s0, n=n, m0=m0, m1=m1, d=0), dict(s=s0, n=n, m0=m0, m1=m1, d=d)]
    if rng.random() < 0.5:
        variants.reverse()
    if rng.random() < 0.25:
        variants.append(variants[0])
    for ri, v in enumerate(variants):
        w = dict(v, L=L, seed=seed, kind=kind if rng.random() < 0.8 else ('list' if kind == 'array' else 'array'))
        run = {'meta': meta, 'dtype': 'uint8', 'chain': chain, 'setting': ['int', bs], 'wide': w}
        if ri > 0:
            if mode == 'same_ths':
                run['same_ths'] = 0
            elif mode == 'reuse':
                run['reuse'] = 0
                run['how'] = 'assign'
            else:
                w['seed'] = seed + ri
                run['meta'] = [[rng.randint(0, 15) for _ in range(W)] for _ in range(N)]
        full = wide_full_samples(run)
        idx = wide_frame_indices(w)
        cols = sorted({idx[p] for p in probe})
        run['samples'] = [[row[c] for c in cols] for row in full]             # the columns the probe positions read
        run['frame'] = ['list', [cols.index(idx[p]) for p in probe]]           # the frame, seen from those columns
        case['runs'].append(run)
    return case


def sizes_for(rng, bs, nruns, shape=None):
    out = []
    for _ in range(nruns):
        sh = shape or rng.choice(['any', 'any', 'lt', 'eq', 'kp1', 'mult'])
        if sh == 'lt':
            n = rng.randint(1, max(1, bs - 1))
        elif sh == 'eq':
            n = bs
        elif sh == 'kp1':
            n = rng.randint(1, 3) * bs + 1
        elif sh == 'mult':
            n = rng.randint(1, 3) * bs
        else:
            n = rng.randint(1, 3 * bs + 2)
        out.append((n, bs if rng.random() < 0.7 else rng.randint(1, 12)))
    return out


class RunKind(Kind):
    name = 'run_vs_oneshot'
    header = HDR
    case_type = 'c02_case'
    check_fn = 'c02_check'         # property level: rows fed = SPEC rows in order, no empty batch, results/scores = one-shot / discriminant
    corr_fn = 'c02_corr'           # correspondence level: exact batch boundaries = slices, batch-size value = batch_size_rule
    explain_fn = 'c02_explain'
    shard = 40
    rule = ('scared.<CPA|DPA|ANOVA|NICV|SNR|MIA><Attack|Reverse>.run(Container(read_ths_from_ram set, frame, preprocesses)) with '
            'set_batch_size int / table / MB float, N in 1..3*bs+2 (boundary block: N<bs, N=bs, N=k*bs+1, N=k*bs for every bs 1..12), '
            'frames None/Ellipsis/slice with step/range/index list and array with repeats, chains of 0-3 non-commuting row-wise '
            'preprocesses, 1-3 successive run() calls, float32/float64, attacks with and without convergence_step (step <,=,> bs, dividing N or '
            'not, > N, derived batch size not dividing the step with N a multiple of the step), full-byte metadata with HammingWeight(nb_words 1-3) / Monobit / Value and automatic class sets, MIA on float64 samples lying exactly on bin edges built five ways (linspace, arange/den, literals, cumsum, arange*step) '
            'with every counter precision, runs that raise on a later batch between successful runs, backward / negative-bound slice frames, float sets with NaN / inf samples (raw and produced by a preprocess), 16-bit metadata with '
            'intermediate values outgrowing one byte after the first batch / run, wide traces (1001-1500 samples) with long index-array / list frames differing only in the middle on the same trace set object (two '
            'Containers, frame re-assigned; projected on probe positions), container histories (the same Container '
            'used again by the same or another analysis object after preprocesses / frame were re-assigned or mutated in place); every update() logged; check_fn (property level): rows fed = SPEC '
            'rows in order, no empty batch, results/scores = one-shot update of a the STANDALONE distinguisher / discriminant; corr_fn (correspondence '
            'level): exact batch boundaries = slices, batch size = batch_size_rule; non-trivial = at least two batches in '
            'some run')

    def gen(self, rng, tier):
        thorough = tier != 'quick'
        # --- boundary block: for every batch size, N < bs, N = bs, N = k*bs + 1 (tail of one), N = k*bs
        combos = [(c, a) for c in CLASSES for a in (True, False)]
        i = 0
        for bs in range(1, 13):
            for shape in ('lt', 'eq', 'kp1', 'mult'):
                cls, attack = combos[i % len(combos)]
                i += 1
                c = None
                while c is None:
                    c = make_case(rng, cls, attack, sizes_for(rng, bs, 1, shape))
                yield c
        # MB float settings (batch sizes 10, 20, 30), all three shapes
        for bs in (10, 20, 30):
            for shape in ('lt', 'kp1', 'any'):
                cls, attack = combos[i % len(combos)]
                i += 1
                c = None
                while c is None:
                    c = make_case(rng, cls, attack, [(sizes_for(rng, bs, 1, shape)[0][0], bs)])
                yield c
        # every frame kind with every class family
        for fk in ('none', 'all', 'slice', 'range', 'list', 'array'):
            for cls in CLASSES:
                c = None
                while c is None:
                    bs = rng.randint(1, 6)
                    c = make_case(rng, cls, rng.random() < 0.5, sizes_for(rng, bs, rng.randint(1, 2)), frame_kind=fk)
                yield c
        # --- attacks with a convergence_step: the final results / scores must still be the one-shot ones
        attacks = [c for c in CLASSES]
        # (a) derived batch size NOT dividing the step, N a multiple of the step: the last batch does not close a step
        for st, bs in ((7, 3), (5, 2), (7, 2), (9, 2), (10, 3), (11, 3), (13, 5), (9, 4)):
            for k in (2, 3):
                cls = attacks[i % len(attacks)]
                i += 1
                c = None
                while c is None:
                    c = make_case(rng, cls, True, [(k * st, bs)], step=st)
                yield c
        # (b) step below / equal / above the batch size, dividing N or not, above N
        for bs in (1, 3, 4, 8):
            for st in sorted({1, max(1, bs - 1), bs, bs + 1, 2 * bs + 1, 50}):
                cls = attacks[i % len(attacks)]
                i += 1
                c = None
                while c is None:
                    n = rng.choice([st, 2 * st, 2 * st + 1, max(1, st - 1), 3 * bs + 1]) if st < 50 else rng.randint(1, 20)
                    c = make_case(rng, cls, True, [(min(n, 40), bs)] + sizes_for(rng, bs, rng.choice([0, 0, 1])), step=st)
                yield c
        # --- container histories: the same Container object used again after its attributes changed
        for hist in ('reuse', 'reuse', 'pre', 'pre', 'both'):
            for cls in CLASSES:
                c = None
                while c is None:
                    bs = rng.randint(1, 6)
                    c = make_case(rng, cls, rng.random() < 0.5, sizes_for(rng, bs, 1 if hist == 'pre' else rng.randint(2, 3)), history=hist)
                yield c
        # --- the library's models on full bytes, HammingWeight(nb_words = 1..3) included, automatic / explicit class sets
        for cls in ('ANOVA', 'NICV', 'SNR', 'MIA', 'ANOVA', 'SNR', 'MIA', 'CPA', 'DPA'):
            for attack in (True, False):
                c = None
                while c is None:
                    bs = rng.randint(2, 6)
                    c = make_case(rng, cls, attack, sizes_for(rng, bs, rng.randint(1, 2)), wide=True)
                yield c
        # --- MIA on float64 samples k/10 (not float32-representable, on the bin edges), every counter precision
        for k in range(15):
            c = None
            while c is None:
                bs = rng.randint(2, 6)
                grid = [['linspace', 'arange_div', 'literal', 'cumsum', 'arange_step'][k % 5], [11, 11, 6, 8, 21][(k // 5 + k) % 5]]
                c = make_case(rng, 'MIA', k % 2 == 0, sizes_for(rng, bs, rng.randint(1, 2)), scaled=grid, wide=k % 3 == 0)
            yield c
        # --- histories with a run() that RAISES on a later batch, between successful runs (and as the first run)
        for k in range(24):
            cls = CLASSES[k % 6]
            how = 'preprocess' if k % 2 == 0 else 'sf'
            bs = rng.randint(1, 4)
            first = k % 4 == 3
            sizes = ([] if first else sizes_for(rng, bs, 1)) + [(rng.randint(2, 3) * bs + rng.randint(1, bs), bs)] + sizes_for(rng, bs, 1)
            c = None
            while c is None:
                c = make_case(rng, cls, k % 3 != 0, sizes, fail=(0 if first else 1, how),
                              step=rng.choice([None, None, 2, 5]) if k % 3 != 0 else None)
            yield c
        # --- backward / negative / open slices as frames
        for k in range(14):
            cls, attack = combos[k % len(combos)]
            c = None
            while c is None:
                bs = rng.randint(1, 5)
                c = make_case(rng, cls, attack, sizes_for(rng, bs, rng.randint(1, 2)), frame_kind='pyslice')
            yield c
        # --- a few NaN / inf samples (raw, or produced by a preprocess): every trace is still used exactly once
        for k in range(16):
            c = None
            while c is None:
                bs = rng.randint(1, 5)
                c = make_case(rng, ('CPA', 'DPA')[k % 2], k % 4 < 2, sizes_for(rng, bs, rng.randint(1, 2)), nans=True)
            yield c
        # --- intermediate values that outgrow one byte after the first batch / the first run (16-bit words, classes above 255)
        for k in range(18):
            cls = CLASSES[k % 6]
            c = None
            while c is None:
                bs = rng.randint(1, 4)
                c = make_case(rng, cls, k % 3 != 2, [(rng.randint(bs + 1, 3 * bs + 2), bs)] + sizes_for(rng, bs, rng.randint(1, 2)), wide16=True)
            yield c
        # --- wide traces, long index frames that differ only in the middle, on the same trace set object
        for k in range(12):
            yield make_wide_case(rng, ('CPA', 'DPA')[k % 2], ('same_ths', 'reuse', 'same_ths', 'fresh')[k % 4], ('array', 'array', 'list')[k % 3])
        # --- thorough: all N <= 30 x bs <= 12 for CPA (attack) and SNR (reverse), frame + chain fixed per case
        if thorough:
            for bs in range(1, 13):
                for n in range(1, 31):
                    for cls, attack in (('CPA', True), ('SNR', False)):
                        c = None
                        while c is None:
                            c = make_case(rng, cls, attack, [(n, bs)], nchain=2)
                        yield c
        # --- random structure
        nrand = 470 if not thorough else 3000
        for _ in range(nrand):
            cls, attack = rng.choice(combos)
            bs = rng.choice([1, 2, 2, 3, 3, 4, 5, 6, 7, 8, 9, 10, 10, 11, 12, 20])
            nruns = rng.choice([1, 1, 2, 3])
            step = rng.choice([1, 2, 3, 4, 5, 6, 7, 9, 10, 13, 16, 25, 50]) if attack and rng.random() < 0.4 else None
            r = rng.random()
            hist = ('reuse' if nruns > 1 and r < 0.15 else 'both' if nruns > 1 and r < 0.2 else 'pre' if r < 0.3 else None)
            sizes = sizes_for(rng, bs, nruns)
            if step and rng.random() < 0.4:      # N a multiple of the step
                sizes[-1] = (min(rng.randint(1, 4) * step, 40), sizes[-1][1])
            r2 = rng.random()
            fail = None
            if hist is None and nruns >= 2 and r2 < 0.12:
                fail = (rng.randrange(nruns - 1), rng.choice(['preprocess', 'sf']))
            c = make_case(rng, cls, attack, sizes, step=step, history=hist, wide=0.12 <= r2 < 0.27,
                          nans=cls in ('CPA', 'DPA') and 0.6 <= r2 < 0.72, wide16=0.72 <= r2 < 0.8,
                          scaled=([rng.choice(['linspace', 'arange_div', 'literal', 'cumsum', 'arange_step']), rng.choice([6, 8, 11, 11, 21])]
                                  if cls == 'MIA' and 0.27 <= r2 < 0.6 else False), fail=fail)
            if c is not None:
                yield c

    def run(self, case):
        import scared
        patch_lut_cache()
        cls = analysis_class(case)
        log = []
        den = case['runs'][0].get('grid')

        nans = any(r.get('nans') for r in case['runs'])
        probe = case.get('probe')       # wide traces: only these positions of the framed trace are exported

        class Logged(cls):
            def update(self, traces, data):
                t = int_rows(np.asarray(traces)[:, probe] if probe else traces, den, nonfinite=nans)
                d = int_rows(np.asarray(data).reshape(np.asarray(data).shape[0], -1)) if np.asarray(data).ndim >= 1 else None
                log.append({'traces': t, 'data': d, 'n_traces': int(np.asarray(traces).shape[0]), 'n_data': int(np.asarray(data).shape[0])})
                return super().update(traces=traces, data=data)

        obs = {'bs': [], 'fed': [], 'failed': []}
        P = prep_functions()
        try:
            with warnings.catch_warnings():
                warnings.simplefilter('ignore')
                a = Logged(**analysis_kwargs(case, convergence_step=case.get('step')))
                all_t, all_pt = [], []
                containers = []
                thss = []
                for run in case['runs']:
                    scared.set_batch_size(setting_obj(run['setting']))
                    cont = build_container(case, run, containers, lambda: cls(**analysis_kwargs(case)), thss)
                    containers.append(cont)
                    thss.append(getattr(cont, '_ths', None))
                    try:
                        b = cont.batch_size
                        obs['bs'].append(None if b is None else int(b))
                    except ZeroDivisionError:
                        obs['bs'].append(None)
                    before = sum(u['n_traces'] for u in log)
                    try:
                        a.run(cont)
                        obs['failed'].append(False)
                    except PoisonError:
                        obs['failed'].append(True)
                    fed = sum(u['n_traces'] for u in log) - before
                    obs['fed'].append(fed)
                    # the whole set, computed without Container: samples[:, frame], then the chain; the metadata as they are
                    n = len(run['samples'])
                    s = raw_array(run)
                    fo = frame_obj(run)
                    s = s[:, ...] if fo is None else s[:, list(fo) if isinstance(fo, range) else fo]
                    for p in run['chain']:
                        s = P[p](s)
                    # a run() that raised contributes the rows it handed to update() before
                    all_t.append(np.asarray(s, dtype='float64')[:fed])
                    all_pt.append(np.array(run['meta'], dtype=run.get('meta_dtype', 'uint8')).reshape(n, -1)[:fed])
                scared.set_batch_size(None)
                obs['updates'] = log
                obs['processed'] = int(a.processed_traces)
                pr = (lambda r: np.asarray(r)[..., probe]) if probe else (lambda r: r)
                obs['shape'] = [int(v) for v in pr(a.results).shape]
                obs['results'] = flt(pr(a.results))
                obs['scores'] = flt(a.scores) if case['guesses'] is not None else None
                # one-shot: the STANDALONE distinguisher of the class (automatic classes stay automatic), ONE update with everything;
                # intermediate values from fresh selection function and model objects
                fresh = oneshot_distinguisher(case)
                traces = np.concatenate(all_t, axis=0)
                if run['chain'] == [] and run['dtype'] != 'float64':
                    traces = traces.astype(run['dtype'])
                data = make_model(case['model'])(make_sf(case['guesses'])(plaintext=np.concatenate(all_pt, axis=0)))
                fresh.update(traces=traces, data=data)
                res1 = fresh.compute()
                obs['one_results'] = flt(pr(res1))
                obs['one_shape'] = [int(v) for v in pr(res1).shape]
                obs['one_scores'] = flt(getattr(scared, case['disc'])(res1)) if case['guesses'] is not None else None
        finally:
            scared.set_batch_size(None)
        return obs

    def coq(self, case, obs):
        runs = []
        for i, run in enumerate(case['runs']):
            ob = None
            if 'raised' not in obs and i < len(obs['bs']):
                ob = obs['bs'][i]
            fed = obs['fed'][i] if 'raised' not in obs and i < len(obs['fed']) else 0
            runs.append('{| r2_rows := %s; r2_frame := %s; r2_chain := %s; r2_setting := %s; r2_itemsize := %s; r2_obs_bs := %s; '
                        'r2_fail := %s; r2_obs_fed := %s |}' % (
                            C.coq_list([coq_zrow(s, m) for s, m in zip(run['samples'], run['meta'])]), coq_frame(run['frame'], len(run['samples'][0])),
                            C.coq_list([PREP_COQ[p] for p in run['chain']]), coq_setting(run['setting']), C.coq_z(ITEMSIZE[run['dtype']]),
                            C.coq_option(ob, C.coq_z), C.coq_option(run.get('fail'), C.coq_nat), C.coq_nat(fed)))
        head = 'c2_guesses := %s; c2_model := %s; c2_prec := %s; c2_step := %s; c2_runs := %s; c2_disc := %s' % (
            C.coq_option(case['guesses'], lambda g: C.coq_list(g, C.coq_z)), coq_model(case['model']),
            'F32' if case['prec'] == 'float32' else 'F64', C.coq_option(case.get('step'), C.coq_nat), C.coq_list(runs),
            DISCS[case['disc']])
        if 'raised' in obs:
            return ('{| %s; c2_obs_updates := []; c2_obs_processed := 0%%nat; c2_res_shape := []; c2_obs_results := []; '
                    'c2_obs_scores := None; c2_one_results := []; c2_one_scores := None |}' % head)
        ups = []
        for u in obs['updates']:
            if u['traces'] is None or u['data'] is None or u['n_traces'] != u['n_data']:
                ups.append('[([], [])]')        # not integer-valued / mismatched lengths: cannot equal a model row
            else:
                ups.append(C.coq_list([coq_zrow(t, d) for t, d in zip(u['traces'], u['data'])]))
        return ('{| %s; c2_obs_updates := %s; c2_obs_processed := %s; c2_res_shape := %s; c2_obs_results := %s; c2_obs_scores := %s; '
                'c2_one_results := %s; c2_one_scores := %s |}' % (
                    head, C.coq_list(ups), C.coq_nat(obs['processed']), C.coq_list(obs['shape'], C.coq_nat), fl(obs['results']),
                    C.coq_option(obs['scores'], fl), fl(obs['one_results']), C.coq_option(obs['one_scores'], fl)))

    def oracle(self, case, obs):
        if 'raised' in obs:
            return f'run() or the one-shot update raised {obs["raised"]}: {obs["msg"]}'
        if obs['shape'] != obs['one_shape']:
            return f'results shape {obs["shape"]} differs from the one-shot shape {obs["one_shape"]}'
        for i, run in enumerate(case['runs']):
            if (run.get('fail') is not None) != obs['failed'][i]:
                return f'run() number {i}: the exception of the poisoned batch was {"not " if run.get("fail") is not None else ""}propagated'
        return None

    def nontrivial(self, case, obs):
        if 'raised' in obs:
            return False
        return len(obs['updates']) > len(case['runs'])

    def features(self, case, obs):
        f = {'class': case['cls'] + ('Attack' if case['guesses'] is not None else 'Reverse'), 'runs': len(case['runs']),
             'prec': case['prec'], 'chain_len': len(case['runs'][0]['chain']), 'frame': case['runs'][0]['frame'][0],
             'setting': case['runs'][0]['setting'][0], 'auto_partitions': case['cls'] in PARTITIONED and case['partitions'] is None,
             'fail': next((r['fail_how'] for r in case['runs'] if r.get('fail') is not None), 'none'),
             'data': 'wide_traces' if case.get('probe') else 'nan_inf' if case['runs'][0].get('nans') else '16bit_meta' if case['runs'][0].get('meta_dtype') else 'on_grid_' + case['runs'][0]['grid'][0] if case['runs'][0].get('grid') else 'wide_bytes' if case['model'][0] == 'hww' or any(
                 v > 15 for r in case['runs'] for m in r['meta'] for v in m if v != SENTINEL_META) else 'nibbles',
             'model': case['model'][0] + (str(case['model'][1]) if case['model'][0] == 'hww' else ''),
             'history': '+'.join(sorted({'reuse' for r in case['runs'] if r.get('reuse') is not None} |
                                        {'same_ths' for r in case['runs'] if r.get('same_ths') is not None} |
                                        {'pre:' + r['pre']['use'] for r in case['runs'] if r.get('pre')})) or 'none'}
        st = case.get('step')
        if st is None:
            f['step'] = 'none'
        else:
            n0 = len(case['runs'][0]['samples'])
            b0 = (obs.get('bs') or [0])[0] or 0
            f['step'] = ('lt_bs' if st < b0 else 'eq_bs' if st == b0 else 'gt_bs') + ('/gt_N' if st > n0 else '/divides_N' if n0 % st == 0
                                                                                        else '/not_dividing_N')
        if 'raised' not in obs:
            bs = obs['bs'][0] or 0
            n = len(case['runs'][0]['samples'])
            f['shape'] = ('N<bs' if n < bs else 'N=bs' if n == bs else 'tail_of_one' if bs and n % bs == 1 and bs > 1 else
                          'multiple' if bs and n % bs == 0 else 'other')
            f['nan_in_results'] = any(v != v for v in obs['results'])
        return f

    def tags(self, case, obs):
        return ['run_vs_oneshot']

    def sample(self, case, obs):
        c = {k: case.get(k) for k in ('cls', 'guesses', 'model', 'disc', 'prec', 'partitions', 'bin_edges', 'step')}
        c['runs'] = [{'n': len(r['samples']), 'frame': r['frame'], 'chain': r['chain'], 'setting': r['setting'], 'dtype': r['dtype'],
                      'reuse': r.get('reuse'), 'how': r.get('how'), 'pre': r.get('pre'), 'fail': r.get('fail'),
                      'fail_how': r.get('fail_how')} for r in case['runs']]
        o = {k: obs.get(k) for k in ('bs', 'processed', 'shape')}
        if 'updates' in obs:
            o['update_sizes'] = [u['n_traces'] for u in obs['updates']]
        return {'case': c, 'observed': o}

    def shrink(self, case):
        if case.get('probe'):       # wide traces: the case is a projection of a generated set, it is already minimal in rows
            return
        # fewer runs, then fewer traces in a run (a Container that is used again keeps its trace set), then a shorter chain
        runs = case['runs']
        hist = any(r.get('reuse') is not None or r.get('pre') for r in runs)
        if len(runs) > 1:
            for i in range(len(runs)):
                if any(r.get('reuse') == i for r in runs):
                    continue
                new = [dict(r) for j, r in enumerate(runs) if j != i]
                if new[-1].get('fail') is not None:     # results are only defined after a run() that completes
                    continue
                for r in new:
                    if r.get('reuse') is not None and r['reuse'] > i:
                        r['reuse'] -= 1
                yield dict(case, runs=new)
        for i, r in enumerate(runs):
            if r.get('reuse') is not None:
                continue
            n = len(r['samples'])
            for keep in (n // 2, n - 1):
                if 1 <= keep < n:
                    new = [dict(q) for q in runs]
                    for j, q in enumerate(new):
                        if j == i or q.get('reuse') == i:
                            q['samples'] = r['samples'][:keep]
                            q['meta'] = r['meta'][:keep]
                            if q.get('fail') is not None and q['fail'] >= keep:      # the poisoned trace is gone: the run completes
                                q.pop('fail')
                                q.pop('fail_how', None)
                    yield dict(case, runs=new)
        if case.get('step') and case['step'] > 1:
            yield dict(case, step=case['step'] - 1)
        if not hist and runs[0]['chain'] and case['cls'] != 'MIA':
            c = dict(case)
            c['runs'] = [dict(r, chain=r['chain'][:-1]) for r in runs]
            if all(len(py_chain(r['chain'], py_frame(r['frame'], r['samples'][0]))) >= 1 for r in c['runs']):
                yield c


class BsKind(Kind):
    name = 'batch_size_rule'
    header = HDR
    case_type = 'bs_case'
    check_fn = 'bs_prop_check'     # property level: a usable batch size (an int >= 1, one of the table's sizes) under batch_size_pos's hypotheses
    corr_fn = 'bs_check'           # correspondence level: its value is the one of batch_size_rule
    explain_fn = 'bs_explain'
    shard = 200
    rule = ('Container(ths, frame, preprocesses).batch_size under set_batch_size int / table (sorted, unsorted, thresholds at and around '
            'the trace size, first threshold above the size -> None, empty -> None, sizes 0) / MB float (leading digit, powers of ten, '
            'minimum 10, empty frame -> ZeroDivisionError), with chains that shorten the trace; non-trivial = table or MB setting')

    def gen(self, rng, tier):
        n = 260 if tier == 'quick' else 3000
        fixed = [
            (['table', [[5, 10]]], 3), (['table', []], 4), (['table', [[0, 0]]], 4), (['table', [[0, 7], [4, 9]]], 4),
            (['table', [[0, 7], [4, 9]]], 3), (['table', [[0, 7], [5, 9], [3, 11]]], 4), (['table', [[0, 7], [5, 9], [3, 11]]], 6),
            (['table', [[2, 7], [1, 9]]], 1), (['table', [[-3, 7]]], 3), (['table', [[0, -2]]], 3),
            (['mb', 1], 4), (['mb', 999], 1), (['mb', 1000], 1), (['mb', 1001], 1), (['mb', 9999], 1), (['mb', 10000], 1),
            (['mb', 123456], 1), (['mb', 99], 1), (['mb', 100], 1), (['mb', 109], 1), (['mb', 2542 * 6], 6), (['int', 1], 3), (['int', 25000], 3),
        ]
        for st, L in fixed:
            yield {'setting': st, 'L': L, 'dtype': rng.choice(['uint8', 'int16', 'float32']), 'frame': ['none'], 'chain': []}
        yield {'setting': ['mb', 1 << 20], 'L': 4, 'dtype': 'uint8', 'frame': ['list', []], 'chain': []}      # empty frame
        for _ in range(n):
            L = rng.randint(1, 9)
            frame = gen_frame(rng, L)
            L1 = len(py_frame(frame, list(range(L))))
            chain = gen_chain(rng, L1, 2) if L1 >= 1 else []
            size = max(L1, len(py_chain(chain, list(range(L1)))))
            r = rng.random()
            if r < 0.15:
                st = ['int', rng.choice([1, 2, 7, 100, 25000])]
            elif r < 0.6:
                k = rng.randint(1, 4)
                ths = sorted(rng.sample(range(0, 14), k)) if rng.random() < 0.7 else [rng.randint(0, 12) for _ in range(k)]
                if rng.random() < 0.6:
                    ths[0] = 0
                if rng.random() < 0.3:
                    ths[rng.randrange(k)] = size + rng.choice([-1, 0, 1])
                st = ['table', [[max(t, -1), rng.randint(1, 30)] for t in ths]]
            else:
                unit = max(1, L1) * ITEMSIZE['uint8']
                q = rng.choice([rng.randint(1, 40), rng.randint(90, 1100), rng.choice([9, 10, 11, 99, 100, 101, 999, 1000, 1001, 2542, 9999, 10000])])
                st = ['mb', q * unit * rng.choice([1, 1, 2, 4]) + rng.randint(0, unit - 1)]
            yield {'setting': st, 'L': L, 'dtype': rng.choice(['uint8', 'int16', 'float32']), 'frame': frame, 'chain': chain}

    def run(self, case):
        import scared
        L = case['L']
        run = {'samples': [list(range(L)), list(range(1, L + 1))], 'meta': [[0], [1]], 'dtype': case['dtype'], 'frame': case['frame'],
               'chain': case['chain']}
        obs = {}
        try:
            scared.set_batch_size(setting_obj(case['setting']))
            cont = make_container(run)
            obs['trace_size'] = int(cont.trace_size)
            try:
                obs['input_size'] = int(len(cont._ths[0].samples[cont.frame]))
            except Exception:
                obs['input_size'] = None
            try:
                b = cont.batch_size
                obs['bs'] = None if b is None else int(b)
                obs['how'] = 'returned'
            except ZeroDivisionError:
                obs['bs'] = None
                obs['how'] = 'ZeroDivisionError'
        finally:
            scared.set_batch_size(None)
        return obs

    def _sizes(self, case):
        x = py_frame(case['frame'], list(range(case['L'])))
        return len(py_chain(case['chain'], x)) if x else 0, len(x)

    def coq(self, case, obs):
        ts, isz = self._sizes(case)
        ob = None if 'raised' in obs else obs['bs']
        return '{| b_setting := %s; b_trace_size := %s; b_input_size := %s; b_itemsize := %s; b_obs := %s |}' % (
            coq_setting(case['setting']), C.coq_z(ts), C.coq_z(isz), C.coq_z(ITEMSIZE[case['dtype']]),
            C.coq_option(-1 if 'raised' in obs else ob, C.coq_z))

    def oracle(self, case, obs):
        if 'raised' in obs:
            return f'Container.batch_size raised {obs["raised"]}: {obs["msg"]}'
        ts, isz = self._sizes(case)
        if isz > 0 and (obs['trace_size'] != ts or obs['input_size'] not in (None, isz)):
            return f'trace_size/input_size {obs["trace_size"]}/{obs["input_size"]} differ from the frame+chain lengths {ts}/{isz}'
        return None

    def nontrivial(self, case, obs):
        return case['setting'][0] != 'int'

    def features(self, case, obs):
        return {'setting': case['setting'][0], 'answer': 'none' if obs.get('bs') is None else 'some', 'how': obs.get('how', 'raised')}

    def tags(self, case, obs):
        return ['batch_size_rule']


KINDS = [RunKind(), BsKind()]
