"""C15 — leakage models and discriminants compute their definitions on every value."""
import itertools
import numpy as np

from lib.kinds import Kind
from lib import core
from translate import common as C

ID = 'C15'
TRANSLATORS = ['models']
MODEL_TARGETS = ['theories/Model/Models.vo']
PROP_TARGET = 'theories/Props/C15.vo'
EXHAUSTIVE = True
TRUSTED_BASE = [
    'Coq 8.16.1 kernel incl. vm_compute (no native_compute)',
    'Print Assumptions: every theorem of Props/C15.v is closed under the global context (no axioms)',
    'translator tools/translate/tr_models.py (ast; literal table re-compared with the live scared.models._HW_LUT)',
    'correspondence harness tools/props/C15.py: numpy C-order flattening, float.hex export',
    'modelled, not verified: numba.vectorize dispatch, numpy swapaxes/sum/nanmax/nansum/abs semantics',
]
ASSUMPTIONS = [
    'HammingWeight input is an unsigned array of the expected dtype (other inputs are refused by the code)',
    'discriminant inputs are >= 2-D float arrays with finite or NaN entries (the decorator refuses 1-D input)',
    'dyadic float values so that sums are exact in float32/float64',
]

HDR = 'From ScaredV Require Import Model.Models.'


def _flat(a):
    return [int(v) for v in np.ascontiguousarray(a).reshape(-1).tolist()]


class HwKind(Kind):
    name = 'hamming_weight'
    header = HDR
    case_type = 'hw_case'
    check_fn = 'hw_check'
    explain_fn = 'hw_expected_spec'
    shard = 16
    rule = ('HammingWeight(nb_words,k) on uint8/16/32/64 arrays: exhaustive uint8 and uint16 values, per-byte-lane exhaustive '
            'uint32/uint64 (other lanes 0x00 / 0xFF), random values, shapes 1-D..4-D, every axis incl. -1, nb_words 1..5; '
            'non-trivial = at least two distinct input values')

    def gen(self, rng, tier):
        # exhaustive uint8, uint16 (chunked so that each Coq literal stays small)
        yield {'dtype': 'uint8', 'k': 1, 'shape': [1, 256], 'axis': 1, 'values': list(range(256))}
        for base in range(0, 65536, 512):
            yield {'dtype': 'uint16', 'k': 1, 'shape': [512], 'axis': 0, 'values': list(range(base, base + 512))}
        # per-byte-lane exhaustive for 32/64 bits, other lanes all-0 and all-1
        for dt, nbytes in (('uint32', 4), ('uint64', 8)):
            full = (1 << (8 * nbytes)) - 1
            for lane in range(nbytes):
                for bg in (0, full):
                    vals = [(bg & ~(0xff << (8 * lane))) | (b << (8 * lane)) for b in range(256)]
                    yield {'dtype': dt, 'k': 1, 'shape': [256], 'axis': -1, 'values': vals}
        # random values, shapes, axes, nb_words
        n = 60 if tier == 'quick' else 600
        for _ in range(n):
            dt = rng.choice(['uint8', 'uint16', 'uint32', 'uint64'])
            bits = np.dtype(dt).itemsize * 8
            nd = rng.randint(1, 4)
            shape = [rng.randint(1, 5) for _ in range(nd)]
            axis = rng.choice(list(range(nd)) + [-1])
            L = shape[axis]
            k = rng.randint(1, min(5, L))
            size = int(np.prod(shape))
            mode = rng.random()
            vals = []
            for _ in range(size):
                if mode < 0.2:
                    vals.append(rng.choice([0, (1 << bits) - 1, 1 << (bits - 1), 1]))
                else:
                    vals.append(rng.getrandbits(bits))
            yield {'dtype': dt, 'k': k, 'shape': shape, 'axis': axis, 'values': vals}

    def run(self, case):
        import scared
        a = np.array(case['values'], dtype=case['dtype']).reshape(case['shape'])
        before = a.copy()
        m = scared.HammingWeight(nb_words=case['k'], expected_dtype=case['dtype'])
        r = m(a, axis=case['axis'])
        return {'shape': list(r.shape), 'values': _flat(r), 'input_unchanged': bool((a == before).all())}

    def coq(self, case, obs):
        axis = case['axis'] if case['axis'] >= 0 else len(case['shape']) - 1
        if 'raised' in obs:
            oshape, ovals = [], []
        else:
            oshape, ovals = obs['shape'], obs['values']
        return ('{| hw_itemsize := %s; hw_k := %s; hw_shape := %s; hw_axis := %s; hw_in := %s; hw_obs_shape := %s; hw_obs := %s |}' % (
            C.coq_n(np.dtype(case['dtype']).itemsize), C.coq_nat(case['k']), C.coq_list(case['shape'], C.coq_nat), C.coq_nat(axis),
            C.coq_list(case['values'], C.coq_n), C.coq_list(oshape, C.coq_nat), C.coq_list(ovals, C.coq_n)))

    def oracle(self, case, obs):
        if 'raised' in obs:
            return f'HammingWeight raised {obs["raised"]}: {obs["msg"]}'
        if not obs['input_unchanged']:
            return 'input array modified'
        return None

    def nontrivial(self, case, obs):
        return len(set(case['values'])) >= 2

    def features(self, case, obs):
        return {'dtype': case['dtype'], 'ndim': len(case['shape']), 'k': case['k'], 'axis': case['axis']}

    def tags(self, case, obs):
        return ['hamming_weight', f'hw_{case["dtype"]}']

    def sample(self, case, obs):
        c = dict(case)
        c['values'] = c['values'][:12] + (['...'] if len(c['values']) > 12 else [])
        o = dict(obs)
        if 'values' in o:
            o['values'] = o['values'][:12]
        return {'case': c, 'observed': o}

    def shrink(self, case):
        vals = case['values']
        if case['k'] == 1 and len(case['shape']) == 1 and len(vals) > 1:
            h = len(vals) // 2
            for part in (vals[:h], vals[h:]):
                yield dict(case, values=part, shape=[len(part)])


class MonoKind(Kind):
    name = 'monobit'
    header = HDR
    case_type = 'mono_case'
    check_fn = 'mono_check'
    shard = 100
    rule = 'Monobit(b), b in 0..8, on all uint8 values, uint16 boundary values and random unsigned/signed data; non-trivial = both output bits occur'

    def gen(self, rng, tier):
        for b in range(9):
            yield {'bit': b, 'dtype': 'uint8', 'values': list(range(256))}
            yield {'bit': b, 'dtype': 'uint16', 'values': [0, 1, 127, 128, 255, 256, 257, 511, 512, 32767, 32768, 65535] + [rng.getrandbits(16) for _ in range(52)]}
            yield {'bit': b, 'dtype': 'uint32', 'values': [rng.getrandbits(32) for _ in range(32)]}
            yield {'bit': b, 'dtype': 'uint64', 'values': [rng.getrandbits(64) for _ in range(32)]}
            yield {'bit': b, 'dtype': 'int16', 'values': [rng.randint(-32768, 32767) for _ in range(32)]}
            yield {'bit': b, 'dtype': 'int32', 'values': [rng.randint(-2**31, 2**31 - 1) for _ in range(32)]}

    def run(self, case):
        import scared
        a = np.array(case['values'], dtype=case['dtype']).reshape(2, -1)
        r = scared.Monobit(case['bit'])(a)
        if r.shape != a.shape:
            return {'raised': 'ShapeChanged', 'msg': str(r.shape)}
        return {'values': _flat(r)}

    def coq(self, case, obs):
        ov = obs.get('values', [])
        return '{| mono_bit := %s; mono_in := %s; mono_obs := %s |}' % (C.coq_n(case['bit']), C.coq_list(case['values'], C.coq_z), C.coq_list(ov, C.coq_n))

    def oracle(self, case, obs):
        if 'raised' in obs:
            return f'Monobit({case["bit"]}) on {case["dtype"]} raised {obs["raised"]}: {obs["msg"]}'
        return None

    def nontrivial(self, case, obs):
        return len(set(obs.get('values', []))) == 2

    def tags(self, case, obs):
        t = ['monobit']
        if 'raised' in obs:
            t.append(f'monobit_bit{case["bit"]}_{case["dtype"]}_{obs["raised"]}')
        return t

    def features(self, case, obs):
        return {'dtype': case['dtype'], 'bit': case['bit']}

    def sample(self, case, obs):
        return {'case': dict(case, values=case['values'][:10]), 'observed': {k: (v[:10] if isinstance(v, list) else v) for k, v in obs.items()}}


class ValueKind(Kind):
    name = 'value'
    header = HDR
    case_type = 'value_case'
    check_fn = 'value_check'
    rule = 'Value() returns the data unchanged (same values, same shape); non-trivial = at least two distinct values'

    def gen(self, rng, tier):
        for dt in ('uint8', 'uint16', 'int16', 'uint32', 'int64'):
            info = np.iinfo(dt)
            for _ in range(3):
                shape = [rng.randint(1, 4) for _ in range(rng.randint(1, 3))]
                yield {'dtype': dt, 'shape': shape, 'values': [rng.randint(int(info.min), int(info.max)) for _ in range(int(np.prod(shape)))]}

    def run(self, case):
        import scared
        a = np.array(case['values'], dtype=case['dtype']).reshape(case['shape'])
        r = scared.Value()(a)
        return {'values': _flat(r), 'shape': list(r.shape)}

    def coq(self, case, obs):
        return '{| val_in := %s; val_obs := %s |}' % (C.coq_list(case['values'], C.coq_z), C.coq_list(obs.get('values', []), C.coq_z))

    def oracle(self, case, obs):
        if 'raised' in obs:
            return f'Value raised {obs["raised"]}'
        if obs['shape'] != case['shape']:
            return 'Value changed the shape'
        return None

    def nontrivial(self, case, obs):
        return len(set(case['values'])) >= 2


OPS = [('nanmax', 'DNanmax'), ('maxabs', 'DMaxabs'), ('opposite_min', 'DOppositeMin'), ('nansum', 'DNansum'), ('abssum', 'DAbssum')]


class DiscKind(Kind):
    name = 'discriminant'
    header = HDR
    case_type = 'disc_case'
    check_fn = 'disc_check'
    explain_fn = 'disc_expected'
    shard = 150
    rule = ('nanmax/maxabs/opposite_min/nansum/abssum on 2-D..4-D float32/float64 arrays of dyadic values with NaN patterns '
            '(none / some / a whole lane / all), every axis incl. -1; non-trivial = lane length >= 2 and at least two distinct finite values')

    def gen(self, rng, tier):
        n = 40 if tier == 'quick' else 400
        for (op, _), i in itertools.product(OPS, range(n)):
            nd = rng.randint(2, 4)
            shape = [rng.randint(1, 4) for _ in range(nd)]
            axis = rng.choice(list(range(nd)) + [-1])
            size = int(np.prod(shape))
            nan_mode = i % 4
            vals = []
            for j in range(size):
                v = rng.randint(-64, 64) / rng.choice([1, 2, 4, 8])
                if rng.random() < 0.1:
                    v = rng.choice([0.0, -0.0])
                if nan_mode == 1 and rng.random() < 0.3:
                    v = float('nan')
                if nan_mode == 3:
                    v = float('nan') if rng.random() < 0.85 else v
                vals.append(v)
            a = np.array(vals, dtype='float64').reshape(shape)
            if nan_mode == 2:   # one whole lane NaN
                idx = [rng.randrange(s) for s in shape]
                sl = tuple(slice(None) if d == (axis % nd) else idx[d] for d in range(nd))
                a[sl] = np.nan
            yield {'op': op, 'dtype': rng.choice(['float32', 'float64']), 'shape': shape, 'axis': axis,
                   'values': [float(v) for v in a.reshape(-1)]}

    def run(self, case):
        import warnings
        import scared
        a = np.array(case['values'], dtype=case['dtype']).reshape(case['shape'])
        with warnings.catch_warnings():
            warnings.simplefilter('ignore')
            r = getattr(scared, case['op'])(a, axis=case['axis'])
        return {'shape': list(r.shape), 'values': [float(v) for v in np.ascontiguousarray(r).reshape(-1)]}

    def coq(self, case, obs):
        axis = case['axis'] if case['axis'] >= 0 else len(case['shape']) - 1
        op = dict(OPS)[case['op']]
        return '{| dc_op := %s; dc_shape := %s; dc_axis := %s; dc_in := %s; dc_obs_shape := %s; dc_obs := %s |}' % (
            op, C.coq_list(case['shape'], C.coq_nat), C.coq_nat(axis), C.coq_list(case['values'], core.float_to_coq),
            C.coq_list(obs.get('shape', []), C.coq_nat), C.coq_list(obs.get('values', []), core.float_to_coq))

    def oracle(self, case, obs):
        if 'raised' in obs:
            return f'{case["op"]} raised {obs["raised"]}: {obs["msg"]}'
        return None

    def nontrivial(self, case, obs):
        fin = {v for v in case['values'] if v == v}
        return case['shape'][case['axis']] >= 2 and len(fin) >= 2

    def features(self, case, obs):
        nn = sum(1 for v in case['values'] if v != v)
        return {'op': case['op'], 'ndim': len(case['shape']), 'nan': 'none' if nn == 0 else ('all' if nn == len(case['values']) else 'some'),
                'dtype': case['dtype']}

    def tags(self, case, obs):
        return ['discriminant', 'disc_' + case['op']]


KINDS = [HwKind(), MonoKind(), ValueKind(), DiscKind()]
